//! vsim: the deterministic environment shared by the checks.
//!
//! * a per-thread virtual clock: wall time (`unix()`, read by `SimTime::current_time`) and a
//!   monotonic clock (`mono()`, installed as hickory's hook clock with `install_hook_clock`);
//! * `SimTime` / `SimProvider`: a `RuntimeProvider` whose `Timer::current_time()` is the virtual
//!   wall clock (timers themselves are tokio's, i.e. virtual under a paused runtime);
//! * `rt()`: a current-thread tokio runtime with the clock paused;
//! * `serve()`: raw request bytes -> real `Catalog::handle_request` -> raw response bytes.
//!
//! Every check case runs on ONE thread; the clocks are thread-local so 16 workers do not interfere.

use std::cell::Cell;
use std::future::Future;
use std::net::SocketAddr;
use std::pin::Pin;
use std::sync::LazyLock;
use std::time::{Duration, Instant};

use futures_util::StreamExt;
use hickory_net::runtime::{RuntimeProvider, Time, TokioHandle, TokioRuntimeProvider, TokioTime};
use hickory_net::xfer::Protocol;
use hickory_net::BufDnsStreamHandle;
use hickory_server::server::{Request, RequestHandler, ResponseHandle};
use hickory_server::zone_handler::Catalog;

thread_local! {
    static UNIX: Cell<u64> = const { Cell::new(1_700_000_000) };
    static MONO_MS: Cell<u64> = const { Cell::new(0) };
}

static BASE: LazyLock<Instant> = LazyLock::new(Instant::now);

/// Virtual wall clock (seconds since the epoch) of this thread.
pub fn unix() -> u64 {
    UNIX.with(|c| c.get())
}
pub fn set_unix(t: u64) {
    UNIX.with(|c| c.set(t));
}
/// Virtual monotonic clock of this thread as an `Instant` (BASE + offset).
pub fn mono() -> Instant {
    *BASE + Duration::from_millis(MONO_MS.with(|c| c.get()))
}
pub fn mono_ms() -> u64 {
    MONO_MS.with(|c| c.get())
}
pub fn set_mono_ms(ms: u64) {
    MONO_MS.with(|c| c.set(ms));
}
/// Advance both clocks by `secs` seconds.
pub fn advance_secs(secs: u64) {
    UNIX.with(|c| c.set(c.get() + secs));
    MONO_MS.with(|c| c.set(c.get() + secs * 1000));
}
pub fn advance_ms(ms: u64) {
    MONO_MS.with(|c| c.set(c.get() + ms));
}
pub fn reset_clocks(unix0: u64) {
    set_unix(unix0);
    set_mono_ms(0);
}

/// Route hickory's hooked `Instant::now()` call sites (pool deadline, RTT bookkeeping, DNSSEC
/// validation cache) of this thread to the virtual monotonic clock `mono()`.
pub fn install_hook_clock() {
    hickory_proto::verif::set_clock(Some(mono));
}

fn tokio_now() -> Instant {
    tokio::time::Instant::now().into_std()
}

/// Route the hooked call sites to tokio's clock (virtual when the runtime is paused).
pub fn install_hook_clock_tokio() {
    hickory_proto::verif::set_clock(Some(tokio_now));
}

pub fn remove_hook_clock() {
    hickory_proto::verif::set_clock(None);
}

/// A current-thread runtime whose clock is paused: timers fire in virtual time, idle time
/// auto-advances, so a run is a deterministic function of its script.
pub fn rt() -> tokio::runtime::Runtime {
    tokio::runtime::Builder::new_current_thread()
        .enable_time()
        .start_paused(true)
        .build()
        .unwrap()
}

#[derive(Clone, Copy, Debug, Default)]
pub struct SimTime;

#[async_trait::async_trait]
impl Time for SimTime {
    async fn delay_for(d: Duration) {
        TokioTime::delay_for(d).await
    }
    async fn timeout<F: 'static + Future + Send>(d: Duration, f: F) -> Result<F::Output, std::io::Error> {
        TokioTime::timeout(d, f).await
    }
    fn current_time() -> u64 {
        unix()
    }
}

/// A `RuntimeProvider` with the virtual wall clock. Its sockets are the real tokio ones and are
/// never used by the checks (they script `DnsHandle` / `ConnectionProvider` / socket traits).
#[derive(Clone, Default)]
pub struct SimProvider(TokioRuntimeProvider);

impl RuntimeProvider for SimProvider {
    type Handle = TokioHandle;
    type Timer = SimTime;
    type Udp = <TokioRuntimeProvider as RuntimeProvider>::Udp;
    type Tcp = <TokioRuntimeProvider as RuntimeProvider>::Tcp;
    fn create_handle(&self) -> TokioHandle {
        self.0.create_handle()
    }
    fn connect_tcp(
        &self,
        a: SocketAddr,
        b: Option<SocketAddr>,
        t: Option<Duration>,
    ) -> Pin<Box<dyn Send + Future<Output = Result<Self::Tcp, std::io::Error>>>> {
        self.0.connect_tcp(a, b, t)
    }
    fn bind_udp(
        &self,
        l: SocketAddr,
        s: SocketAddr,
    ) -> Pin<Box<dyn Send + Future<Output = Result<Self::Udp, std::io::Error>>>> {
        self.0.bind_udp(l, s)
    }
}

pub fn client_addr() -> SocketAddr {
    "192.0.2.1:5353".parse().unwrap()
}

/// Feed raw request bytes to the real `Catalog` (through `Request::from_bytes`, like the server
/// loop does after its front-door checks) and collect the raw response datagrams/frames that the
/// real `ResponseHandle` -> `MessageResponse::encode` path produces. `None` if the request bytes
/// do not parse as a request. The catalog's clock is the virtual wall clock.
pub async fn serve(catalog: &Catalog, request: &[u8], proto: Protocol) -> Option<Vec<Vec<u8>>> {
    let src = client_addr();
    let req = Request::from_bytes(request.to_vec(), src, proto).ok()?;
    let (handle, mut rx) = BufDnsStreamHandle::new(src);
    catalog
        .handle_request::<_, SimTime>(&req, ResponseHandle::new(src, handle, proto))
        .await;
    let mut out = vec![];
    // the sender half was moved into the ResponseHandle and is dropped by now
    while let Some(m) = rx.next().await {
        out.push(m.into_parts().0);
    }
    Some(out)
}
