//! The statement's other anchors: what the SERVER loads from a zone file, and `$INCLUDE`.
//!
//! * loader differential: a printed zone file (SOA + NS + records under inheritance layouts) is
//!   written to a scratch root directory and loaded with the real
//!   `FileZoneHandler::try_from_config(origin, .., Some(root_dir), FileConfig{zone_path})`
//!   (-> `zone_from_path` -> `Parser` -> `InMemoryZoneHandler::new`); the loaded zone
//!   (`records()`) and the AXFR answer of the real `Catalog` for it must both be exactly the
//!   records the file denotes. Only judged when the plain parser already loads the text exactly
//!   (the parser itself is judged by the main enumerator).
//! * `$INCLUDE` (RFC 1035 §5.1) in the valid direction: a four-record file split at every pair of
//!   positions into a parent and an included file (optionally nested once more), with a
//!   `$ORIGIN` inside the included file, relative names on both sides, missing final newlines,
//!   comments, CRLF, relative/absolute paths. (The `$INCLUDE <file> <domain-name>` argument, which
//!   hickory refuses with a documented error, is only counted as an observation.)
//!   RFC 1035: the included file is inserted at that point; "$INCLUDE entry never changes the
//!   relative origin of the parent file, regardless of changes to the relative origin made
//!   within the included file".

use std::path::{Path, PathBuf};
use std::sync::Arc;

use hickory_net::xfer::Protocol;
use hickory_proto::op::{Message, MessageType, OpCode, Query};
use hickory_proto::rr::{Name, Record, RecordType};
use hickory_proto::serialize::txt::Parser;
use hickory_server::store::file::{FileConfig, FileZoneHandler};
use hickory_server::zone_handler::{AxfrPolicy, Catalog, ZoneType};
use serde_json::{json, Value};
use vcore::{catch, fnv64, Ctx, Local, Odometer};
use vref::masterfile::{Labels, Printer, Rec, RecLayout, D_CLASS, D_ORIGIN, D_OWNER, D_PARENS, D_RDNAMES, D_TTL, NDIMS};

use crate::alphabet::{entry, hname, labels, rdata_shapes, Entry};
use crate::panic_key;
use crate::valid::World;

pub struct Env {
    pub root: PathBuf,
    pub rt: tokio::runtime::Runtime,
    /// include witnesses already reduced on this worker: (clause, sufficient choices, key)
    pub cache: Vec<(String, Vec<(usize, u64)>, String)>,
}

impl Env {
    pub fn new(base: &Path, worker: usize) -> Env {
        let root = base.join(format!("w{worker}"));
        std::fs::create_dir_all(root.join("zones")).expect("scratch dir");
        Env { root, rt: vsim::rt(), cache: vec![] }
    }
}

pub(crate) fn same(a: &Record, b: &Record) -> bool {
    a.name == b.name && a.name.is_fqdn() == b.name.is_fqdn() && a.ttl == b.ttl && a.dns_class == b.dns_class && a.record_type() == b.record_type() && a.data == b.data
}

/// multiset equality
pub(crate) fn same_set(got: &[Record], want: &[&Record]) -> bool {
    if got.len() != want.len() {
        return false;
    }
    let mut used = vec![false; got.len()];
    'w: for x in want {
        for (i, g) in got.iter().enumerate() {
            if !used[i] && same(g, x) {
                used[i] = true;
                continue 'w;
            }
        }
        return false;
    }
    true
}

pub(crate) fn show(rs: &[Record]) -> String {
    rs.iter().map(|r| format!("{} {} {} {} {:?}", r.name, r.ttl, r.dns_class, r.record_type(), r.data)).collect::<Vec<_>>().join(" | ")
}

pub fn parse_flat(text: &str, path: Option<&Path>, origin: &Name) -> Result<Result<Vec<Record>, String>, vcore::PanicInfo> {
    let res = catch(|| Parser::new(text.to_string(), path.map(|p| p.to_path_buf()), Some(origin.clone())).parse());
    res.map(|r| {
        r.map(|(_o, m)| m.values().flat_map(|rs| rs.records_without_rrsigs().cloned().collect::<Vec<_>>()).collect::<Vec<_>>()).map_err(|e| e.to_string())
    })
}

/// Load `zones/main.zone` below the scratch root through the real file store; return the loaded
/// records and the records of the AXFR answer.
pub fn load_and_transfer(env: &Env, origin: &Name) -> Result<Result<(Vec<Record>, Vec<Record>), String>, vcore::PanicInfo> {
    catch(|| {
        let handler = FileZoneHandler::try_from_config(
            origin.clone(),
            ZoneType::Primary,
            AxfrPolicy::AllowAll,
            Some(&env.root),
            &FileConfig { zone_path: PathBuf::from("zones/main.zone") },
            None,
        )?;
        env.rt.block_on(async {
            let loaded: Vec<Record> = {
                let recs = handler.records().await;
                recs.values().flat_map(|rs| rs.records_without_rrsigs().cloned().collect::<Vec<_>>()).collect()
            };
            let mut catalog = Catalog::new();
            catalog.upsert(origin.clone().into(), vec![Arc::new(handler)]);
            let mut q = Message::new(0x4321, MessageType::Query, OpCode::Query);
            q.add_query(Query::new(origin.clone(), RecordType::AXFR));
            let bytes = q.to_vec().map_err(|e| e.to_string())?;
            let frames = vsim::serve(&catalog, &bytes, Protocol::Tcp).await.ok_or("AXFR request did not parse")?;
            let mut axfr = vec![];
            for f in frames {
                let m = Message::from_vec(&f).map_err(|e| format!("AXFR frame undecodable: {e}"))?;
                axfr.extend(m.answers.iter().cloned());
            }
            Ok((loaded, axfr))
        })
    })
}

pub(crate) fn soa_ns(w: &World) -> (Entry, Entry) {
    use hickory_proto::rr::rdata::{NS, SOA};
    use hickory_proto::rr::RData;
    use vref::masterfile::Field::*;
    let ns = {
        let mut v = labels(&["ns"]);
        v.extend(w.origin.clone());
        v
    };
    let hm = {
        let mut v = labels(&["host.master"]);
        v.extend(w.origin.clone());
        v
    };
    let env = (w.origin.clone(), 3600u32, "IN");
    let soa = entry(
        &env,
        &(
            "SOA",
            "SOA apex".to_string(),
            vec![Name(ns.clone()), Name(hm.clone()), Int(7), Int(7200), Int(600), Int(3600000), Int(60)],
            RData::SOA(SOA::new(hname(&ns), hname(&hm), 7, 7200, 600, 3600000, 60)),
        ),
    );
    let nsr = entry(&env, &("NS", "NS apex".to_string(), vec![Name(ns.clone())], RData::NS(NS(hname(&ns)))));
    (soa, nsr)
}

/// Judge one zone text through the loader. `entries` = the records after SOA and NS.
#[allow(clippy::too_many_arguments)]
fn judge_loader(w: &World, env: &Env, soa: &Entry, ns: &Entry, entries: &[&Entry], text: &str, what_case: &dyn Fn() -> Value, l: &mut Local) {
    l.eval();
    let main = env.root.join("zones/main.zone");
    std::fs::write(&main, text).expect("scratch write");
    let mut want: Vec<&Record> = vec![&soa.expect, &ns.expect];
    for e in entries {
        if !want.iter().any(|x| same(x, &e.expect)) {
            want.push(&e.expect);
        }
    }
    // the plain parser first: the loader is only judged on texts the parser loads exactly
    match parse_flat(text, Some(&main), &w.horigin) {
        Ok(Ok(got)) if same_set(&got, &want) => {}
        _ => {
            l.outcome("loader:skipped:parser-level-difference");
            return;
        }
    }
    let types: Vec<&str> = entries.iter().map(|e| e.rec.rtype).collect();
    let types = types.join("+");
    match load_and_transfer(env, &w.horigin) {
        Err(p) => l.violation(&panic_key(&p), &format!("the file store panicked while loading a valid zone file: {}", p.msg), what_case),
        Ok(Err(e)) => l.violation(&format!("loader:rejected:{types}"), &format!("FileZoneHandler::try_from_config refused a zone file the parser loads exactly: {e}"), what_case),
        Ok(Ok((loaded, axfr))) => {
            if !same_set(&loaded, &want) {
                l.violation(
                    &format!("loader:records-differ:{types}"),
                    &format!("loaded zone differs from the parsed records: loaded [{}]", show(&loaded)),
                    what_case,
                );
                return;
            }
            // AXFR: SOA first and last, everything else once
            let mut want_axfr = want.clone();
            want_axfr.push(&soa.expect);
            let soa_edges = axfr.first().map(|r| r.record_type() == RecordType::SOA).unwrap_or(false)
                && axfr.last().map(|r| r.record_type() == RecordType::SOA).unwrap_or(false);
            if !same_set(&axfr, &want_axfr) || !soa_edges {
                l.violation(
                    &format!("loader:axfr-differs:{types}"),
                    &format!("AXFR of the loaded zone differs from the records of the file: [{}]", show(&axfr)),
                    what_case,
                );
                return;
            }
            l.outcome("loader:ok");
            l.nontrivial(fnv64(text.as_bytes()));
        }
    }
}

/// Loader differential over (a) every IN-class in-zone single record x inheritance/continuation
/// layouts, (b) ordered IN triples of the chain alphabet x owner/TTL/class inheritance,
/// (c) RRset pairs (same type, distinct RDATA).
pub fn loader_family(ctx: &Ctx, w: &World, base: &Path, thorough: bool) -> u64 {
    let (soa, ns) = soa_ns(w);
    let singles = crate::alphabet::singles();
    let chain = crate::alphabet::chain_alphabet();
    let rrset = crate::alphabet::rrset_alphabet();
    let in_zone = |e: &Entry| {
        e.rec.class == "IN"
            && e.rec.owner.len() >= w.origin.len()
            && e.rec.owner[e.rec.owner.len() - w.origin.len()..] == w.origin[..]
            && !(e.rec.rtype == "SOA")
            // a CNAME cannot share the apex with SOA/NS (the store refuses it: not judged here)
            && !((e.rec.rtype == "CNAME") && e.rec.owner == w.origin)
    };
    // work items: (alphabet id, tuple)
    let mut items: Vec<(u8, Vec<usize>)> = vec![];
    for (i, e) in singles.iter().enumerate() {
        if in_zone(e) && !(e.rec.rtype == "OPENPGPKEY" && !thorough && e.tag.contains("3072")) {
            items.push((0, vec![i]));
        }
    }
    let k = crate::alphabet::CHAIN_ENVS;
    for a in 0..k {
        for b in 0..k {
            for c in 0..k {
                let t = vec![a, k + b, 2 * k + c];
                if t.iter().all(|i| in_zone(&chain[*i])) {
                    items.push((1, t));
                }
            }
        }
    }
    for t in crate::alphabet::rrset_tuples(&rrset) {
        if t.len() == 2 && t.iter().all(|i| in_zone(&rrset[*i])) && !matches!(rrset[t[0]].rec.rtype, "CNAME" | "ANAME") {
            items.push((2, t));
        }
    }
    let single_dims: Vec<(usize, Vec<u8>)> = vec![(D_OWNER, vec![0, 1, 2, 3]), (D_TTL, vec![0, 1]), (D_CLASS, vec![0, 1]), (D_PARENS, vec![0, 3]), (D_RDNAMES, vec![0, 1])];
    let chain_dims: Vec<(usize, Vec<u8>)> = vec![(D_OWNER, vec![0, 1, 2, 3]), (D_TTL, vec![0, 1]), (D_CLASS, vec![0, 1])];
    let count = std::sync::atomic::AtomicU64::new(0);
    ctx.par_run_init(
        items.len() as u64,
        1,
        |wk| Env::new(base, wk),
        |i, l, env| {
            let (aid, tuple) = &items[i as usize];
            let alpha: &[Entry] = match aid {
                0 => &singles,
                1 => &chain,
                _ => &rrset,
            };
            let entries: Vec<&Entry> = tuple.iter().map(|x| &alpha[*x]).collect();
            let dims = if *aid == 0 { &single_dims } else { &chain_dims };
            let radices: Vec<u64> = dims.iter().map(|d| d.1.len() as u64).collect();
            let od = Odometer::new(&radices);
            // preamble
            let mut p0 = Printer::new(&w.origin, &w.alts, false, None);
            let plain: RecLayout = [0; NDIMS];
            p0.emit_record(&soa.rec, &plain);
            p0.emit_record(&ns.rec, &plain);
            // depth first over the records of the tuple
            fn rec<'a>(
                k: usize,
                p: &Printer<'_>,
                entries: &[&'a Entry],
                od: &Odometer,
                dims: &[(usize, Vec<u8>)],
                lays: &mut Vec<RecLayout>,
                f: &mut dyn FnMut(&Printer<'_>, &[RecLayout]),
            ) {
                let mut digits = vec![];
                for i in 0..od.space() {
                    od.digits(i, &mut digits);
                    let mut lay: RecLayout = [0; NDIMS];
                    for (j, (d, vals)) in dims.iter().enumerate() {
                        lay[*d] = vals[digits[j] as usize];
                    }
                    if !p.check_record(&entries[k].rec, &lay) {
                        continue;
                    }
                    let mut p2 = p.clone();
                    p2.emit_record(&entries[k].rec, &lay);
                    lays.push(lay);
                    if k + 1 < entries.len() {
                        rec(k + 1, &p2, entries, od, dims, lays, f);
                    } else {
                        f(&p2, lays);
                    }
                    lays.pop();
                }
            }
            let mut lays = vec![];
            let mut n = 0u64;
            rec(0, &p0, &entries, &od, dims, &mut lays, &mut |p, lays| {
                n += 1;
                let text = p.finish(true);
                if n % 16 == 1 {
                    ctx.watch(l.worker, || json!({"kind": "loader", "text": text}).to_string());
                }
                let case = || json!({"kind": "loader", "text": text, "alpha": aid, "tuple": tuple, "records": entries.iter().map(|e| e.tag.clone()).collect::<Vec<_>>(), "layouts": lays.iter().map(|x| x.to_vec()).collect::<Vec<_>>()});
                judge_loader(w, env, &soa, &ns, &entries, &text, &case, l);
            });
            count.fetch_add(n, std::sync::atomic::Ordering::Relaxed);
        },
    );
    count.into_inner()
}

pub fn replay_loader(ctx: &Ctx, w: &World, case: &Value, l: &mut Local) {
    let base = crate::malformed::scratch_dir();
    let _ = std::fs::remove_dir_all(&base);
    let env = Env::new(&base, 0);
    let (soa, ns) = soa_ns(w);
    let alpha: Vec<Entry> = match case["alpha"].as_u64().unwrap_or(0) {
        0 => crate::alphabet::singles(),
        1 => crate::alphabet::chain_alphabet(),
        _ => crate::alphabet::rrset_alphabet(),
    };
    let tuple: Vec<usize> = case["tuple"].as_array().map(|a| a.iter().map(|x| x.as_u64().unwrap() as usize).collect()).unwrap_or_default();
    let entries: Vec<&Entry> = tuple.iter().map(|i| &alpha[*i]).collect();
    let mut p = Printer::new(&w.origin, &w.alts, false, None);
    p.emit_record(&soa.rec, &[0; NDIMS]);
    p.emit_record(&ns.rec, &[0; NDIMS]);
    for (e, lay) in entries.iter().zip(case["layouts"].as_array().cloned().unwrap_or_default()) {
        let mut x: RecLayout = [0; NDIMS];
        for (d, v) in lay.as_array().unwrap().iter().enumerate() {
            x[d] = v.as_u64().unwrap() as u8;
        }
        if !p.check_record(&e.rec, &x) {
            eprintln!("layout not legal any more");
            return;
        }
        p.emit_record(&e.rec, &x);
    }
    let text = p.finish(true);
    eprintln!("replay zone file:\n{text}");
    let c = || case.clone();
    judge_loader(w, &env, &soa, &ns, &entries, &text, &c, l);
    let _ = ctx;
    let _ = std::fs::remove_dir_all(&base);
}

// ------------------------------------------------------------------------------------------
// loader knobs: every argument of the two store constructors that read a zone file

/// Load `zone_path` with one combination of the knobs; returns the loaded records and, when the
/// policy allows transfers, the AXFR answer.
#[allow(clippy::too_many_arguments)]
fn load_with_knobs(
    env: &Env,
    origin: &Name,
    sqlite: bool,
    zone_type: ZoneType,
    axfr: AxfrPolicy,
    root_dir: Option<&Path>,
    zone_path: &Path,
    nx: Option<hickory_server::dnssec::NxProofKind>,
) -> Result<Result<(Vec<Record>, Option<Vec<Record>>), String>, vcore::PanicInfo> {
    use hickory_server::store::sqlite::{SqliteConfig, SqliteZoneHandler};
    use hickory_server::zone_handler::ZoneHandler;
    catch(|| {
        env.rt.block_on(async {
            let transfer = matches!(axfr, AxfrPolicy::AllowAll);
            let flat = |m: &std::collections::BTreeMap<hickory_proto::rr::RrKey, Arc<hickory_proto::rr::RecordSet>>| -> Vec<Record> {
                m.values().flat_map(|rs| rs.records_without_rrsigs().cloned().collect::<Vec<_>>()).collect()
            };
            let (handler, loaded): (Arc<dyn ZoneHandler>, Vec<Record>) = if sqlite {
                let cfg: SqliteConfig = serde_json::from_value(json!({"zone_path": zone_path, "journal_path": ":memory:"})).map_err(|e| e.to_string())?;
                let h = SqliteZoneHandler::<hickory_net::runtime::TokioRuntimeProvider>::try_from_config(origin.clone(), zone_type, axfr, false, root_dir, &cfg, nx).await?;
                let loaded = flat(&*h.records().await);
                (Arc::new(h), loaded)
            } else {
                let h = FileZoneHandler::try_from_config(origin.clone(), zone_type, axfr, root_dir, &FileConfig { zone_path: zone_path.to_path_buf() }, nx)?;
                let loaded = flat(&*h.records().await);
                (Arc::new(h), loaded)
            };
            let mut catalog = Catalog::new();
            catalog.upsert(origin.clone().into(), vec![handler.clone()]);
            let axfr_recs = if transfer {
                let mut q = Message::new(0x4321, MessageType::Query, OpCode::Query);
                q.add_query(Query::new(origin.clone(), RecordType::AXFR));
                let bytes = q.to_vec().map_err(|e| e.to_string())?;
                let frames = vsim::serve(&catalog, &bytes, Protocol::Tcp).await.ok_or("AXFR request did not parse")?;
                let mut v = vec![];
                for f in frames {
                    let m = Message::from_vec(&f).map_err(|e| format!("AXFR frame undecodable: {e}"))?;
                    v.extend(m.answers.iter().cloned());
                }
                Some(v)
            } else {
                None
            };
            Ok((loaded, axfr_recs))
        })
    })
}

/// A small set of zone files x EVERY combination of the loader's knobs: store kind {file,
/// sqlite (fresh in-memory journal)} x zone type {Primary, Secondary, External} x AXFR policy
/// {Deny, AllowAll, AllowSigned} x {root_dir + relative path, no root_dir + absolute path} x
/// non-existence proof kind {none, NSEC, NSEC3}. Valid files must load to exactly their records
/// whatever the knobs; files with an error after valid records must load NOTHING (Err).
pub fn loader_knobs(ctx: &Ctx, w: &World, base: &Path, thorough: bool) -> u64 {
    use hickory_server::dnssec::NxProofKind;
    let (soa, ns) = soa_ns(w);
    let singles = crate::alphabet::singles();
    let chain = crate::alphabet::chain_alphabet();
    // (text, expected records or None = must fail, tag)
    let mut files: Vec<(String, Option<Vec<Record>>, String)> = vec![];
    let plain: RecLayout = [0; NDIMS];
    let mut add_valid = |entries: &[&Entry], lays: &[RecLayout], tag: String| {
        let mut p = Printer::new(&w.origin, &w.alts, false, None);
        p.emit_record(&soa.rec, &plain);
        p.emit_record(&ns.rec, &plain);
        for (e, l) in entries.iter().zip(lays) {
            if !p.check_record(&e.rec, l) {
                return;
            }
            p.emit_record(&e.rec, l);
        }
        let mut want = vec![soa.expect.clone(), ns.expect.clone()];
        for e in entries {
            if !want.iter().any(|x| same(x, &e.expect)) {
                want.push(e.expect.clone());
            }
        }
        files.push((p.finish(true), Some(want), tag));
    };
    for (i, e) in singles.iter().enumerate() {
        let in_zone = e.rec.class == "IN" && e.rec.owner.len() > w.origin.len() && e.rec.owner[e.rec.owner.len() - w.origin.len()..] == w.origin[..] && e.rec.rtype != "SOA" && !e.tag.contains("3072");
        if in_zone && i % (if thorough { 2 } else { 8 }) == 0 {
            let mut lay = plain;
            lay[D_OWNER] = 1;
            lay[D_PARENS] = 3;
            add_valid(&[e], &[lay], e.tag.clone());
        }
    }
    let k = crate::alphabet::CHAIN_ENVS;
    let mut inherit = plain;
    inherit[D_OWNER] = 3;
    inherit[D_TTL] = 1;
    inherit[D_CLASS] = 1;
    // a/300/IN A, MX, TXT with everything inherited
    add_valid(&[&chain[3], &chain[k + 3], &chain[2 * k + 3]], &[plain, inherit, inherit], "chain a/300/IN inherited".into());
    // files whose LAST entry is malformed: nothing may be loaded
    let good = files[0].0.clone();
    for (tag, bad) in [
        ("missing field", "x 300 IN MX 10\n"),
        ("unknown type", "x 300 IN BOGUS 1\n"),
        ("unclosed quote", "x 300 IN TXT \"abc\n"),
        ("unclosed parenthesis", "x 300 IN TXT ( abc\n"),
        ("bad address", "x 300 IN A 1.2.3\n"),
    ] {
        files.push((format!("{good}{bad}"), None, format!("error after valid records: {tag}")));
    }
    let nfiles = files.len();
    let zone_types = [ZoneType::Primary, ZoneType::Secondary, ZoneType::External];
    let policies = [AxfrPolicy::Deny, AxfrPolicy::AllowAll, AxfrPolicy::AllowSigned];
    let combos = 2 * 3 * 3 * 2 * 3;
    let n = (nfiles * combos) as u64;
    ctx.par_run_init(
        n,
        8,
        |wk| Env::new(base, wk),
        |i, l, env| {
            let (fi, c) = (i as usize / combos, i as usize % combos);
            let (sqlite, zt, ap, abs, nxk) = (c % 2 == 1, c / 2 % 3, c / 6 % 3, c / 18 % 2 == 1, c / 36 % 3);
            let (text, want, tag) = &files[fi];
            if i % 8 == 0 {
                ctx.watch(l.worker, || json!({"kind": "loader-knobs", "index": i}).to_string());
            }
            l.eval();
            let main = env.root.join("zones/main.zone");
            std::fs::write(&main, text).expect("scratch write");
            let nx = match nxk {
                0 => None,
                1 => Some(NxProofKind::Nsec),
                _ => Some(NxProofKind::Nsec3 { algorithm: Default::default(), salt: Arc::new([]), iterations: 0, opt_out: false }),
            };
            let (root_dir, zone_path): (Option<&Path>, PathBuf) = if abs { (None, main.clone()) } else { (Some(&env.root), PathBuf::from("zones/main.zone")) };
            // like the loader differential: only judged on texts the plain parser handles as
            // expected (the parser itself is judged by the other families)
            match (parse_flat(text, Some(&main), &w.horigin), want) {
                (Ok(Ok(got)), Some(wr)) if same_set(&got, &wr.iter().collect::<Vec<_>>()) => {}
                (Ok(Err(_)), None) => {}
                _ => {
                    l.outcome("loader-knobs:skipped:parser-level-difference");
                    return;
                }
            }
            let knobs = format!("store={},zone-type={:?},axfr={:?},path={},nx-proof={}", if sqlite { "sqlite" } else { "file" }, zone_types[zt], policies[ap], if abs { "absolute" } else { "root-dir+relative" }, ["none", "nsec", "nsec3"][nxk]);
            let case = || json!({"kind": "loader-knobs", "index": i, "file": tag, "knobs": knobs, "text": text});
            match (load_with_knobs(env, &w.horigin, sqlite, zone_types[zt], policies[ap], root_dir, &zone_path, nx), want) {
                (Err(p), _) => l.violation(&panic_key(&p), &format!("the store panicked while loading: {}", p.msg), case),
                (Ok(Err(_)), None) => l.outcome("loader-knobs:error-file:nothing-loaded"),
                (Ok(Ok((loaded, _))), None) => l.violation(
                    &format!("loader-knobs:partial-zone-after-error:store={}", if sqlite { "sqlite" } else { "file" }),
                    &format!("a zone file with an error was loaded: [{}]", show(&loaded)),
                    case,
                ),
                (Ok(Err(e)), Some(_)) => {
                    // name only the knobs that matter: reset each to its default while the load still fails
                    let mut d = [c % 2, c / 2 % 3, c / 6 % 3, c / 18 % 2, c / 36 % 3];
                    for k in 0..d.len() {
                        if d[k] == 0 {
                            continue;
                        }
                        let mut t = d;
                        t[k] = 0;
                        let nx2 = match t[4] {
                            0 => None,
                            1 => Some(NxProofKind::Nsec),
                            _ => Some(NxProofKind::Nsec3 { algorithm: Default::default(), salt: Arc::new([]), iterations: 0, opt_out: false }),
                        };
                        let (rd, zp): (Option<&Path>, PathBuf) = if t[3] == 1 { (None, main.clone()) } else { (Some(&env.root), PathBuf::from("zones/main.zone")) };
                        if matches!(load_with_knobs(env, &w.horigin, t[0] == 1, zone_types[t[1]], policies[t[2]], rd, &zp, nx2), Ok(Err(_))) {
                            d = t;
                        }
                    }
                    let mut parts = vec![];
                    if d[0] == 1 {
                        parts.push("store=sqlite".to_string());
                    }
                    if d[1] != 0 {
                        parts.push(format!("zone-type={:?}", zone_types[d[1]]));
                    }
                    if d[2] != 0 {
                        parts.push(format!("axfr={:?}", policies[d[2]]));
                    }
                    if d[3] == 1 {
                        parts.push("path=absolute".to_string());
                    }
                    if d[4] != 0 {
                        parts.push(format!("nx-proof={}", ["none", "nsec", "nsec3"][d[4]]));
                    }
                    l.violation(&format!("loader-knobs:rejected:{}", if parts.is_empty() { "store=file,path=root-dir+relative".to_string() } else { parts.join(",") }), &format!("valid zone file refused: {e}"), case)
                }
                (Ok(Ok((loaded, axfr))), Some(want)) => {
                    let wv: Vec<&Record> = want.iter().collect();
                    // the trait-object lookup returns the SOA like any other record
                    if !same_set(&loaded, &wv) {
                        l.violation(&format!("loader-knobs:records-differ:{knobs}"), &format!("loaded [{}]", show(&loaded)), case);
                        return;
                    }
                    if let Some(ax) = axfr {
                        let mut wa = wv.clone();
                        wa.push(&want[0]);
                        if !same_set(&ax, &wa) {
                            l.violation(&format!("loader-knobs:axfr-differs:{knobs}"), &format!("AXFR [{}]", show(&ax)), case);
                            return;
                        }
                    }
                    l.outcome("loader-knobs:ok");
                    l.nontrivial(fnv64(format!("{fi}:{c}").as_bytes()));
                }
            }
        },
    );
    n
}

// ------------------------------------------------------------------------------------------
// $INCLUDE in the valid direction

pub const IDIMS: [(&str, &[&str]); 10] = [
    ("split", &["0-1", "0-2", "0-3", "0-4", "1-2", "1-3", "1-4", "2-3", "2-4", "3-4"]),
    // the optional `$INCLUDE <file> <domain-name>` argument is explicitly unsupported by hickory
    // ("Domain name for $INCLUDE is not supported") and not named by the statement: it is not
    // part of the judged space, only counted (value 3 of this choice, see `include_origin_argument_observation`)
    ("included-origin", &["inherited", "own-$ORIGIN-child", "own-$ORIGIN-unrelated"]),
    ("included-names", &["abs", "rel"]),
    ("parent-names", &["abs", "rel"]),
    ("included-final-newline", &["present", "absent"]),
    ("parent-final-newline", &["present", "absent"]),
    ("entry-style", &["plain", "comment", "tabs"]),
    ("eol", &["lf", "crlf"]),
    ("nested", &["no", "yes"]),
    ("path", &["relative", "absolute"]),
];

struct IncludeFiles {
    main: String,
    files: Vec<(String, String)>,
}

fn include_records(w: &World) -> Vec<Entry> {
    let shapes = rdata_shapes();
    let pick = |t: &str| shapes.iter().find(|x| x.1 == t).unwrap();
    let o = |p: &[&str]| {
        let mut v = labels(p);
        v.extend(w.origin.clone());
        v
    };
    vec![
        entry(&(o(&["a"]), 300, "IN"), pick("A 192.0.2.1")),
        entry(&(o(&["b", "sub"]), 86400, "IN"), pick("MX #0")),
        entry(&(o(&["c"]), 300, "IN"), pick("TXT #0")),
        entry(&(o(&["d", "sub"]), 60, "IN"), pick("NS #0")),
    ]
}

/// Print the parent and the included file(s) of one case. `prefix`: records printed plainly at
/// the top of the parent (SOA/NS for the loader variant).
fn include_files(w: &World, recs: &[Entry], prefix: &[&Rec], d: &[u64], dir: &Path) -> IncludeFiles {
    const SPLITS: [(usize, usize); 10] = [(0, 1), (0, 2), (0, 3), (0, 4), (1, 2), (1, 3), (1, 4), (2, 3), (2, 4), (3, 4)];
    let (i, j) = SPLITS[d[0] as usize];
    let crlf = d[7] == 1;
    let nl = if crlf { "\r\n" } else { "\n" };
    let lay_for = |rel: bool| {
        let mut lay: RecLayout = [0; NDIMS];
        if rel {
            lay[D_OWNER] = 1;
            lay[D_RDNAMES] = 1;
        }
        lay
    };
    let emit = |p: &mut Printer<'_>, r: &Rec, rel: bool, origin_dim: u8| {
        // relative where possible, absolute otherwise
        let mut lay = lay_for(rel);
        lay[D_ORIGIN] = origin_dim;
        if !p.check_record(r, &lay) {
            lay[D_RDNAMES] = 0;
            if !p.check_record(r, &lay) {
                lay[D_OWNER] = 0;
                lay[D_RDNAMES] = if rel { 1 } else { 0 };
                if !p.check_record(r, &lay) {
                    lay[D_RDNAMES] = 0;
                }
            }
        }
        assert!(p.check_record(r, &lay), "plain layout must be legal");
        p.emit_record(r, &lay);
    };
    let path_of = |name: &str| if d[9] == 1 { dir.join(name).display().to_string() } else { name.to_string() };
    let entry_line = |name: &str, arg: Option<&Labels>| {
        let mut esc = false;
        let sep = if d[6] == 2 { "\t" } else { " " };
        let mut s = format!("$INCLUDE{sep}{}", path_of(name));
        if let Some(a) = arg {
            s.push_str(sep);
            s.push_str(&vref::masterfile::name_abs(a, &mut esc));
        }
        match d[6] {
            1 => s.push_str(" ; the rest of the line is a comment ( \" $ORIGIN x."),
            2 => s.push_str(" \t"),
            _ => {}
        }
        s.push_str(nl);
        s
    };
    // parent, part 1
    let mut mp = Printer::new(&w.origin, &w.alts, crlf, None);
    for r in prefix {
        mp.emit_record(r, &[0; NDIMS]);
    }
    for r in &recs[..i] {
        emit(&mut mp, &r.rec, d[3] == 1, 0);
    }
    // included file: origin in force at its start
    let (inc_start_origin, arg): (Labels, Option<&Labels>) = match d[1] {
        3 => (w.alts[0].clone(), Some(&w.alts[0])),
        _ => (w.origin.clone(), None),
    };
    mp.text.push_str(&entry_line("inc.zone", arg));
    let mut files = vec![];
    {
        let inc_recs = &recs[i..j];
        // nested: the last record of the included file moves to a second file
        let (first, second) = if d[8] == 1 && inc_recs.len() >= 2 { inc_recs.split_at(inc_recs.len() - 1) } else { (inc_recs, &inc_recs[0..0]) };
        let mut ip = Printer::new(&inc_start_origin, &w.alts, crlf, None);
        let mut origin_dim = match d[1] {
            1 => 2u8,
            2 => 3,
            _ => 0,
        };
        for r in first {
            emit(&mut ip, &r.rec, d[2] == 1, origin_dim);
            origin_dim = 0;
        }
        if !second.is_empty() {
            ip.text.push_str(&entry_line("inc2.zone", None));
            // the nested file starts with the origin in force at that point of the including file
            let mut np = Printer::new(&ip.origin, &w.alts, crlf, None);
            for r in second {
                emit(&mut np, &r.rec, d[2] == 1, 0);
            }
            files.push(("inc2.zone".to_string(), np.finish(d[4] == 0)));
        }
        files.push(("inc.zone".to_string(), ip.finish(d[4] == 0)));
    }
    // parent, part 2: the parent's origin is unchanged by whatever the included file did
    for r in &recs[j..] {
        emit(&mut mp, &r.rec, d[3] == 1, 0);
    }
    IncludeFiles { main: mp.finish(d[5] == 0), files }
}

fn include_case_json(d: &[u64], f: &IncludeFiles) -> Value {
    let mut m = serde_json::Map::new();
    for (k, (name, vals)) in IDIMS.iter().enumerate() {
        m.insert(name.to_string(), json!(vals[d[k] as usize]));
    }
    let mut files = serde_json::Map::new();
    for (n, b) in &f.files {
        files.insert(n.clone(), json!(b));
    }
    json!({"kind": "include-valid", "choices": m, "digits": d, "text": f.main, "files": files})
}

/// One include case through the parser (and, with `through_loader`, the file store).
/// Returns Some((clause, what)) on violation.
fn run_include(w: &World, env: &Env, recs: &[Entry], d: &[u64], through_loader: bool, l: &mut Local) -> Option<(String, String, IncludeFiles)> {
    let dir = env.root.join("zones");
    let (soa, ns) = soa_ns(w);
    let prefix: Vec<&Rec> = if through_loader { vec![&soa.rec, &ns.rec] } else { vec![] };
    let f = include_files(w, recs, &prefix, d, &dir);
    let main = dir.join("main.zone");
    std::fs::write(&main, &f.main).expect("scratch write");
    for (n, b) in &f.files {
        std::fs::write(dir.join(n), b).expect("scratch write");
    }
    let mut want: Vec<&Record> = if through_loader { vec![&soa.expect, &ns.expect] } else { vec![] };
    want.extend(recs.iter().map(|e| &e.expect));
    l.eval();
    if through_loader {
        match parse_flat(&f.main, Some(&main), &w.horigin) {
            Ok(Ok(got)) if same_set(&got, &want) => {}
            _ => {
                l.outcome("include-loader:skipped:parser-level-difference");
                return None;
            }
        }
        return match load_and_transfer(env, &w.horigin) {
            Err(p) => Some((panic_key(&p), p.msg, f)),
            Ok(Err(e)) => Some(("include-loader:rejected".into(), format!("the file store refused the zone: {e}"), f)),
            Ok(Ok((loaded, axfr))) => {
                let mut want_axfr = want.clone();
                want_axfr.push(&soa.expect);
                if !same_set(&loaded, &want) {
                    Some(("include-loader:records-differ".into(), format!("loaded [{}]", show(&loaded)), f))
                } else if !same_set(&axfr, &want_axfr) {
                    Some(("include-loader:axfr-differs".into(), format!("AXFR [{}]", show(&axfr)), f))
                } else {
                    l.outcome("include-loader:ok");
                    None
                }
            }
        };
    }
    match parse_flat(&f.main, Some(&main), &w.horigin) {
        Err(p) => Some((panic_key(&p), p.msg, f)),
        Ok(Err(e)) => Some(("include:rejected".into(), format!("valid parent/included files rejected: {e}"), f)),
        Ok(Ok(got)) => {
            if same_set(&got, &want) {
                l.outcome("include:ok");
                l.nontrivial(fnv64(format!("{d:?}").as_bytes()));
                None
            } else {
                Some(("include:records-differ".into(), format!("loaded [{}]", show(&got)), f))
            }
        }
    }
}

/// Reduce a failing include case (fixed order: every choice to its smallest failing value) and key it.
fn include_key(w: &World, env: &Env, recs: &[Entry], d: &[u64], clause: &str, through_loader: bool) -> (String, Vec<u64>) {
    let mut cur = d.to_vec();
    let mut scratch = Local::default();
    loop {
        let mut changed = false;
        for k in 0..cur.len() {
            for v in 0..cur[k] {
                let mut t = cur.clone();
                t[k] = v;
                if matches!(run_include(w, env, recs, &t, through_loader, &mut scratch), Some((c, _, _)) if c == clause) {
                    cur = t;
                    changed = true;
                    break;
                }
            }
        }
        if !changed {
            break;
        }
    }
    let feats: Vec<String> = IDIMS.iter().enumerate().filter(|(k, _)| *k != 0 && cur[*k] != 0).map(|(k, (n, vals))| format!("{n}={}", vals[cur[k] as usize])).collect();
    (format!("{clause}:{}", feats.join(",")), cur)
}

pub fn include_family(ctx: &Ctx, w: &World, base: &Path) -> (u64, u64) {
    let recs = include_records(w);
    let radices: Vec<u64> = IDIMS.iter().map(|d| d.1.len() as u64).collect();
    let od = Odometer::new(&radices);
    let n = od.space();
    ctx.par_run_init(
        n,
        64,
        |wk| Env::new(base, wk),
        |i, l, env| {
            let d = od.get(i);
            if i % 64 == 0 {
                ctx.watch(l.worker, || json!({"kind": "include-valid", "digits": d}).to_string());
                // the cache lives for one chunk, so the keys do not depend on the work distribution
                env.cache.clear();
            }
            if let Some((clause, what, f)) = run_include(w, env, &recs, &d, false, l) {
                if clause.starts_with("panic:") {
                    l.violation(&clause, &what, || include_case_json(&d, &f));
                    return;
                }
                // a case that contains all choices of an already reduced witness of the same clause
                // is attributed to that witness' key (those choices alone make the files fail)
                if let Some((_, _, key)) = env.cache.iter().find(|(c, set, _)| *c == clause && set.iter().all(|(k, v)| d[*k] == *v)) {
                    l.violation(key, &what, || Value::Null);
                    return;
                }
                let (key, min) = include_key(w, env, &recs, &d, &clause, false);
                env.cache.push((clause.clone(), min.iter().enumerate().filter(|(k, v)| *k != 0 && **v != 0).map(|(k, v)| (k, *v)).collect(), key.clone()));
                if !l.has_violation_key(&key) {
                    let fm = include_files(w, &recs, &[], &min, &env.root.join("zones"));
                    let mut j = include_case_json(&min, &fm);
                    j["found_in"] = include_case_json(&d, &f);
                    l.violation(&key, &what, || j);
                } else {
                    l.violation(&key, &what, || Value::Null);
                }
            }
        },
    );
    // through the file store: split x included-origin x nested x path, everything else plain
    let mut lcases: Vec<Vec<u64>> = vec![];
    for s in 0..10u64 {
        for o in 0..3u64 {
            for nested in 0..2u64 {
                for path in 0..2u64 {
                    for names in 0..2u64 {
                        lcases.push(vec![s, o, names, names, 0, 0, 0, 0, nested, path]);
                    }
                }
            }
        }
    }
    ctx.par_run_init(
        lcases.len() as u64,
        4,
        |wk| Env::new(base, wk),
        |i, l, env| {
            let d = &lcases[i as usize];
            if let Some((clause, what, f)) = run_include(w, env, &recs, d, true, l) {
                if clause.starts_with("panic:") {
                    l.violation(&clause, &what, || include_case_json(d, &f));
                    return;
                }
                let (key, _) = include_key(w, env, &recs, d, &clause, true);
                l.violation(&key, &what, || include_case_json(d, &f));
            }
        },
    );
    (n, lcases.len() as u64)
}

/// Not judged: the `$INCLUDE <file-name> <domain-name>` form (RFC 1035 5.1) on every split x
/// relative/absolute names; counted as `obs:include-origin-argument-unsupported` when the parser
/// refuses it with its documented message, `...-accepted:exact` / `...:other` otherwise.
pub fn include_origin_argument_observation(ctx: &Ctx, w: &World, base: &Path) -> u64 {
    let recs = include_records(w);
    let env = Env::new(base, 999);
    let dir = env.root.join("zones");
    let mut n = 0;
    ctx.with_local(|l| {
        for split in 0..10u64 {
            for names in 0..2u64 {
                let d = vec![split, 3, names, names, 0, 0, 0, 0, 0, 0];
                let f = include_files(w, &recs, &[], &d, &dir);
                let main = dir.join("main.zone");
                std::fs::write(&main, &f.main).expect("scratch write");
                for (name, body) in &f.files {
                    std::fs::write(dir.join(name), body).expect("scratch write");
                }
                l.eval();
                n += 1;
                let want: Vec<&Record> = recs.iter().map(|e| &e.expect).collect();
                match parse_flat(&f.main, Some(&main), &w.horigin) {
                    Err(p) => l.violation(&panic_key(&p), &p.msg, || json!({"kind": "text", "family": "include-origin-argument", "text": f.main})),
                    Ok(Err(e)) if e.contains("Domain name for $INCLUDE is not supported") => l.outcome("obs:include-origin-argument-unsupported"),
                    Ok(Err(_)) => l.outcome("obs:include-origin-argument:other-error"),
                    Ok(Ok(got)) if same_set(&got, &want) => l.outcome("obs:include-origin-argument-accepted:exact"),
                    Ok(Ok(_)) => l.outcome("obs:include-origin-argument-accepted:different-records"),
                }
            }
        }
    });
    n
}

pub fn replay_include(ctx: &Ctx, w: &World, case: &Value, l: &mut Local) {
    let base = crate::malformed::scratch_dir();
    let _ = std::fs::remove_dir_all(&base);
    let env = Env::new(&base, 0);
    let d: Vec<u64> = case["digits"].as_array().map(|a| a.iter().map(|x| x.as_u64().unwrap()).collect()).unwrap_or_default();
    let recs = include_records(w);
    if d.len() == IDIMS.len() {
        for through_loader in [false, true] {
            if let Some((clause, what, f)) = run_include(w, &env, &recs, &d, through_loader, l) {
                eprintln!("parent:\n{}\nfiles: {:?}", f.main, f.files);
                let key = if clause.starts_with("panic:") { clause } else { include_key(w, &env, &recs, &d, &clause, through_loader).0 };
                l.violation(&key, &what, || case.clone());
            }
        }
    }
    let _ = ctx;
    let _ = std::fs::remove_dir_all(&base);
}
