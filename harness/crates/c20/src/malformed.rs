//! Malformed direction: `parse()` returns (Ok or Err) on every text, never panics, and finishes.
//!
//! (1) all strings of length <= L over the 15-character alphabet, (2) every single-character
//! deletion / insertion / substitution of ~60 valid seed files (thorough: all double edits of the
//! shortest seeds), (3) growth families n = 2^0..2^16 incl. `$INCLUDE` recursion in a scratch dir.

use std::path::{Path, PathBuf};
use std::sync::Mutex;
use std::time::Instant;

use hickory_proto::serialize::txt::{LexerError, ParseError, Parser};
use serde_json::{json, Value};
use vcore::{catch, fnv64, Ctx, Local};
use vref::masterfile::{print_file, Rec, RecLayout, DIMS, NDIMS};

use crate::alphabet::Entry;
use crate::panic_key;
use crate::valid::World;

pub const ALPHABET: &[u8; 15] = b" \t\n\r()\x3b\"\\$@.a0*";

pub fn err_class(e: &ParseError) -> &'static str {
    match e {
        ParseError::CharToInt(_) => "err:CharToInt",
        ParseError::Message(_) => "err:Message",
        ParseError::MissingToken(_) => "err:MissingToken",
        ParseError::Msg(_) => "err:Msg",
        ParseError::ParseTime(_) => "err:ParseTime",
        ParseError::UnexpectedToken(_) => "err:UnexpectedToken",
        ParseError::AddrParse(_) => "err:AddrParse",
        ParseError::DataEncoding(_) => "err:DataEncoding",
        ParseError::Io(_) => "err:Io",
        ParseError::Lexer(le) => match le {
            LexerError::EOF => "err:Lexer:EOF",
            LexerError::IllegalCharacter(_) => "err:Lexer:IllegalCharacter",
            LexerError::IllegalState(_) => "err:Lexer:IllegalState",
            LexerError::Message(_) => "err:Lexer:Message",
            LexerError::UnclosedList => "err:Lexer:UnclosedList",
            LexerError::UnclosedQuotedString => "err:Lexer:UnclosedQuotedString",
            LexerError::UnrecognizedChar(_) => "err:Lexer:UnrecognizedChar",
            LexerError::UnrecognizedDollar(_) => "err:Lexer:UnrecognizedDollar",
            LexerError::UnrecognizedOctet(_) => "err:Lexer:UnrecognizedOctet",
            _ => "err:Lexer:other",
        },
        ParseError::ParseInt(_) => "err:ParseInt",
        ParseError::Proto(_) => "err:Proto",
        ParseError::UnknownRecordType(_) => "err:UnknownRecordType",
        ParseError::UnsupportedRecordType(_) => "err:UnsupportedRecordType",
        _ => "err:other",
    }
}

/// One text through the real parser. `with_origin=false` runs `Parser::new(text, path, None)`.
pub fn run_text(w: &World, family: &str, text: &str, path: Option<&Path>, with_origin: bool, l: &mut Local) -> &'static str {
    l.eval();
    let origin = if with_origin { Some(w.horigin.clone()) } else { None };
    let res = catch(|| Parser::new(text.to_string(), path.map(|p| p.to_path_buf()), origin).parse());
    match res {
        Err(p) => {
            l.violation(&panic_key(&p), &format!("parser panicked on malformed/large text ({family}): {}", p.msg), || {
                let shown: String = if text.len() > 300 { format!("{}...[{} bytes]", &text[..text.char_indices().nth(200).map(|x| x.0).unwrap_or(0)], text.len()) } else { text.to_string() };
                json!({"kind": "text", "family": family, "text": if text.len() <= 4000 { json!(text) } else { Value::Null }, "text_shown": shown, "len": text.len(), "with_origin": with_origin})
            });
            "panic"
        }
        Ok(Ok((_o, map))) => {
            if map.is_empty() {
                "ok:empty"
            } else {
                "ok:records"
            }
        }
        Ok(Err(e)) => err_class(&e),
    }
}

// ------------------------------------------------------------------------------------------
// observations outside the statement (never judged, only logged as outcome classes)

pub fn observations(w: &World, l: &mut Local) -> Value {
    use hickory_proto::rr::RData;
    let mut out = serde_json::Map::new();
    let mut txt_of = |name: &str, text: &str| {
        let r = catch(|| Parser::new(text.to_string(), None, Some(w.horigin.clone())).parse());
        let shown = match r {
            Err(p) => format!("panic: {}", p.msg),
            Ok(Err(e)) => format!("error: {e}"),
            Ok(Ok((o, m))) => {
                let mut v = vec![format!("origin={o}")];
                for rs in m.values() {
                    for r in rs.records_without_rrsigs() {
                        match &r.data {
                            RData::TXT(t) => v.push(format!("{} TXT {:?}", r.name, t.txt_data.iter().map(|s| String::from_utf8_lossy(s).to_string()).collect::<Vec<_>>())),
                            d => v.push(format!("{} {:?}", r.name, d)),
                        }
                    }
                }
                v.join("; ")
            }
        };
        l.outcome(&format!("obs:{name}"));
        out.insert(name.to_string(), json!({"text": text, "loaded": shown}));
    };
    // escapes in an UNQUOTED string are kept verbatim (RFC 1035 would unescape them)
    txt_of("unquoted-string-with-escape", "a 1 IN TXT a\\\"b\\\\c\n");
    // \DDD in a quoted string is not the octet DDD
    txt_of("quoted-string-with-DDD", "a 1 IN TXT \"x\\065y\"\n");
    // \\DDD in a NAME is read as OCTAL (RFC 1035: decimal)
    txt_of("name-with-DDD", "a\\065b 1 IN A 192.0.2.1\n");
    // a quoted string may span lines
    txt_of("quoted-string-across-lines", "a 1 IN TXT \"x\ny\"\n");
    // a relative $ORIGIN argument is not completed with the current origin
    txt_of("relative-origin-directive", "$ORIGIN sub\na 1 IN A 192.0.2.1\n");
    // parentheses before the RDATA
    txt_of("parentheses-before-type", "a ( 1 IN ) A 192.0.2.1\n");
    // TTL with units (BIND extension)
    txt_of("ttl-with-units", "a 1h30m IN A 192.0.2.1\n");
    // odd number of hex digits in a DS digest
    txt_of("ds-odd-hex", "a 1 IN DS 1 8 2 abc\n");
    Value::Object(out)
}

// ------------------------------------------------------------------------------------------
// (1) short strings

pub fn short_strings(ctx: &Ctx, w: &World, max_len: usize) -> u64 {
    let mut total = 0u64;
    for len in 0..=max_len {
        let n = vcore::enumerate::pow(15, len as u32);
        total += n;
        ctx.par_run(n, 8192, |i, l| {
            if i % 8192 == 0 {
                ctx.watch(l.worker, || json!({"kind": "short-range", "len": len, "lo": i, "hi": (i + 8192).min(n)}).to_string());
            }
            let mut buf = Vec::with_capacity(len);
            vcore::enumerate::string_at(ALPHABET, len, i, &mut buf);
            let text = std::str::from_utf8(&buf).expect("ascii");
            let c = run_text(w, "short", text, None, true, l);
            l.outcome(&format!("short:{c}"));
            let c2 = run_text(w, "short-no-origin", text, None, false, l);
            if c2 == "panic" || c2.starts_with("ok") {
                l.outcome(&format!("short-no-origin:{c2}"));
            }
            if c.starts_with("ok") && text.bytes().any(|b| !b" \t\n\r".contains(&b)) {
                l.nontrivial(fnv64(&buf));
            }
            if i == n / 2 || i + 1 == n {
                l.sample(json!({"kind": "short", "text": text, "outcome": c}));
            }
        });
    }
    total
}

pub fn replay_short_range(w: &World, case: &Value, l: &mut Local) {
    let len = case["len"].as_u64().unwrap() as usize;
    let mut buf = vec![];
    for i in case["lo"].as_u64().unwrap()..case["hi"].as_u64().unwrap() {
        vcore::enumerate::string_at(ALPHABET, len, i, &mut buf);
        let text = std::str::from_utf8(&buf).unwrap().to_string();
        eprintln!("short {i}: {text:?}");
        run_text(w, "short", &text, None, true, l);
        run_text(w, "short-no-origin", &text, None, false, l);
    }
}

// ------------------------------------------------------------------------------------------
// (2) seeds and edits

pub struct Seed {
    pub text: String,
    pub what: String,
}

fn lcg(x: &mut u64) -> u64 {
    *x = x.wrapping_mul(6364136223846793005).wrapping_add(1442695040888963407);
    *x >> 33
}

/// ~60 valid files: one per RDATA shape that prints short (layout chosen by a fixed pseudo-random
/// walk so that every layout dimension occurs), multi-record files, two hand-written files.
pub fn seeds(w: &World, singles: &[Entry], sub: &[Entry]) -> Vec<Seed> {
    let mut out: Vec<Seed> = vec![];
    let mut taken_types: std::collections::BTreeMap<&str, usize> = Default::default();
    for (i, e) in singles.iter().enumerate() {
        if *taken_types.get(e.rec.rtype).unwrap_or(&0) >= 3 || out.len() >= 50 {
            continue;
        }
        let mut x = 0x9e3779b97f4a7c15u64 ^ (i as u64) << 7;
        for _ in 0..400 {
            let mut lay: RecLayout = [0; NDIMS];
            for d in 0..NDIMS {
                lay[d] = (lcg(&mut x) % DIMS[d].1.len() as u64) as u8;
            }
            let g = [(lcg(&mut x) % 2) as u8, (lcg(&mut x) % 2) as u8, (lcg(&mut x) % 3) as u8];
            let recs: Vec<&Rec> = vec![&e.rec];
            if let Some(p) = print_file(&w.origin, &w.alts, &recs, &g, &[lay]) {
                if p.text.len() <= 150 {
                    *taken_types.entry(e.rec.rtype).or_insert(0) += 1;
                    out.push(Seed { text: p.text, what: format!("{} layout {:?}/{:?}", e.tag, g, lay) });
                    break;
                }
            }
        }
    }
    // multi-record files
    let mut x = 7u64;
    let mut tries = 0;
    let n_single = out.len();
    while out.len() < n_single + 10 && tries < 200_000 {
        tries += 1;
        let k = 2 + (lcg(&mut x) % 2) as usize;
        let idx: Vec<usize> = (0..k).map(|_| (lcg(&mut x) % sub.len() as u64) as usize).collect();
        let recs: Vec<&Rec> = idx.iter().map(|i| &sub[*i].rec).collect();
        let lays: Vec<RecLayout> = (0..k)
            .map(|_| {
                let mut lay: RecLayout = [0; NDIMS];
                for d in 0..NDIMS {
                    lay[d] = (lcg(&mut x) % DIMS[d].1.len() as u64) as u8;
                }
                lay
            })
            .collect();
        let g = [(lcg(&mut x) % 2) as u8, (lcg(&mut x) % 2) as u8, (lcg(&mut x) % 3) as u8];
        if let Some(p) = print_file(&w.origin, &w.alts, &recs, &g, &lays) {
            if p.text.len() <= 220 && lays.iter().any(|l| l[2] == 3 || l[3] != 0 || l[4] != 0) {
                out.push(Seed { text: p.text, what: format!("{k} records {idx:?}") });
            }
        }
    }
    out.push(Seed {
        text: "@   IN  SOA     VENERA      Action\\.domains (\n                20     ; SERIAL\n                7200   ; REFRESH\n                600    ; RETRY\n                3600000; EXPIRE\n                60)    ; MINIMUM\n\n        NS      A.ISI.EDU.\n        MX      10      VENERA\nVENERA  A       10.1.0.52\n".replace("@   IN", "@ 60 IN"),
        what: "RFC 1035 section 5.3 example (abridged, TTL added)".into(),
    });
    out.push(Seed { text: "$ORIGIN ex.test.\n$TTL 1h\n$INCLUDE inc.zone ; c\nwww A 192.0.2.1\n".into(), what: "$INCLUDE / $TTL with unit".into() });
    out.push(Seed { text: "s 1 IN SVCB 1 . port=1 alpn=h2 key65400=x\nt 1 IN HTTPS 0 s\n".into(), what: "SVCB/HTTPS with one-character parameter values".into() });
    out
}

#[derive(Clone, Copy, Debug)]
pub enum Edit {
    Del(usize),
    Ins(usize, u8),
    Sub(usize, u8),
}

pub fn edit_count(len: usize) -> u64 {
    (len + (len + 1) * 15 + len * 15) as u64
}

pub fn edit_at(len: usize, mut i: u64) -> Edit {
    if i < len as u64 {
        return Edit::Del(i as usize);
    }
    i -= len as u64;
    if i < (len as u64 + 1) * 15 {
        return Edit::Ins((i / 15) as usize, ALPHABET[(i % 15) as usize]);
    }
    i -= (len as u64 + 1) * 15;
    Edit::Sub((i / 15) as usize, ALPHABET[(i % 15) as usize])
}

pub fn apply(text: &[u8], e: Edit) -> Vec<u8> {
    let mut v = text.to_vec();
    match e {
        Edit::Del(p) => {
            v.remove(p);
        }
        Edit::Ins(p, c) => v.insert(p, c),
        Edit::Sub(p, c) => v[p] = c,
    }
    v
}

pub fn edits(ctx: &Ctx, w: &World, seeds: &[Seed], scratch: &Path, double_on: usize, double_also: &[Seed]) -> (u64, u64) {
    // offsets
    let mut offs = vec![0u64];
    for s in seeds {
        offs.push(offs.last().unwrap() + edit_count(s.text.len()));
    }
    let total = *offs.last().unwrap();
    let main = scratch.join("main.zone");
    ctx.par_run(total, 256, |i, l| {
        let si = offs.partition_point(|o| *o <= i) - 1;
        let s = &seeds[si];
        let e = edit_at(s.text.len(), i - offs[si]);
        let t = apply(s.text.as_bytes(), e);
        let text = String::from_utf8(t).expect("ascii seeds");
        let path = if s.text.contains("$INCLUDE") { Some(main.as_path()) } else { None };
        let c = run_text(w, "edit", &text, path, true, l);
        l.outcome(&format!("edit:{c}"));
        if c.starts_with("err") {
            l.nontrivial(fnv64(text.as_bytes()));
        }
        if i % 50_021 == 0 {
            l.sample(json!({"kind": "edit", "seed": s.what, "edit": format!("{e:?}"), "outcome": c}));
        }
    });
    // double edits of the shortest seeds (second edit at or after the first position)
    let mut order: Vec<usize> = (0..seeds.len()).filter(|i| !seeds[*i].text.contains("$INCLUDE")).collect();
    order.sort_by_key(|i| (seeds[*i].text.len(), *i));
    order.truncate(double_on);
    let mut doubles = 0u64;
    let dseeds: Vec<&Seed> = order.iter().map(|i| &seeds[*i]).chain(double_also.iter()).collect();
    for s in dseeds {
        let n1 = edit_count(s.text.len());
        let cnt = Mutex::new(0u64);
        ctx.par_run(n1, 4, |i, l| {
            let e1 = edit_at(s.text.len(), i);
            let t1 = apply(s.text.as_bytes(), e1);
            let p1 = match e1 {
                Edit::Del(p) | Edit::Ins(p, _) | Edit::Sub(p, _) => p,
            };
            let mut c = 0u64;
            for j in 0..edit_count(t1.len()) {
                let e2 = edit_at(t1.len(), j);
                let p2 = match e2 {
                    Edit::Del(p) | Edit::Ins(p, _) | Edit::Sub(p, _) => p,
                };
                if p2 < p1 {
                    continue;
                }
                let t2 = apply(&t1, e2);
                let text = String::from_utf8(t2).expect("ascii");
                let cl = run_text(w, "edit2", &text, None, true, l);
                l.outcome(&format!("edit2:{cl}"));
                c += 1;
            }
            *cnt.lock().unwrap() += c;
        });
        doubles += *cnt.lock().unwrap();
    }
    (total, doubles)
}

// ------------------------------------------------------------------------------------------
// (3) growth families

pub struct Family {
    pub name: &'static str,
    pub max_pow: u32,
    pub build: fn(usize) -> String,
}

fn rec_line() -> &'static str {
    "a 1 IN A 192.0.2.1\n"
}

pub fn families(thorough: bool) -> Vec<Family> {
    // RecordSet::insert scans the RRset for duplicates: quadratic in the RRset size (observation)
    let same_rrset_max = if thorough { 15 } else { 14 };
    vec![
        Family { name: "comment-eol", max_pow: 16, build: |n| format!("a 1 IN A 192.0.2.1 ;{}\n", "c".repeat(n)) },
        Family { name: "comment-own-line", max_pow: 16, build: |n| format!(";{}\n{}", "c".repeat(n), rec_line()) },
        Family { name: "comment-in-parens", max_pow: 16, build: |n| format!("a 1 IN TXT ( ;{}\n x )\n", "c".repeat(n)) },
        Family { name: "token-owner", max_pow: 16, build: |n| format!("{} 1 IN A 192.0.2.1\n", "a".repeat(n)) },
        Family { name: "token-rdata", max_pow: 16, build: |n| format!("a 1 IN TXT {}\n", "x".repeat(n)) },
        Family { name: "token-base64", max_pow: 16, build: |n| format!("a 1 IN OPENPGPKEY {}\n", "AAAA".repeat(n.div_ceil(4))) },
        Family { name: "quoted-string", max_pow: 16, build: |n| format!("a 1 IN TXT \"{}\"\n", "x".repeat(n)) },
        Family { name: "quoted-escapes", max_pow: 16, build: |n| format!("a 1 IN TXT \"{}\"\n", "\\\\".repeat(n)) },
        Family { name: "paren-group-tokens", max_pow: 16, build: |n| format!("a 1 IN TXT ( {})\n", "x ".repeat(n)) },
        Family { name: "paren-group-lines", max_pow: 16, build: |n| format!("a 1 IN TXT (\n{})\n", "x\n".repeat(n)) },
        Family { name: "paren-group-quoted", max_pow: 16, build: |n| format!("a 1 IN TXT ( {})\n", "\"x y\" ".repeat(n)) },
        Family { name: "paren-group-comment-lines", max_pow: 16, build: |n| format!("a 1 IN TXT (\n{})\n", "x ; c\n".repeat(n)) },
        Family { name: "many-paren-records", max_pow: 16, build: |n| "a 1 IN TXT (\n x\n y )\n".repeat(n) },
        Family { name: "paren-nesting", max_pow: 16, build: |n| format!("a 1 IN TXT {}{}\n", "(".repeat(n), ")".repeat(n)) },
        Family { name: "paren-unclosed", max_pow: 16, build: |n| format!("a 1 IN TXT {}\n", "( x ".repeat(n)) },
        Family { name: "whitespace-run", max_pow: 16, build: |n| format!("a 1 IN A{}192.0.2.1\n", " ".repeat(n)) },
        Family { name: "blank-lines", max_pow: 16, build: |n| format!("{}{}", "\n".repeat(n), rec_line()) },
        Family { name: "blank-ws-lines", max_pow: 16, build: |n| format!("{}{}", " \t\n".repeat(n), rec_line()) },
        Family { name: "leading-blank-run", max_pow: 16, build: |n| format!("{}{} A 192.0.2.2\n", rec_line(), " ".repeat(n)) },
        Family { name: "tokens-per-line", max_pow: 16, build: |n| format!("a 1 IN TXT{}\n", " x".repeat(n)) },
        Family { name: "dollar-word", max_pow: 16, build: |n| format!("${}\n", "A".repeat(n)) },
        Family { name: "at-run", max_pow: 16, build: |n| format!("{}\n", "@".repeat(n)) },
        Family { name: "labels", max_pow: 16, build: |n| format!("{} 1 IN A 192.0.2.1\n", "a.".repeat(n)) },
        Family { name: "ttl-digits", max_pow: 16, build: |n| format!("a {} IN A 192.0.2.1\n", "1".repeat(n)) },
        Family {
            name: "records-distinct-owners",
            max_pow: 16,
            build: |n| {
                let mut s = String::with_capacity(n * 24);
                for i in 0..n {
                    s.push_str(&format!("h{i} 1 IN A 192.0.2.1\n"));
                }
                s
            },
        },
        Family {
            name: "records-one-rrset",
            max_pow: same_rrset_max,
            build: |n| {
                let mut s = String::with_capacity(n * 24);
                for i in 0..n {
                    s.push_str(&format!("a 1 IN A 10.{}.{}.{}\n", i >> 16 & 255, i >> 8 & 255, i & 255));
                }
                s
            },
        },
        Family {
            name: "records-inherit-owner",
            max_pow: same_rrset_max,
            build: |n| {
                let mut s = String::from("a 1 IN A 192.0.2.1\n");
                for i in 0..n {
                    s.push_str(&format!(" TXT t{i}\n"));
                }
                s
            },
        },
        Family { name: "origin-directives", max_pow: 16, build: |n| format!("{}{}", "$ORIGIN ex.test.\n".repeat(n), rec_line()) },
    ]
}

pub struct GrowthPoint {
    pub family: String,
    pub n: usize,
    pub len: usize,
    pub micros: u128,
    pub outcome: &'static str,
}

pub fn growth(ctx: &Ctx, w: &World, thorough: bool) -> Vec<GrowthPoint> {
    let fams = families(thorough);
    let mut cases: Vec<(usize, u32)> = vec![];
    for (fi, f) in fams.iter().enumerate() {
        // thorough: the families that are linear in the text go on to 2^20 characters (2^18 records)
        let top = if !thorough || f.max_pow < 16 {
            f.max_pow
        } else if f.name.starts_with("records") || f.name == "origin-directives" || f.name == "include" {
            18
        } else {
            20
        };
        for p in 0..=top {
            cases.push((fi, p));
        }
    }
    let out = Mutex::new(vec![]);
    ctx.par_run(cases.len() as u64, 1, |i, l| {
        let (fi, p) = cases[i as usize];
        let f = &fams[fi];
        let n = 1usize << p;
        ctx.watch(l.worker, || json!({"kind": "growth", "family": f.name, "n": n}).to_string());
        let text = (f.build)(n);
        let t0 = Instant::now();
        let c = run_text(w, &format!("growth:{}:n={}", f.name, n), &text, None, true, l);
        let dt = t0.elapsed().as_micros();
        l.outcome(&format!("growth:{}:{}", f.name, if c.starts_with("err") { "err" } else { c }));
        l.nontrivial(fnv64(format!("{}:{}", f.name, n).as_bytes()));
        out.lock().unwrap().push(GrowthPoint { family: f.name.to_string(), n, len: text.len(), micros: dt, outcome: c });
    });
    let mut v = out.into_inner().unwrap();
    v.sort_by(|a, b| (a.family.clone(), a.n).cmp(&(b.family.clone(), b.n)));
    v
}

pub fn replay_growth(w: &World, case: &Value, l: &mut Local) {
    let fams = families(true);
    let name = case["family"].as_str().unwrap_or("");
    let name = name.strip_prefix("growth:").unwrap_or(name);
    let name = name.split(":n=").next().unwrap();
    let n = case["n"].as_u64().unwrap_or_else(|| case["family"].as_str().and_then(|s| s.split(":n=").nth(1)).and_then(|s| s.parse().ok()).unwrap_or(1)) as usize;
    if let Some(f) = fams.iter().find(|f| f.name == name) {
        let text = (f.build)(n);
        let c = run_text(w, &format!("growth:{}:n={}", f.name, n), &text, None, true, l);
        eprintln!("replay growth {name} n={n}: {c}");
    } else {
        eprintln!("unknown growth family {name}");
    }
}

// ------------------------------------------------------------------------------------------
// $INCLUDE families (scratch directory)

pub fn scratch_dir() -> PathBuf {
    let base = std::env::var("VERIF_SCRATCH").map(PathBuf::from).unwrap_or_else(|_| PathBuf::from("/var/tmp"));
    base.join(format!("verif-c20-scratch-{}", std::process::id()))
}

pub fn includes(ctx: &Ctx, w: &World, dir: &Path) -> Vec<GrowthPoint> {
    let mut out = vec![];
    let mut run = |name: &str, n: usize, main: &Path, l: &mut Local| {
        let text = std::fs::read_to_string(main).expect("scratch file");
        ctx.watch(l.worker, || json!({"kind": "include", "family": name, "n": n}).to_string());
        let t0 = Instant::now();
        let c = run_text(w, &format!("include:{name}:n={n}"), &text, Some(main), true, l);
        let dt = t0.elapsed().as_micros();
        ctx.unwatch(l.worker);
        l.outcome(&format!("include:{}:{}", name, if c.starts_with("err") { "err" } else { c }));
        l.nontrivial(fnv64(format!("include:{name}:{n}").as_bytes()));
        out.push(GrowthPoint { family: format!("include-{name}"), n, len: text.len(), micros: dt, outcome: c });
    };
    ctx.with_local(|l| {
        // self recursion
        let f = dir.join("self.zone");
        std::fs::write(&f, "a 1 IN A 192.0.2.1\n$INCLUDE self.zone\nb 1 IN A 192.0.2.2\n").unwrap();
        run("self", 1, &f, l);
        // mutual recursion
        let (a, b) = (dir.join("mut-a.zone"), dir.join("mut-b.zone"));
        std::fs::write(&a, "$INCLUDE mut-b.zone\n").unwrap();
        std::fs::write(&b, "a 1 IN A 192.0.2.1\n$INCLUDE mut-a.zone\n").unwrap();
        run("mutual", 2, &a, l);
        // absolute path to itself
        let f = dir.join("abs.zone");
        std::fs::write(&f, format!("$INCLUDE {}\n", f.display())).unwrap();
        run("self-absolute", 1, &f, l);
        // missing file, directory, empty file, file without final newline
        let f = dir.join("missing-main.zone");
        std::fs::write(&f, "$INCLUDE does-not-exist.zone\n").unwrap();
        run("missing", 1, &f, l);
        let f = dir.join("dir-main.zone");
        std::fs::write(&f, "$INCLUDE .\n").unwrap();
        run("directory", 1, &f, l);
        std::fs::write(dir.join("empty.zone"), "").unwrap();
        let f = dir.join("empty-main.zone");
        std::fs::write(&f, "$INCLUDE empty.zone\na 1 IN A 192.0.2.1\n").unwrap();
        run("empty", 1, &f, l);
        std::fs::write(dir.join("nonl.zone"), "b 1 IN A 192.0.2.2 ; no newline").unwrap();
        let f = dir.join("nonl-main.zone");
        std::fs::write(&f, "a 1 IN A 192.0.2.1\n$INCLUDE nonl.zone\nc 1 IN A 192.0.2.3").unwrap();
        run("no-final-newline", 1, &f, l);
        // chains: f0 includes f1 ... f(n-1); n = 1..512 (the nesting limit is 256)
        for p in 0..=9u32 {
            let n = 1usize << p;
            for i in 0..n {
                let body = if i + 1 < n { format!("h{i} 1 IN A 192.0.2.1\n$INCLUDE chain-{n}-{}.zone\n", i + 1) } else { format!("h{i} 1 IN A 192.0.2.1\n") };
                std::fs::write(dir.join(format!("chain-{n}-{i}.zone")), body).unwrap();
            }
            run("chain", n, &dir.join(format!("chain-{n}-0.zone")), l);
        }
        // wide: one file including the same leaf n times
        std::fs::write(dir.join("leaf.zone"), "leaf 1 IN A 192.0.2.9\n").unwrap();
        for p in 0..=12u32 {
            let n = 1usize << p;
            let f = dir.join(format!("wide-{n}.zone"));
            std::fs::write(&f, "$INCLUDE leaf.zone\n".repeat(n)).unwrap();
            run("wide", n, &f, l);
        }
    });
    out
}

/// Two short files of the chain-triple family (inheritance of owner, TTL, class; `$TTL`, `$ORIGIN`)
/// whose complete 2-edit neighbourhoods are run in BOTH tiers.
pub fn chain_seeds() -> Vec<Seed> {
    vec![
        Seed { text: "@ 300 IN A 192.0.2.1\na MX 0 mail\n TXT \"hello\"\n".into(), what: "chain: @ / relative owner / inherited owner, TTL and class inherited".into() },
        Seed { text: "$TTL 300\na CH A 192.0.2.1\n$ORIGIN sub.ex.test.\nb 9 IN MX 0 @\n".into(), what: "chain: $TTL, class change, $ORIGIN change, relative owner, @ in RDATA".into() },
    ]
}

/// Independent evaluation of a TTL token: decimal, or BIND-style <number><unit> groups with an
/// optional trailing number (seconds). None = not a TTL / does not fit 32 bits.
pub fn ref_ttl(tok: &str) -> Option<u64> {
    if tok.is_empty() {
        return None;
    }
    let mut total: u64 = 0;
    let mut num: Option<u64> = None;
    for c in tok.chars() {
        match c {
            '0'..='9' => {
                let v = num.unwrap_or(0).checked_mul(10)?.checked_add(c as u64 - '0' as u64)?;
                if v > u32::MAX as u64 {
                    return None;
                }
                num = Some(v);
            }
            's' | 'S' | 'm' | 'M' | 'h' | 'H' | 'd' | 'D' | 'w' | 'W' => {
                let n = num.take()?;
                let mult = match c.to_ascii_lowercase() {
                    's' => 1,
                    'm' => 60,
                    'h' => 3600,
                    'd' => 86400,
                    _ => 604800,
                };
                total = total.checked_add(n.checked_mul(mult)?)?;
                if total > u32::MAX as u64 {
                    return None;
                }
            }
            _ => return None,
        }
    }
    if let Some(n) = num {
        total = total.checked_add(n)?;
    }
    if total > u32::MAX as u64 {
        None
    } else {
        Some(total)
    }
}

pub const TTL_ALPHABET: &[u8; 12] = b"012479smhdWx";
pub const TTL_BOUNDARY: [&str; 22] = [
    "2147483647", "2147483648", "4294967295", "4294967296", "99999999999", "00000000000000000300", "4294967295s", "4294967296s",
    "71582788m", "71582789m", "1193046h", "1193047h", "49710d", "49711d", "7101w", "7102w", "4294967295s1s", "0w0d0h0m0s", "1W1D1H1M1S",
    "4294967295w", "3w3w", "18446744073709551616",
];

/// Every token of length <= `max_len` over digits + unit letters (plus boundary values around
/// 2^31 and 2^32) as the TTL of a record, as the `$TTL` argument and as SOA refresh.
/// Judged: no panic; an all-digit token (RFC 1035: "TTL is a decimal integer") of value
/// <= 2^31-1 must load with exactly that TTL; a token with units that the parser ACCEPTS and whose
/// groups denote a value <= 2^31-1 must load with that value (`valid:unit-ttl:value-differs:*`,
/// seed C20-7). Refusing units (a BIND extension) and values above 2^31-1 (undefined by RFC 2181)
/// are compared with `ref_ttl` and only counted.
pub fn ttl_tokens(ctx: &Ctx, w: &World, max_len: usize) -> u64 {
    let mut toks: Vec<String> = TTL_BOUNDARY.iter().map(|s| s.to_string()).collect();
    for len in 1..=max_len {
        let n = vcore::enumerate::pow(12, len as u32);
        let mut buf = vec![];
        for i in 0..n {
            vcore::enumerate::string_at(TTL_ALPHABET, len, i, &mut buf);
            toks.push(String::from_utf8(buf.clone()).unwrap());
        }
    }
    let n = toks.len() as u64 * 3;
    ctx.par_run(n, 512, |i, l| {
        let tok = &toks[(i / 3) as usize];
        let pos = i % 3;
        let text = match pos {
            0 => format!("a {tok} IN A 192.0.2.1\n"),
            1 => format!("$TTL {tok}\na IN A 192.0.2.1\n"),
            _ => format!("a 5 IN SOA a a 1 {tok} 3 4 5\n"),
        };
        l.eval();
        let res = catch(|| Parser::new(text.clone(), None, Some(w.horigin.clone())).parse());
        let case = || json!({"kind": "text", "family": "ttl-token", "text": text, "with_origin": true});
        let got: Option<u64> = match res {
            Err(p) => {
                l.violation(&panic_key(&p), &format!("parser panicked on TTL token {tok:?}: {}", p.msg), case);
                return;
            }
            Ok(Err(_)) => None,
            Ok(Ok((_o, m))) => m.values().flat_map(|rs| rs.records_without_rrsigs()).next().map(|r| match (&r.data, pos) {
                (hickory_proto::rr::RData::SOA(soa), 2) => soa.refresh as u64,
                _ => r.ttl as u64,
            }),
        };
        let all_digits = tok.bytes().all(|b| b.is_ascii_digit());
        let want = ref_ttl(tok);
        if all_digits && pos < 2 && want.map(|v| v <= i32::MAX as u64).unwrap_or(false) {
            if got != want {
                l.violation(
                    &format!("valid:decimal-ttl:{}", if pos == 0 { "record" } else { "$TTL" }),
                    &format!("decimal TTL {tok:?} loaded as {got:?}, expected {want:?}"),
                    case,
                );
            } else {
                l.outcome("ttl-token:decimal:exact");
                l.nontrivial(fnv64(text.as_bytes()));
            }
            return;
        }
        // A token with BIND-style units (the grammar `parse_ttl` documents: <number><unit> groups and
        // an optional trailing number of seconds, all ADDED) that the parser ACCEPTS must load with
        // the value it denotes: judged in the only-if form - both the parser and the reference
        // accept, the denoted value fits 31 bits, and the loaded value differs. (Refusing the
        // extension altogether, and everything above 2^31-1, stays unjudged.)
        if let (Some(g), Some(wv)) = (got, want) {
            if g != wv && wv <= i32::MAX as u64 {
                l.violation(
                    &format!("valid:unit-ttl:value-differs:{}", ["record", "$TTL", "soa-refresh"][pos as usize]),
                    &format!("time value {tok:?} was accepted and loaded as {g}; its groups denote {wv} (every <number><unit> group and a trailing number of seconds are added)"),
                    case,
                );
                return;
            }
        }
        // not judged: refusing BIND units, values above 2^31-1
        let want = if pos == 2 { want.filter(|v| *v <= i32::MAX as u64) } else { want };
        if got == want {
            l.outcome(if got.is_some() { "obs:ttl-token:agrees-with-reference:value" } else { "obs:ttl-token:agrees-with-reference:rejected" });
        } else {
            l.outcome_sample("obs:ttl-token:differs-from-reference", || json!({"token": tok, "position": pos, "loaded": got, "reference": want}));
        }
    });
    n
}
