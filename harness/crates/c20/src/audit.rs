//! Audit-round families. Every case is a self-contained (text, origin argument, expectation)
//! triple produced by the reference printer / by hand, so the families share one runner.
//!
//! * `paren-pos`     – one (and two) parenthesised groups opened/closed at EVERY token boundary
//!                     of the RDATA of EVERY shape, line breaks / comments at every inner boundary;
//! * `mnemonic-case` – class and type mnemonics in upper / lower / mixed case for every shape;
//! * `value-forms`   – leading zeros on every integer field, upper-case IPv6 and hex;
//! * `origin-knob`   – the `origin` argument of `Parser::new`: FQDN / non-FQDN `Name` / other
//!                     letter case / root / None + `$ORIGIN` entry; relative `$ORIGIN` argument;
//! * `svc-params`    – every order of the SvcParams of the SVCB / HTTPS shapes (RFC 9460 2.1);
//! * `line-seq`      – every sequence of <= 4 line kinds (records stating / inheriting everything,
//!                     multi-line records, `$ORIGIN`, `$TTL`, `$INCLUDE`, blank / white-space /
//!                     comment lines): state carried over every pair of consecutive line kinds;
//! * `text-limits`   – content alphabet {1..4-octet characters, `\DDD`, `\"`, `\\`} x OCTET length
//!                     {254..257} for every length-limited text field, labels and names;
//! * `must-reject`   – certainly malformed text (the statement: "yields a parse error"): the
//!                     parser must return Err — and nothing may be loaded after an error.
//!                     Only COUNTED (the text still denotes exactly one record unambiguously and
//!                     common servers accept it, or the refusal is explicit and loud): repeated
//!                     TTL / class fields, `+` signed integers, a line with owner/TTL/class but no
//!                     type, lower-case `$origin` / `$ttl`, RFC 3597 generic forms, lower-case
//!                     type names in CSYNC's list, origin None with an all-absolute file.

use std::path::{Path, PathBuf};

use hickory_proto::rr::{Name, Record};
use hickory_proto::serialize::txt::Parser;
use serde_json::{json, Value};
use vcore::{catch, fnv64, Ctx, Local};
use vref::masterfile::{plain_head, plain_tokens, print_file, Field, Labels, Printer, RecLayout, D_CLASS, D_COMMENT, D_ORIGIN, D_OWNER, D_PARENS, D_RDNAMES, D_TTL, NDIMS};

use crate::alphabet::{class_alphabet, entry, hname, labels, rdata_shapes, rrset_alphabet, Entry};
use crate::loader::{same_set, show};
use crate::panic_key;
use crate::valid::World;

#[derive(Clone, Debug)]
pub enum OriginArg {
    Fqdn(Labels),
    NonFqdn(Labels),
    Upper(Labels),
    None,
}

impl OriginArg {
    fn name(&self) -> Option<Name> {
        match self {
            OriginArg::Fqdn(l) => Some(hname(l)),
            OriginArg::NonFqdn(l) => {
                let mut n = hname(l);
                n.set_fqdn(false);
                Some(n)
            }
            OriginArg::Upper(l) => Some(hname(&l.iter().map(|x| x.to_ascii_uppercase()).collect::<Labels>())),
            OriginArg::None => None,
        }
    }
}

pub enum Want {
    /// the file denotes exactly these records
    Records(Vec<Record>),
    /// the text is certainly malformed: Err required
    Reject,
    /// outside the statement: the outcome is only counted under `obs:<class>:...`
    Observe,
}

pub struct ACase {
    pub family: &'static str,
    /// coarse abstract scene: the key of a violation is `audit:<family>:<clause>:<scene>`
    pub scene: String,
    pub text: String,
    pub origin: OriginArg,
    pub want: Want,
    /// auxiliary files (name, content) next to the main file; non-empty => parsed with a path
    pub files: Vec<(String, String)>,
}

fn want_of(es: &[&Entry]) -> Want {
    let mut v: Vec<Record> = vec![];
    for e in es {
        if !v.iter().any(|x| crate::loader::same(x, &e.expect)) {
            v.push(e.expect.clone());
        }
    }
    Want::Records(v)
}

fn shapes_a300() -> Vec<Entry> {
    // every RDATA shape under the envelope a.<origin> 300 IN, without the 4,096-character token
    rrset_alphabet().into_iter().filter(|e| !e.tag.contains("3072")).collect()
}

const NL: &str = "\n";
const CNL: &str = " ; c ( \" )\n";

// ------------------------------------------------------------------------------------------

fn paren_pos(w: &World, out: &mut Vec<ACase>) {
    let o = OriginArg::Fqdn(w.origin.clone());
    for e in shapes_a300() {
        let head = plain_head(&e.rec);
        let toks = plain_tokens(&e.rec);
        let n = toks.len();
        let ty = e.rec.rtype;
        let group = |inside: &[String], seps: &dyn Fn(usize) -> &'static str, tight: bool| -> String {
            let mut g = String::from("(");
            if tight {
                g.push_str(&inside.join(" "));
            } else {
                for (k, t) in inside.iter().enumerate() {
                    g.push_str(seps(k));
                    g.push_str(t);
                }
                g.push_str(seps(inside.len()));
            }
            g.push(')');
            g
        };
        let mut push = |variant: String, text: String| {
            out.push(ACase { family: "paren-pos", scene: format!("{ty}:{variant}"), text, origin: o.clone(), want: want_of(&[&e]), files: vec![] });
        };
        for i in 0..=n {
            for j in i..=n {
                let (before, inside, after) = (&toks[..i], &toks[i..j], &toks[j..]);
                let line = |g: String| {
                    let mut parts: Vec<String> = vec![head.clone()];
                    parts.extend(before.iter().cloned());
                    parts.push(g);
                    parts.extend(after.iter().cloned());
                    format!("{}\n", parts.join(" "))
                };
                push("one-line".into(), line(group(inside, &|_| " ", false)));
                if j > i {
                    push("tight".into(), line(group(inside, &|_| " ", true)));
                }
                push("all-newlines".into(), line(group(inside, &|_| NL, false)));
                push("all-comment+newline".into(), line(group(inside, &|_| CNL, false)));
                for b in 0..=inside.len() {
                    push("one-newline".into(), line(group(inside, &|k| if k == b { NL } else { " " }, false)));
                    push("one-comment+newline".into(), line(group(inside, &|k| if k == b { CNL } else { " " }, false)));
                }
            }
        }
        // two groups in one record
        if n >= 2 {
            for i in 0..=n {
                for j in i..=n {
                    for k in j..=n {
                        for l in k..=n {
                            if j == i && l == k {
                                continue;
                            }
                            for (vname, sep) in [("two-groups", " "), ("two-groups-newlines", NL)] {
                                let mut parts: Vec<String> = vec![head.clone()];
                                parts.extend(toks[..i].iter().cloned());
                                parts.push(group(&toks[i..j], &|_| sep, false));
                                parts.extend(toks[j..k].iter().cloned());
                                parts.push(group(&toks[k..l], &|_| sep, false));
                                parts.extend(toks[l..].iter().cloned());
                                push(vname.into(), format!("{}\n", parts.join(" ")));
                            }
                        }
                    }
                }
            }
        }
    }
}

fn case_form(s: &str, form: u8) -> String {
    match form {
        0 => s.to_ascii_uppercase(),
        1 => s.to_ascii_lowercase(),
        _ => {
            let mut c = s.to_ascii_lowercase();
            if let Some(f) = c.get_mut(0..1) {
                f.make_ascii_uppercase();
            }
            c
        }
    }
}

fn mnemonic_case(w: &World, out: &mut Vec<ACase>) {
    let o = OriginArg::Fqdn(w.origin.clone());
    let mut es = shapes_a300();
    es.extend(class_alphabet().into_iter().filter(|e| !e.tag.contains("3072")));
    for e in &es {
        let mut esc = false;
        let owner = vref::masterfile::name_abs(&e.rec.owner, &mut esc);
        let toks = plain_tokens(&e.rec).join(" ");
        for cf in 0..3u8 {
            for tf in 0..3u8 {
                if cf == 0 && tf == 0 {
                    continue;
                }
                let names = ["upper", "lower", "mixed"];
                out.push(ACase {
                    family: "mnemonic-case",
                    scene: format!("{}:class={},type={}", e.rec.rtype, names[cf as usize], names[tf as usize]),
                    text: format!("{owner} {} {} {} {toks}\n", e.rec.ttl, case_form(e.rec.class, cf), case_form(e.rec.rtype, tf)),
                    origin: o.clone(),
                    want: want_of(&[e]),
                    files: vec![],
                });
            }
        }
    }
}

fn value_forms(w: &World, out: &mut Vec<ACase>) {
    let o = OriginArg::Fqdn(w.origin.clone());
    for e in shapes_a300() {
        let head = plain_head(&e.rec);
        let toks = plain_tokens(&e.rec);
        let ty = e.rec.rtype;
        let ints: Vec<usize> = e.rec.rdata.iter().enumerate().filter(|(_, f)| matches!(f, Field::Int(_))).map(|(i, _)| i).collect();
        let mut push = |variant: &str, t: Vec<String>| {
            out.push(ACase { family: "value-forms", scene: format!("{ty}:{variant}"), text: format!("{head} {}\n", t.join(" ")), origin: o.clone(), want: want_of(&[&e]), files: vec![] });
        };
        for &i in &ints {
            for z in ["0", "000"] {
                let mut t = toks.clone();
                t[i] = format!("{z}{}", t[i]);
                push("leading-zero", t);
            }
        }
        if ints.len() > 1 {
            let mut t = toks.clone();
            for &i in &ints {
                t[i] = format!("0{}", t[i]);
            }
            push("leading-zero-all", t);
        }
        if matches!(ty, "AAAA" | "TLSA" | "SMIMEA" | "DS" | "SSHFP") {
            if let Some(Field::Lit(s)) = e.rec.rdata.last() {
                if s.bytes().any(|b| b.is_ascii_lowercase()) {
                    let mut t = toks.clone();
                    let k = t.len() - 1;
                    t[k] = s.to_ascii_uppercase();
                    push("upper-case-hex", t);
                }
            }
        }
    }
}

/// Shapes that carry names, under three owners, for the origin families.
fn named_entries(w: &World) -> Vec<Entry> {
    let shapes = rdata_shapes();
    let ow = |p: &[&str]| {
        let mut v = labels(p);
        v.extend(w.origin.clone());
        v
    };
    let mut v = vec![];
    for (i, t) in ["A 192.0.2.1", "MX #0", "NS #0", "SOA #0", "SRV #1", "CNAME #1", "NAPTR #0", "SVCB #2", "PTR #1", "MX #2"].iter().enumerate() {
        let sh = shapes.iter().find(|x| x.1 == *t).unwrap();
        let owner = match i % 3 {
            0 => ow(&["a"]),
            1 => w.origin.clone(),
            _ => ow(&["b", "sub"]),
        };
        // no CNAME at the apex
        let owner = if sh.0 == "CNAME" { ow(&["c"]) } else { owner };
        v.push(entry(&(owner, 300, "IN"), sh));
    }
    v
}

fn origin_knob(w: &World, out: &mut Vec<ACase>) {
    let es = named_entries(w);
    let root: Labels = vec![];
    for e in &es {
        for own in 0..3u8 {
            for rdn in 0..3u8 {
                let mut lay: RecLayout = [0; NDIMS];
                lay[D_OWNER] = own;
                lay[D_RDNAMES] = rdn;
                // (1) the origin argument as a Name object of different kinds
                if let Some(p) = print_file(&w.origin, &w.alts, &[&e.rec], &[0, 0, 0], &[lay]) {
                    for (oname, oa) in [("non-fqdn-name", OriginArg::NonFqdn(w.origin.clone())), ("other-case", OriginArg::Upper(w.origin.clone()))] {
                        out.push(ACase { family: "origin-knob", scene: format!("{}:origin-arg={oname}", e.rec.rtype), text: p.text.clone(), origin: oa, want: want_of(&[e]), files: vec![] });
                    }
                    // (2) no origin argument, the file states it itself
                    let mut l2 = lay;
                    l2[D_ORIGIN] = 1;
                    let p2 = print_file(&w.origin, &w.alts, &[&e.rec], &[0, 0, 0], &[l2]).expect("same-origin entry");
                    out.push(ACase { family: "origin-knob", scene: format!("{}:origin-arg=none+$ORIGIN", e.rec.rtype), text: p2.text, origin: OriginArg::None, want: want_of(&[e]), files: vec![] });
                }
                // (3) the root as origin: every name relative to it
                if let Some(p) = print_file(&root, &[], &[&e.rec], &[0, 0, 0], &[lay]) {
                    out.push(ACase { family: "origin-knob", scene: format!("{}:origin-arg=root", e.rec.rtype), text: p.text, origin: OriginArg::Fqdn(root.clone()), want: want_of(&[e]), files: vec![] });
                }
                // (4) relative $ORIGIN argument: `$ORIGIN sub` under the origin = `$ORIGIN sub.<origin>`
                if let Some(p) = print_file(&w.alts[0], &[], &[&e.rec], &[0, 0, 0], &[lay]) {
                    if own != 0 || rdn != 0 {
                        let mut esc = false;
                        let rel = vref::masterfile::name_abs(&w.alts[0][..w.alts[0].len() - w.origin.len()].to_vec(), &mut esc);
                        let rel = rel.trim_end_matches('.');
                        out.push(ACase {
                            family: "origin-knob",
                            scene: "relative-$ORIGIN-argument".to_string(),
                            text: format!("$ORIGIN {rel}\n{}", p.text),
                            origin: OriginArg::Fqdn(w.origin.clone()),
                            want: want_of(&[e]),
                            files: vec![],
                        });
                    }
                }
            }
        }
    }
    // the root itself as owner (`@` under the root origin)
    let shapes = rdata_shapes();
    let ns = shapes.iter().find(|x| x.1 == "NS #2").unwrap();
    let e = entry(&(root.clone(), 300, "IN"), ns);
    for own in [0u8, 2] {
        let mut lay: RecLayout = [0; NDIMS];
        lay[D_OWNER] = own;
        if let Some(p) = print_file(&root, &[], &[&e.rec], &[0, 0, 0], &[lay]) {
            out.push(ACase { family: "origin-knob", scene: "NS:origin-arg=root,owner=root".into(), text: p.text, origin: OriginArg::Fqdn(root.clone()), want: want_of(&[&e]), files: vec![] });
        }
    }
}

fn permutations_of(n: usize) -> Vec<Vec<usize>> {
    vcore::enumerate::permutations(n)
}

fn svc_params(w: &World, out: &mut Vec<ACase>) {
    let o = OriginArg::Fqdn(w.origin.clone());
    for e in shapes_a300().into_iter().filter(|e| matches!(e.rec.rtype, "SVCB" | "HTTPS")) {
        let head = plain_head(&e.rec);
        let toks = plain_tokens(&e.rec);
        let params = &toks[2..];
        if params.len() < 2 {
            continue;
        }
        for perm in permutations_of(params.len()) {
            let identity = perm.iter().enumerate().all(|(i, p)| i == *p);
            let t: Vec<String> = perm.iter().map(|i| params[*i].clone()).collect();
            out.push(ACase {
                family: "svc-params",
                scene: format!("{}:{}", e.rec.rtype, if identity { "params-in-ascending-order" } else { "params-in-another-order" }),
                text: format!("{head} {} {} {}\n", toks[0], toks[1], t.join(" ")),
                origin: o.clone(),
                want: want_of(&[&e]),
                files: vec![],
            });
        }
        // a repeated key is malformed (RFC 9460 2.1)
        for p in params {
            out.push(ACase {
                family: "must-reject",
                scene: format!("duplicate-svc-param:{}", e.rec.rtype),
                text: format!("{head} {} {p}\n", toks.join(" ")),
                origin: o.clone(),
                want: Want::Reject,
                files: vec![],
            });
        }
    }
}

// ------------------------------------------------------------------------------------------
// line sequences

fn line_seq(w: &World, max_len: usize, out: &mut Vec<ACase>) {
    let shapes = rdata_shapes();
    let env = {
        let mut v = labels(&["a"]);
        v.extend(w.origin.clone());
        (v, 300u32, "IN")
    };
    let recs: Vec<Entry> = ["A 192.0.2.1", "MX #0", "TXT #1", "AAAA 2001:db8::1"].iter().map(|t| entry(&env, shapes.iter().find(|x| x.1 == *t).unwrap())).collect();
    let inc = entry(&env, shapes.iter().find(|x| x.1 == "SRV #1").unwrap());
    // item kinds
    const KINDS: [&str; 12] = ["rec-plain", "rec-inherit", "rec-multiline", "rec-relative", "$ORIGIN-child", "$ORIGIN-back", "$TTL", "$INCLUDE", "empty", "white-space", "comment", "indented-comment"];
    let k = KINDS.len();
    for len in 1..=max_len {
        let total = k.pow(len as u32);
        'seq: for idx in 0..total {
            let mut d = vec![];
            let mut x = idx;
            for _ in 0..len {
                d.push(x % k);
                x /= k;
            }
            // at least one record, the last item is a record or an include (other tails are shorter sequences + void)
            if !matches!(d[len - 1], 0..=3 | 7) {
                continue;
            }
            let mut p = Printer::new(&w.origin, &w.alts, false, None);
            let mut used: Vec<&Entry> = vec![];
            let mut files = vec![];
            let mut nrec = 0;
            for &it in &d {
                match it {
                    0..=3 => {
                        let e = &recs[nrec];
                        nrec += 1;
                        let mut lay: RecLayout = [0; NDIMS];
                        match it {
                            0 => {}
                            1 => {
                                lay[D_OWNER] = 3;
                                lay[D_TTL] = 1;
                                lay[D_CLASS] = 1;
                            }
                            2 => {
                                lay[D_PARENS] = 3;
                                lay[D_COMMENT] = 3;
                            }
                            _ => {
                                lay[D_OWNER] = 1;
                                if e.rec.rdata.iter().any(|f| matches!(f, Field::Name(_))) {
                                    lay[D_RDNAMES] = 1;
                                }
                            }
                        }
                        if !p.check_record(&e.rec, &lay) {
                            // relative form not expressible under the current origin: absolute instead
                            if it == 3 {
                                lay[D_OWNER] = 0;
                                lay[D_RDNAMES] = 0;
                            }
                            if !p.check_record(&e.rec, &lay) {
                                continue 'seq;
                            }
                        }
                        p.emit_record(&e.rec, &lay);
                        used.push(e);
                    }
                    4 => {
                        if p.origin == w.alts[0] {
                            continue 'seq;
                        }
                        p.emit_origin_line(&w.alts[0]);
                    }
                    5 => {
                        if p.origin == w.origin {
                            continue 'seq;
                        }
                        p.emit_origin_line(&w.origin);
                    }
                    6 => p.emit_ttl_line(300),
                    7 => {
                        if !files.is_empty() {
                            continue 'seq;
                        }
                        // the included record states everything, with the owner/TTL/class of all
                        // records of this family (so every reading of "state after $INCLUDE" agrees)
                        p.text.push_str("$INCLUDE inc.zone\n");
                        let mut ip = Printer::new(&p.origin, &w.alts, false, None);
                        ip.emit_record(&inc.rec, &[0; NDIMS]);
                        files.push(("inc.zone".to_string(), ip.finish(true)));
                        // state as if the record had been written in place
                        let mut shadow = p.clone();
                        shadow.emit_record(&inc.rec, &[0; NDIMS]);
                        let keep = p.text.clone();
                        p = shadow;
                        p.text = keep;
                        used.push(&inc);
                    }
                    v => p.emit_void_line((v - 8) as u8),
                }
            }
            if used.is_empty() {
                continue;
            }
            // scene: the last two line kinds (the transition that is being exercised)
            let scene = if len >= 2 { format!("{}->{}", KINDS[d[len - 2]], KINDS[d[len - 1]]) } else { KINDS[d[0]].to_string() };
            out.push(ACase { family: "line-seq", scene, text: p.finish(true), origin: OriginArg::Fqdn(w.origin.clone()), want: want_of(&used), files });
        }
    }
}

// ------------------------------------------------------------------------------------------
// must-reject

/// (type, exact number of RDATA tokens) for the fixed-arity presentation formats
const ARITY: [(&str, usize); 14] = [
    ("A", 1), ("AAAA", 1), ("ANAME", 1), ("CNAME", 1), ("NS", 1), ("PTR", 1), ("MX", 2), ("SOA", 7), ("SRV", 4), ("HINFO", 2), ("NAPTR", 6), ("CAA", 3), ("SSHFP", 3), ("OPENPGPKEY", 1),
];
/// minimum number of RDATA tokens of the other formats
const MIN_ARITY: [(&str, usize); 8] = [("TXT", 1), ("CERT", 4), ("CSYNC", 2), ("DS", 4), ("TLSA", 4), ("SMIMEA", 4), ("SVCB", 2), ("HTTPS", 2)];

/// largest value of the integer field `idx` of `ty`
fn int_max(ty: &str, idx: usize) -> u64 {
    match (ty, idx) {
        ("MX", 0) | ("SRV", _) | ("NAPTR", _) | ("SVCB", 0) | ("HTTPS", 0) | ("CERT", 0) | ("CERT", 1) | ("CSYNC", 1) | ("DS", 0) => u16::MAX as u64,
        ("SOA", 2) | ("SOA", 6) | ("CSYNC", 0) => u32::MAX as u64,
        ("SOA", _) => i32::MAX as u64,
        _ => u8::MAX as u64, // CAA flags, CERT algorithm, DS algorithm/digest type, TLSA/SMIMEA, SSHFP
    }
}

fn must_reject(w: &World, out: &mut Vec<ACase>) {
    let o = OriginArg::Fqdn(w.origin.clone());
    let mut push = |scene: String, text: String, origin: OriginArg, want: Want| out.push(ACase { family: "must-reject", scene, text, origin, want, files: vec![] });
    for e in shapes_a300() {
        let head = plain_head(&e.rec);
        let toks = plain_tokens(&e.rec);
        let ty = e.rec.rtype;
        let n = toks.len();
        let line = |t: &[String]| format!("{head} {}\n", t.join(" "));
        // unclosed parenthesis, with every ending
        for (ending, tail) in [("newline", "\n"), ("end-of-input", ""), ("comment+end-of-input", " ; c"), ("comment+newline", " ; c\n"), ("next-record", "\nb 1 IN A 192.0.2.9\n")] {
            push(format!("unclosed-parenthesis:{ending}:rdata-tokens={}", if n == 1 { "1" } else { "several" }), format!("{head} ( {}{tail}", toks.join(" ")), o.clone(), Want::Reject);
        }
        push("stray-closing-parenthesis".to_string(), format!("{head} {} )\n", toks.join(" ")), o.clone(), Want::Reject);
        // unclosed quote
        if let Some(i) = toks.iter().rposition(|t| t.starts_with('"')) {
            let mut t = toks.clone();
            t[i].pop();
            push("unclosed-quote".to_string(), line(&t), o.clone(), Want::Reject);
        }
        // too few fields
        let min = ARITY.iter().chain(MIN_ARITY.iter()).find(|(t, _)| *t == ty).map(|x| x.1).unwrap_or(1);
        for keep in 0..min.min(n) {
            push(format!("missing-rdata-field:{ty}"), line(&toks[..keep]), o.clone(), Want::Reject);
        }
        // surplus token after a fixed-arity RDATA
        if ARITY.iter().any(|(t, k)| *t == ty && *k == n) {
            for extra in ["x", "1", "\"\""] {
                let mut t = toks.clone();
                t.push(extra.to_string());
                push(format!("surplus-rdata-token:{ty}"), line(&t), o.clone(), Want::Reject);
            }
        }
        // integers beyond their width, negative, not a number
        for (i, f) in e.rec.rdata.iter().enumerate() {
            if matches!(f, Field::Int(_)) {
                for (what, v) in [("above-maximum", (int_max(ty, i) + 1).to_string()), ("negative", "-1".to_string()), ("not-a-number", "1x".to_string()), ("empty-quoted", "\"\"".to_string())] {
                    let mut t = toks.clone();
                    t[i] = v;
                    push(format!("integer-{what}:{ty}"), line(&t), o.clone(), Want::Reject);
                }
                let mut t = toks.clone();
                t[i] = format!("+{}", t[i]);
                push(format!("integer-with-plus-sign:{ty}"), line(&t), o.clone(), Want::Observe);
            }
        }
        // addresses
        if ty == "A" {
            for bad in ["1.2.3", "1.2.3.4.5", "256.0.0.1", "01.2.3.4", "1.2.3.", "1..2.3", "0x1.2.3.4", "::1"] {
                push("bad-ipv4:A".into(), line(&[bad.to_string()]), o.clone(), Want::Reject);
            }
        }
        if ty == "AAAA" {
            for bad in [":::", "1::2::3", "fe80::1%eth0", "12345::", "1:2:3:4:5:6:7", "1:2:3:4:5:6:7:8:9", "192.0.2.1", "::ffff:1.2.3"] {
                push("bad-ipv6:AAAA".into(), line(&[bad.to_string()]), o.clone(), Want::Reject);
            }
        }
        // hex / base64 blobs
        if let Some(Field::Lit(s)) = e.rec.rdata.last() {
            if matches!(ty, "TLSA" | "SMIMEA" | "DS" | "SSHFP") {
                let mut t = toks.clone();
                t[n - 1] = s[..s.len() - 1].to_string();
                if !t[n - 1].is_empty() {
                    push(format!("odd-number-of-hex-digits:{ty}"), line(&t), o.clone(), Want::Reject);
                }
                let mut t = toks.clone();
                t[n - 1] = format!("{}g0", &s[..s.len() - 2]);
                push(format!("not-a-hex-digit:{ty}"), line(&t), o.clone(), Want::Reject);
            }
            if matches!(ty, "CERT" | "OPENPGPKEY") {
                let mut t = toks.clone();
                t[n - 1] = format!("{}*", &s[..s.len() - 1]);
                push(format!("not-a-base64-character:{ty}"), line(&t), o.clone(), Want::Reject);
                let mut t = toks.clone();
                t[n - 1] = s.trim_end_matches('=')[..s.trim_end_matches('=').len() - 1].to_string();
                if t[n - 1].len() % 4 == 1 {
                    push(format!("impossible-base64-length:{ty}"), line(&t), o.clone(), Want::Reject);
                }
            }
        }
        // header fields
        let mut esc = false;
        let owner = vref::masterfile::name_abs(&e.rec.owner, &mut esc);
        let rd = toks.join(" ");
        push("ttl-above-32-bits".to_string(), format!("{owner} 4294967296 IN {ty} {rd}\n"), o.clone(), Want::Reject);
        push("ttl-negative".to_string(), format!("{owner} -1 IN {ty} {rd}\n"), o.clone(), Want::Reject);
        push("no-ttl-anywhere".to_string(), format!("{owner} IN {ty} {rd}\n"), o.clone(), Want::Reject);
        push("blank-owner-on-first-line".to_string(), format!(" 300 IN {ty} {rd}\n"), o.clone(), Want::Reject);
        push("unknown-class".to_string(), format!("{owner} 300 XX {ty} {rd}\n"), o.clone(), Want::Reject);
        push(format!("no-type:{ty}"), format!("{owner} 300 IN\n"), o.clone(), Want::Observe);
        // relative owner while no origin is in force (RFC 1035 5.1: an error)
        let rel = owner.trim_end_matches(&format!("{}.", String::from_utf8_lossy(&w.origin.join(&b'.')))).trim_end_matches('.').to_string();
        if !rel.is_empty() && rel != owner {
            push("relative-owner-without-origin".to_string(), format!("{rel} 300 IN {ty} {rd}\n$ORIGIN ex.test.\n"), OriginArg::None, Want::Reject);
        }
        // an error after valid records: nothing is loaded
        push(format!("error-after-valid-records:{ty}"), format!("{head} {rd}\nb.ex.test. 300 IN {ty}\n"), o.clone(), Want::Reject);
        // observed only: repeated TTL / class fields
        push(format!("repeated-ttl-field:{ty}"), format!("{owner} 300 300 IN {ty} {rd}\n"), o.clone(), Want::Observe);
        push(format!("repeated-class-field:{ty}"), format!("{owner} 300 IN IN {ty} {rd}\n"), o.clone(), Want::Observe);
    }
    // type mnemonics the zone parser must refuse: unknown, meta, unsupported
    for ty in ["BOGUS", "ANY", "AXFR", "IXFR", "OPT", "NULL", "SIG", "KEY", "DNSKEY", "CDNSKEY", "CDS", "RRSIG", "NSEC", "NSEC3", "NSEC3PARAM", "TSIG", "A6", "TYPE", "TYPE65536"] {
        push(format!("unsupported-type:{ty}"), format!("a.ex.test. 300 IN {ty} 1 2 3 AQID\n"), o.clone(), Want::Reject);
    }
    // observed: RFC 3597 generic forms, lower-case directives, BIND's $GENERATE
    for (cls, text) in [
        ("generic-type-TYPE1", "a.ex.test. 300 IN TYPE1 192.0.2.1\n"),
        ("generic-class-CLASS1", "a.ex.test. 300 CLASS1 A 192.0.2.1\n"),
        ("generic-rdata", "a.ex.test. 300 IN A \\# 4 c0000201\n"),
        ("lower-case-$origin", "$origin ex.test.\na 300 IN A 192.0.2.1\n"),
        ("lower-case-$ttl", "$ttl 300\na.ex.test. IN A 192.0.2.1\n"),
        ("csync-lower-case-types", "a.ex.test. 300 IN CSYNC 1 3 a ns\n"),
    ] {
        push(cls.to_string(), text.to_string(), o.clone(), Want::Observe);
    }
    // a <character-string> holds at most 255 octets (RFC 1035 3.3): 256 cannot be encoded
    for q in [false, true] {
        let s = "x".repeat(256);
        let s = if q { format!("\"{s}\"") } else { s };
        push("character-string-of-256-octets:TXT".into(), format!("a.ex.test. 300 IN TXT {s}\n"), o.clone(), Want::Reject);
        push("character-string-of-256-octets:TXT".into(), format!("a.ex.test. 300 IN TXT short {s}\n"), o.clone(), Want::Reject);
        push("character-string-of-256-octets:HINFO".into(), format!("a.ex.test. 300 IN HINFO {s} os\n"), o.clone(), Want::Reject);
        push("character-string-of-256-octets:HINFO".into(), format!("a.ex.test. 300 IN HINFO cpu {s}\n"), o.clone(), Want::Reject);
        push("character-string-of-256-octets:NAPTR".into(), format!("a.ex.test. 300 IN NAPTR 1 2 a {s} \"\" .\n"), o.clone(), Want::Reject);
        push("character-string-of-256-octets:NAPTR".into(), format!("a.ex.test. 300 IN NAPTR 1 2 a b {s} .\n"), o.clone(), Want::Reject);
    }
    // directives
    for (scene, text) in [
        ("unknown-directive", "$GENERATE 1-2 a$ A 192.0.2.1\n"),
        ("$TTL-without-argument", "$TTL\na.ex.test. IN A 192.0.2.1\n"),
        ("$TTL-not-a-number", "$TTL x\na.ex.test. IN A 192.0.2.1\n"),
        ("$ORIGIN-without-argument", "$ORIGIN\na 300 IN A 192.0.2.1\n"),
        ("$INCLUDE-without-argument", "$INCLUDE\na.ex.test. 300 IN A 192.0.2.1\n"),
        ("$INCLUDE-relative-without-path", "$INCLUDE inc.zone\n"),
        ("empty-label", "a..ex.test. 300 IN A 192.0.2.1\n"),
        ("empty-label-in-rdata", "a.ex.test. 300 IN NS b..ex.test.\n"),
        ("carriage-return-without-newline", "a.ex.test. 300 IN A 192.0.2.1\rb.ex.test. 300 IN A 192.0.2.2\n"),
        ("control-character", "a.ex.test. 300 IN A 192.0.2.1\u{1}\n"),
    ] {
        push(scene.to_string(), text.to_string(), o.clone(), Want::Reject);
    }
}

// ------------------------------------------------------------------------------------------
// text-limits: CONTENT ALPHABET x LENGTH for every length-limited text field

/// (name, text written inside the field, octets it denotes, usable unquoted)
const UNITS: [(&str, &str, &[u8], bool); 7] = [
    ("ascii", "x", b"x", true),
    ("2-octet-utf8", "\u{e9}", "\u{e9}".as_bytes(), true),
    ("3-octet-utf8", "\u{20ac}", "\u{20ac}".as_bytes(), true),
    ("4-octet-utf8", "\u{1f980}", "\u{1f980}".as_bytes(), true),
    // RFC 1035 5.1: \DDD is the octet with DECIMAL value DDD: 4 characters, 1 octet
    ("DDD-escape", "\\200", &[200], false),
    ("escaped-quote", "\\\"", b"\"", false),
    ("escaped-backslash", "\\\\", b"\\", false),
];

/// Field text and content of exactly `octets` octets: as many units as fit, ASCII pad in front.
fn fill(unit: usize, octets: usize) -> (String, Vec<u8>) {
    let (_, text, bytes, _) = UNITS[unit];
    let n = octets / bytes.len();
    let pad = octets - n * bytes.len();
    let mut t = "p".repeat(pad);
    let mut b = vec![b'p'; pad];
    for _ in 0..n {
        t.push_str(text);
        b.extend_from_slice(bytes);
    }
    (t, b)
}

/// Every length-limited text field x content unit {1..4-octet characters, `\DDD`, `\"`, `\\`}
/// x OCTET length {254, 255, 256, 257} x quoted / unquoted. The limit counts OCTETS after
/// unescaping: within it the field loads to exactly those octets, beyond it the text is
/// malformed (Err). Labels: 62..65 octets with escaped dots (3 characters per 2 octets), names of
/// 254..257 octets whose text is longer than their octets; owner, RDATA name, `$ORIGIN` argument.
fn text_limits(w: &World, out: &mut Vec<ACase>) {
    use hickory_proto::rr::rdata::{CAA, HINFO, MX, NAPTR, TXT, A};
    use hickory_proto::rr::RData;
    let o = OriginArg::Fqdn(w.origin.clone());
    let owner = {
        let mut v = labels(&["a"]);
        v.extend(w.origin.clone());
        hname(&v)
    };
    let rec = |rd: RData| Record::from_rdata(owner.clone(), 300, rd);
    // field -> (limit in octets or None, builder of (rdata text, expected rdata) from (token text, content))
    type Build = Box<dyn Fn(&str, &[u8]) -> (String, RData)>;
    let bx = |b: &[u8]| b.to_vec().into_boxed_slice();
    let fields: Vec<(&str, Option<usize>, bool, Build)> = vec![
        ("TXT.single", Some(255), false, Box::new(|t, c| (format!("TXT {t}"), RData::TXT(TXT::from_bytes(vec![c]))))),
        ("TXT.last-of-three", Some(255), false, Box::new(|t, c| (format!("TXT s1 \"\" {t}"), RData::TXT(TXT::from_bytes(vec![b"s1", b"", c]))))),
        ("TXT.first-of-two", Some(255), false, Box::new(|t, c| (format!("TXT {t} s2"), RData::TXT(TXT::from_bytes(vec![c, b"s2"]))))),
        ("HINFO.cpu", Some(255), false, Box::new(move |t, c| (format!("HINFO {t} os"), RData::HINFO(HINFO::from_bytes(bx(c), bx(b"os")))))),
        ("HINFO.os", Some(255), false, Box::new(move |t, c| (format!("HINFO cpu {t}"), RData::HINFO(HINFO::from_bytes(bx(b"cpu"), bx(c)))))),
        // NAPTR flags: only [A-Za-z0-9] (ASCII unit only)
        ("NAPTR.flags", Some(255), true, Box::new(move |t, c| (format!("NAPTR 1 2 {t} s \"\" ."), RData::NAPTR(NAPTR::new(1, 2, bx(c), bx(b"s"), bx(b""), Name::root()))))),
        ("NAPTR.services", Some(255), false, Box::new(move |t, c| (format!("NAPTR 1 2 f {t} \"\" ."), RData::NAPTR(NAPTR::new(1, 2, bx(b"f"), bx(c), bx(b""), Name::root()))))),
        ("NAPTR.regexp", Some(255), false, Box::new(move |t, c| (format!("NAPTR 1 2 f s {t} ."), RData::NAPTR(NAPTR::new(1, 2, bx(b"f"), bx(b"s"), bx(c), Name::root()))))),
        // CAA value: not length-prefixed on the wire (RFC 8659 4.1: the rest of the RDATA): no 255 limit
        ("CAA.value", None, false, Box::new(|t, c| {
            let mut caa = CAA::new_issue(false, None, vec![]);
            caa.tag = "issue".into();
            caa.value = c.to_vec();
            (format!("CAA 0 issue {t}"), RData::CAA(caa))
        })),
        // CAA tag: one length octet, [a-z0-9] (ASCII unit only)
        ("CAA.tag", Some(255), true, Box::new(|t, c| {
            let mut caa = CAA::new_issue(false, None, vec![]);
            caa.tag = String::from_utf8_lossy(c).to_string();
            caa.value = b"v".to_vec();
            (format!("CAA 0 {t} v"), RData::CAA(caa))
        })),
    ];
    for (fname, limit, ascii_only, build) in &fields {
        for (u, (uname, _, _, unquotable)) in UNITS.iter().enumerate() {
            if *ascii_only && u != 0 {
                continue;
            }
            for octets in [254usize, 255, 256, 257] {
                let (text, content) = fill(u, octets);
                for quoted in [true, false] {
                    if !quoted && !*unquotable {
                        continue;
                    }
                    let tok = if quoted { format!("\"{text}\"") } else { text.clone() };
                    let (rd_text, rdata) = build(&tok, &content);
                    let within = limit.map(|l| octets <= l).unwrap_or(true);
                    out.push(ACase {
                        family: "text-limits",
                        scene: format!("{fname}:unit={uname}:{}", if within { "within-limit" } else { "beyond-limit" }),
                        text: format!("a.ex.test. 300 IN {rd_text}\n"),
                        origin: o.clone(),
                        want: if within { Want::Records(vec![rec(rdata)]) } else { Want::Reject },
                        files: vec![],
                    });
                }
            }
        }
    }
    // labels and names: escaped dots make the text longer than the octets
    let lab = |octets: usize, escaped: bool| -> (String, Vec<u8>) {
        if !escaped {
            return ("l".repeat(octets), vec![b'l'; octets]);
        }
        // "a" then "\.a" pairs; an odd remainder is padded with "a"
        let mut t = String::from("a");
        let mut b = vec![b'a'];
        while b.len() + 2 <= octets {
            t.push_str("\\.a");
            b.extend_from_slice(b".a");
        }
        while b.len() < octets {
            t.push('a');
            b.push(b'a');
        }
        (t, b)
    };
    let mut name_cases: Vec<(String, String, Vec<Vec<u8>>)> = vec![]; // (scene, absolute name text, labels)
    for escaped in [false, true] {
        let k = if escaped { "escaped-dot" } else { "ascii" };
        for octets in [62usize, 63, 64, 65] {
            let (t, b) = lab(octets, escaped);
            let mut ls = vec![b];
            ls.extend(w.origin.clone());
            name_cases.push((format!("label:unit={k}:{}", if octets <= 63 { "within-limit" } else { "beyond-limit" }), format!("{t}.ex.test."), ls));
        }
        // whole names: three labels of 63 + one of n octets + "ex.test." (9 with the root): 3*64 + (n+1) + 8 + 1
        for total in [254usize, 255, 256, 257] {
            let last = total - (3 * 64 + 8 + 1) - 1;
            let mut text = String::new();
            let mut ls = vec![];
            for _ in 0..3 {
                let (t, b) = lab(63, escaped);
                text.push_str(&t);
                text.push('.');
                ls.push(b);
            }
            let (t, b) = lab(last, escaped);
            text.push_str(&t);
            text.push_str(".ex.test.");
            ls.push(b);
            ls.extend(w.origin.clone());
            name_cases.push((format!("name:unit={k}:{}", if total <= 255 { "within-limit" } else { "beyond-limit" }), text, ls));
        }
    }
    for (scene, text, ls) in &name_cases {
        let within = scene.ends_with("within-limit");
        let valid_name = || hname(ls);
        // owner, absolute and relative to the origin
        for (form, t) in [("absolute", text.clone()), ("relative", text.trim_end_matches("ex.test.").trim_end_matches('.').to_string())] {
            out.push(ACase {
                family: "text-limits",
                scene: format!("owner.{form}:{scene}"),
                text: format!("{t} 300 IN A 192.0.2.1\n"),
                origin: o.clone(),
                want: if within { Want::Records(vec![Record::from_rdata(valid_name(), 300, RData::A(A::new(192, 0, 2, 1)))]) } else { Want::Reject },
                files: vec![],
            });
            out.push(ACase {
                family: "text-limits",
                scene: format!("rdata-name.{form}:{scene}"),
                text: format!("a.ex.test. 300 IN MX 1 {t}\n"),
                origin: o.clone(),
                want: if within { Want::Records(vec![rec(RData::MX(MX::new(1, valid_name())))]) } else { Want::Reject },
                files: vec![],
            });
        }
        // as the $ORIGIN argument, used by `@`
        out.push(ACase {
            family: "text-limits",
            scene: format!("$ORIGIN-argument:{scene}"),
            text: format!("$ORIGIN {text}\n@ 300 IN A 192.0.2.1\n"),
            origin: o.clone(),
            want: if within { Want::Records(vec![Record::from_rdata(valid_name(), 300, RData::A(A::new(192, 0, 2, 1)))]) } else { Want::Reject },
            files: vec![],
        });
    }
}

// ------------------------------------------------------------------------------------------

pub fn cases(w: &World, thorough: bool) -> Vec<ACase> {
    let mut out = vec![];
    paren_pos(w, &mut out);
    mnemonic_case(w, &mut out);
    value_forms(w, &mut out);
    origin_knob(w, &mut out);
    svc_params(w, &mut out);
    line_seq(w, if thorough { 4 } else { 3 }, &mut out);
    must_reject(w, &mut out);
    text_limits(w, &mut out);
    out
}

fn parse(text: &str, path: Option<&Path>, origin: Option<Name>) -> Result<Result<Vec<Record>, String>, vcore::PanicInfo> {
    catch(|| Parser::new(text.to_string(), path.map(|p| p.to_path_buf()), origin).parse())
        .map(|r| r.map(|(_o, m)| m.values().flat_map(|rs| rs.records_without_rrsigs().cloned().collect::<Vec<_>>()).collect::<Vec<_>>()).map_err(|e| e.to_string()))
}

/// Outcome of one case: None = as expected; Some((clause, what)) = violation of `audit:<family>:<clause>`.
fn outcome_of(c: &ACase, dir: &Path, l: &mut Local) -> Option<(String, String)> {
    let path: Option<PathBuf> = if c.files.is_empty() {
        None
    } else {
        for (n, b) in &c.files {
            std::fs::write(dir.join(n), b).expect("scratch write");
        }
        Some(dir.join("main.zone"))
    };
    let res = match parse(&c.text, path.as_deref(), c.origin.name()) {
        Err(p) => return Some((panic_key(&p), format!("parser panicked ({}): {}", c.family, p.msg))),
        Ok(r) => r,
    };
    match (&c.want, res) {
        (Want::Records(want), Ok(got)) => {
            let w: Vec<&Record> = want.iter().collect();
            if same_set(&got, &w) {
                l.outcome(&format!("audit:{}:ok", c.family));
                l.nontrivial(fnv64(c.text.as_bytes()));
                None
            } else {
                Some(("records-differ".into(), format!("loaded [{}], denoted [{}]", show(&got), show(want))))
            }
        }
        (Want::Records(_), Err(e)) => Some(("rejected".into(), format!("valid file rejected: {e}"))),
        (Want::Reject, Err(_)) => {
            l.outcome("audit:must-reject:rejected");
            l.nontrivial(fnv64(c.text.as_bytes()));
            None
        }
        (Want::Reject, Ok(got)) => Some(("accepted".into(), format!("malformed text accepted, loaded [{}]", show(&got)))),
        (Want::Observe, Ok(_)) => {
            l.outcome(&format!("obs:{}:accepted", c.scene.split(':').next().unwrap_or("")));
            None
        }
        (Want::Observe, Err(_)) => {
            l.outcome(&format!("obs:{}:rejected", c.scene.split(':').next().unwrap_or("")));
            None
        }
    }
}

/// Run case `i`. A violation in one of the per-shape families (scene `<TYPE>:<variant>`) that
/// the plain A record shows under the same variant too does not depend on the type: its key
/// names the variant only.
pub fn run_case(i: usize, cs: &[ACase], dir: &Path, l: &mut Local) {
    let c = &cs[i];
    l.eval();
    let Some((clause, what)) = outcome_of(c, dir, l) else { return };
    let case = || json!({"kind": "audit", "family": c.family, "index": i, "scene": c.scene, "text": c.text, "origin": format!("{:?}", c.origin.name().map(|n| n.to_string())), "files": c.files});
    if clause.starts_with("panic:") {
        l.violation(&clause, &what, case);
        return;
    }
    let mut scene = c.scene.clone();
    if matches!(c.family, "paren-pos" | "mnemonic-case" | "value-forms") {
        if let Some((ty, variant)) = c.scene.split_once(':') {
            if ty != "A" {
                let plain = format!("A:{variant}");
                if let Some(a) = cs.iter().find(|x| x.family == c.family && x.scene == plain) {
                    let mut scratch = Local::default();
                    if matches!(outcome_of(a, dir, &mut scratch), Some((cl, _)) if cl == clause) {
                        scene = format!("any-type:{variant}");
                    }
                }
            }
        }
    }
    l.violation(&format!("audit:{}:{}:{}", c.family, clause, scene), &what, case);
}

pub fn run(ctx: &Ctx, w: &World, base: &Path, thorough: bool) -> u64 {
    let cs = cases(w, thorough);
    let mut per_family: std::collections::BTreeMap<&str, u64> = Default::default();
    for c in &cs {
        *per_family.entry(c.family).or_insert(0) += 1;
    }
    ctx.set("audit_family_cases", json!(per_family));
    ctx.par_run_init(
        cs.len() as u64,
        64,
        |wk| {
            let d = base.join(format!("a{wk}"));
            std::fs::create_dir_all(&d).expect("scratch dir");
            d
        },
        |i, l, dir| {
            if i % 64 == 0 {
                ctx.watch(l.worker, || json!({"kind": "audit", "index": i}).to_string());
            }
            run_case(i as usize, &cs, dir, l);
        },
    );
    for f in ["paren-pos", "mnemonic-case", "value-forms", "origin-knob", "svc-params", "line-seq", "text-limits"] {
        if ctx.outcome_count(&format!("audit:{f}:ok")) == 0 {
            ctx.machinery_failure(&format!("vacuous: audit family {f} has no accepted file"));
        }
    }
    if ctx.outcome_count("audit:must-reject:rejected") == 0 {
        ctx.machinery_failure("vacuous: no malformed text was rejected");
    }
    cs.len() as u64
}

pub fn replay(w: &World, case: &Value, l: &mut Local) {
    let cs = cases(w, true);
    let i = case["index"].as_u64().unwrap_or(0) as usize;
    // the quick list is a sub-list with other indices: find the case by family + text
    let fam = case["family"].as_str().unwrap_or("");
    let text = case["text"].as_str().unwrap_or("");
    let found = cs.iter().position(|c| c.family == fam && c.text == text).or(if i < cs.len() { Some(i) } else { None });
    if let Some(i) = found {
        let dir = crate::malformed::scratch_dir();
        let _ = std::fs::create_dir_all(&dir);
        eprintln!("replay audit case {} ({}):\n{}", i, cs[i].scene, cs[i].text);
        run_case(i, &cs, &dir, l);
        let _ = std::fs::remove_dir_all(&dir);
    }
}
