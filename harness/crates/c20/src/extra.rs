//! Extension families of the valid direction that do not fit the layout enumerator:
//! names at the 63-octet label / 255-octet name limits, written relative to long origins.

use hickory_proto::rr::rdata::{ANAME, CNAME, HTTPS, MX, NAPTR, NS, PTR, SOA, SRV, SVCB, A};
use hickory_proto::rr::{RData, Record};
use hickory_proto::serialize::txt::Parser;
use serde_json::json;
use vcore::{catch, fnv64, Ctx};
use vref::masterfile::{print_file, Field, Labels, Rec, D_OWNER, D_RDNAMES, NDIMS};

use crate::alphabet::{hname, labels, Entry};
use crate::panic_key;
use crate::valid::{judge_text, Verdict, World};

fn wire_len(n: &Labels) -> usize {
    n.iter().map(|l| l.len() + 1).sum::<usize>() + 1
}

fn name_ok(n: &Labels) -> bool {
    wire_len(n) <= 255 && n.iter().all(|l| !l.is_empty() && l.len() <= 63)
}

const POSITIONS: [&str; 13] = ["owner", "CNAME", "NS", "PTR", "ANAME", "MX", "SOA.mname", "SOA.rname", "SRV", "NAPTR", "SVCB", "HTTPS", "owner+MX"];

/// The record that carries `name` at `position` (owner `own` otherwise); RDATA only if constructible.
fn record_for(position: &str, name: &Labels, own: &Labels, other: &Labels) -> (Rec, Option<Record>) {
    use Field::*;
    let valid = name_ok(name);
    let hn = || hname(name);
    let (owner, rtype, fields, rdata): (Labels, &'static str, Vec<Field>, Option<RData>) = match position {
        "owner" => (name.clone(), "A", vec![Lit("192.0.2.1".into())], Some(RData::A(A::new(192, 0, 2, 1)))),
        "CNAME" => (own.clone(), "CNAME", vec![Name(name.clone())], valid.then(|| RData::CNAME(CNAME(hn())))),
        "NS" => (own.clone(), "NS", vec![Name(name.clone())], valid.then(|| RData::NS(NS(hn())))),
        "PTR" => (own.clone(), "PTR", vec![Name(name.clone())], valid.then(|| RData::PTR(PTR(hn())))),
        "ANAME" => (own.clone(), "ANAME", vec![Name(name.clone())], valid.then(|| RData::ANAME(ANAME(hn())))),
        "MX" => (own.clone(), "MX", vec![Int(10), Name(name.clone())], valid.then(|| RData::MX(MX::new(10, hn())))),
        "owner+MX" => (name.clone(), "MX", vec![Int(10), Name(name.clone())], valid.then(|| RData::MX(MX::new(10, hn())))),
        "SOA.mname" => (
            own.clone(),
            "SOA",
            vec![Name(name.clone()), Name(other.clone()), Int(1), Int(2), Int(3), Int(4), Int(5)],
            valid.then(|| RData::SOA(SOA::new(hn(), hname(other), 1, 2, 3, 4, 5))),
        ),
        "SOA.rname" => (
            own.clone(),
            "SOA",
            vec![Name(other.clone()), Name(name.clone()), Int(1), Int(2), Int(3), Int(4), Int(5)],
            valid.then(|| RData::SOA(SOA::new(hname(other), hn(), 1, 2, 3, 4, 5))),
        ),
        "SRV" => (own.clone(), "SRV", vec![Int(1), Int(2), Int(3), Name(name.clone())], valid.then(|| RData::SRV(SRV::new(1, 2, 3, hn())))),
        "NAPTR" => (
            own.clone(),
            "NAPTR",
            vec![Int(1), Int(2), Str(b"s".to_vec()), Str(b"x".to_vec()), Str(vec![]), Name(name.clone())],
            valid.then(|| RData::NAPTR(NAPTR::new(1, 2, b"s".to_vec().into(), b"x".to_vec().into(), vec![].into(), hn()))),
        ),
        "SVCB" => (own.clone(), "SVCB", vec![Int(0), Name(name.clone())], valid.then(|| RData::SVCB(SVCB::new(0, hn(), vec![])))),
        "HTTPS" => (own.clone(), "HTTPS", vec![Int(0), Name(name.clone())], valid.then(|| RData::HTTPS(HTTPS(SVCB::new(0, hn(), vec![]))))),
        _ => unreachable!(),
    };
    let owner_valid = name_ok(&owner);
    let rec = Rec { owner: owner.clone(), ttl: 300, class: "IN", rtype, rdata: fields };
    let expect = match (owner_valid, rdata) {
        (true, Some(rd)) => Some(Record::from_rdata(hname(&owner), 300, rd)),
        _ => None,
    };
    (rec, expect)
}

/// Names at the limits: origins of 9 / 129 / 193 / 253 octets x relative parts that bring the full
/// name to 253..257 octets or a label to 62..64 octets x every name position x relative / absolute.
/// Oracle: a name within the limits loads exactly; a name beyond them is rejected (Err), no panic.
pub fn name_limits(ctx: &Ctx) -> u64 {
    let lab = |c: u8, n: usize| vec![c; n];
    let origins: Vec<Labels> = vec![
        labels(&["ex", "test"]),
        vec![lab(b'o', 63), lab(b'p', 63)],
        vec![lab(b'o', 63), lab(b'p', 63), lab(b'q', 63)],
        vec![lab(b'o', 63), lab(b'p', 63), lab(b'q', 63), lab(b'r', 59)],
    ];
    // (origin index, relative labels)
    let mut cases: Vec<(usize, Labels)> = vec![];
    for (oi, o) in origins.iter().enumerate() {
        let ow = wire_len(o);
        for total in [253usize, 254, 255, 256, 257] {
            for k in 1..=3usize {
                let Some(rel_wire) = total.checked_sub(ow) else { continue };
                if rel_wire < 2 * k {
                    continue;
                }
                let big = rel_wire - 2 * (k - 1) - 1;
                // the long label first, in the middle, last
                for pos in 0..k {
                    let mut rel: Labels = vec![];
                    for i in 0..k {
                        rel.push(if i == pos { lab(b'x', big) } else { lab(b'y', 1) });
                    }
                    cases.push((oi, rel));
                }
            }
        }
        for len in [1usize, 62, 63, 64, 65] {
            cases.push((oi, vec![lab(b'z', len)]));
            cases.push((oi, vec![lab(b'w', 1), lab(b'z', len)]));
        }
    }
    cases.sort();
    cases.dedup();
    let n = (cases.len() * POSITIONS.len() * 2) as u64;
    ctx.par_run(n, 16, |i, l| {
        let i = i as usize;
        let (oi, rel) = &cases[i / (POSITIONS.len() * 2)];
        let position = POSITIONS[i / 2 % POSITIONS.len()];
        let relative_form = i % 2 == 1;
        let origin = &origins[*oi];
        let mut name = rel.clone();
        name.extend(origin.iter().cloned());
        let mut own = labels(&["own"]);
        own.extend(labels(&["ex", "test"]));
        let other = labels(&["h", "other"]);
        // hickory's own constructors build the reference value: they must accept every name within the limits
        let (rec, expect) = match catch(|| record_for(position, &name, &own, &other)) {
            Ok(x) => x,
            Err(pi) => {
                l.eval();
                l.violation(
                    "limits:name-constructor-refuses-name-within-limits",
                    &format!("Name::from_labels refused a name of {} octets (labels {:?}): {}", wire_len(&name), name.iter().map(|x| x.len()).collect::<Vec<_>>(), pi.msg),
                    || json!({"kind": "text", "family": "name-limits", "text": "", "name_wire_len": wire_len(&name), "position": position}),
                );
                return;
            }
        };
        let mut lay = [0u8; NDIMS];
        if relative_form {
            if position.starts_with("owner") {
                lay[D_OWNER] = 1;
            }
            if position != "owner" {
                lay[D_RDNAMES] = 1;
            }
        }
        let Some(p) = print_file(origin, &[], &[&rec], &[0, 0, 0], &[lay]) else { return };
        l.eval();
        let w = World { origin: origin.clone(), alts: vec![], horigin: hname(origin) };
        let form = if relative_form { "relative" } else { "absolute" };
        let case = || {
            json!({"kind": "text", "family": "name-limits", "origin_wire_len": wire_len(origin), "name_wire_len": wire_len(&name),
                   "label_lens": name.iter().map(|x| x.len()).collect::<Vec<_>>(), "position": position, "form": form,
                   "text": p.text, "origin": String::from_utf8_lossy(&origin.join(&b'.')).to_string()})
        };
        l.nontrivial(fnv64(p.text.as_bytes()));
        match expect {
            Some(exp) => {
                let e = Entry { rec: rec.clone(), expect: exp, tag: format!("limits {position}") };
                match judge_text(&w, &[&e], &p.text, false, origin, true, l) {
                    Verdict::Ok => l.outcome("limits:within:loaded-exactly"),
                    Verdict::Viol { clause, what } => {
                        let key = if clause.starts_with("panic:") { clause } else { format!("limits:{}:{position}:{form}", clause.trim_start_matches("valid:")) };
                        l.violation(&key, &format!("name of {} octets within the limits: {what}", wire_len(&name)), case)
                    }
                    _ => {}
                }
            }
            None => {
                let res = catch(|| Parser::new(p.text.clone(), None, Some(w.horigin.clone())).parse());
                match res {
                    Err(pi) => l.violation(&panic_key(&pi), &format!("panic on an over-long name: {}", pi.msg), case),
                    Ok(Err(_)) => l.outcome("limits:beyond:rejected"),
                    Ok(Ok(_)) => l.violation(
                        &format!("limits:beyond-accepted:{position}:{form}"),
                        &format!("a name of {} octets (labels {:?}) was accepted", wire_len(&name), name.iter().map(|x| x.len()).collect::<Vec<_>>()),
                        case,
                    ),
                }
            }
        }
    });
    n
}
