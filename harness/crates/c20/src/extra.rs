//! Extension families of the valid direction that do not fit the layout enumerator:
//! names at the 63-octet label / 255-octet name limits, written relative to long origins.

use hickory_proto::rr::rdata::{ANAME, CNAME, HTTPS, MX, NAPTR, NS, PTR, SOA, SRV, SVCB, A};
use hickory_proto::rr::{RData, Record};
use hickory_proto::serialize::txt::Parser;
use serde_json::json;
use vcore::{catch, fnv64, Ctx, Local};
use vref::masterfile::{print_file, Field, Labels, Rec, D_OWNER, D_RDNAMES, NDIMS};

use crate::alphabet::{hname, labels, Entry};
use crate::panic_key;
use crate::valid::{judge_text, Verdict, World};

fn wire_len(n: &Labels) -> usize {
    n.iter().map(|l| l.len() + 1).sum::<usize>() + 1
}

fn name_ok(n: &Labels) -> bool {
    wire_len(n) <= 255 && n.iter().all(|l| !l.is_empty() && l.len() <= 63)
}

const POSITIONS: [&str; 13] = ["owner", "CNAME", "NS", "PTR", "ANAME", "MX", "SOA.mname", "SOA.rname", "SRV", "NAPTR", "SVCB", "HTTPS", "owner+MX"];

/// The record that carries `name` at `position` (owner `own` otherwise); RDATA only if constructible.
fn record_for(position: &str, name: &Labels, own: &Labels, other: &Labels) -> (Rec, Option<Record>) {
    use Field::*;
    let valid = name_ok(name);
    let hn = || hname(name);
    let (owner, rtype, fields, rdata): (Labels, &'static str, Vec<Field>, Option<RData>) = match position {
        "owner" => (name.clone(), "A", vec![Lit("192.0.2.1".into())], Some(RData::A(A::new(192, 0, 2, 1)))),
        "CNAME" => (own.clone(), "CNAME", vec![Name(name.clone())], valid.then(|| RData::CNAME(CNAME(hn())))),
        "NS" => (own.clone(), "NS", vec![Name(name.clone())], valid.then(|| RData::NS(NS(hn())))),
        "PTR" => (own.clone(), "PTR", vec![Name(name.clone())], valid.then(|| RData::PTR(PTR(hn())))),
        "ANAME" => (own.clone(), "ANAME", vec![Name(name.clone())], valid.then(|| RData::ANAME(ANAME(hn())))),
        "MX" => (own.clone(), "MX", vec![Int(10), Name(name.clone())], valid.then(|| RData::MX(MX::new(10, hn())))),
        "owner+MX" => (name.clone(), "MX", vec![Int(10), Name(name.clone())], valid.then(|| RData::MX(MX::new(10, hn())))),
        "SOA.mname" => (
            own.clone(),
            "SOA",
            vec![Name(name.clone()), Name(other.clone()), Int(1), Int(2), Int(3), Int(4), Int(5)],
            valid.then(|| RData::SOA(SOA::new(hn(), hname(other), 1, 2, 3, 4, 5))),
        ),
        "SOA.rname" => (
            own.clone(),
            "SOA",
            vec![Name(other.clone()), Name(name.clone()), Int(1), Int(2), Int(3), Int(4), Int(5)],
            valid.then(|| RData::SOA(SOA::new(hname(other), hn(), 1, 2, 3, 4, 5))),
        ),
        "SRV" => (own.clone(), "SRV", vec![Int(1), Int(2), Int(3), Name(name.clone())], valid.then(|| RData::SRV(SRV::new(1, 2, 3, hn())))),
        "NAPTR" => (
            own.clone(),
            "NAPTR",
            vec![Int(1), Int(2), Str(b"s".to_vec()), Str(b"x".to_vec()), Str(vec![]), Name(name.clone())],
            valid.then(|| RData::NAPTR(NAPTR::new(1, 2, b"s".to_vec().into(), b"x".to_vec().into(), vec![].into(), hn()))),
        ),
        "SVCB" => (own.clone(), "SVCB", vec![Int(0), Name(name.clone())], valid.then(|| RData::SVCB(SVCB::new(0, hn(), vec![])))),
        "HTTPS" => (own.clone(), "HTTPS", vec![Int(0), Name(name.clone())], valid.then(|| RData::HTTPS(HTTPS(SVCB::new(0, hn(), vec![]))))),
        _ => unreachable!(),
    };
    let owner_valid = name_ok(&owner);
    let rec = Rec { owner: owner.clone(), ttl: 300, class: "IN", rtype, rdata: fields };
    let expect = match (owner_valid, rdata) {
        (true, Some(rd)) => Some(Record::from_rdata(hname(&owner), 300, rd)),
        _ => None,
    };
    (rec, expect)
}

/// Names at the limits: origins of 9 / 129 / 193 / 253 octets x relative parts that bring the full
/// name to 253..257 octets or a label to 62..64 octets x every name position x relative / absolute.
/// Oracle: a name within the limits loads exactly; a name beyond them is rejected (Err), no panic.
pub fn name_limits(ctx: &Ctx) -> u64 {
    let lab = |c: u8, n: usize| vec![c; n];
    let origins: Vec<Labels> = vec![
        labels(&["ex", "test"]),
        vec![lab(b'o', 63), lab(b'p', 63)],
        vec![lab(b'o', 63), lab(b'p', 63), lab(b'q', 63)],
        vec![lab(b'o', 63), lab(b'p', 63), lab(b'q', 63), lab(b'r', 59)],
    ];
    // (origin index, relative labels)
    let mut cases: Vec<(usize, Labels)> = vec![];
    for (oi, o) in origins.iter().enumerate() {
        let ow = wire_len(o);
        for total in [253usize, 254, 255, 256, 257] {
            for k in 1..=3usize {
                let Some(rel_wire) = total.checked_sub(ow) else { continue };
                if rel_wire < 2 * k {
                    continue;
                }
                let big = rel_wire - 2 * (k - 1) - 1;
                // the long label first, in the middle, last
                for pos in 0..k {
                    let mut rel: Labels = vec![];
                    for i in 0..k {
                        rel.push(if i == pos { lab(b'x', big) } else { lab(b'y', 1) });
                    }
                    cases.push((oi, rel));
                }
            }
        }
        for len in [1usize, 62, 63, 64, 65] {
            cases.push((oi, vec![lab(b'z', len)]));
            cases.push((oi, vec![lab(b'w', 1), lab(b'z', len)]));
        }
    }
    cases.sort();
    cases.dedup();
    let n = (cases.len() * POSITIONS.len() * 2) as u64;
    ctx.par_run(n, 16, |i, l| {
        let i = i as usize;
        let (oi, rel) = &cases[i / (POSITIONS.len() * 2)];
        let position = POSITIONS[i / 2 % POSITIONS.len()];
        let relative_form = i % 2 == 1;
        let origin = &origins[*oi];
        let mut name = rel.clone();
        name.extend(origin.iter().cloned());
        let mut own = labels(&["own"]);
        own.extend(labels(&["ex", "test"]));
        let other = labels(&["h", "other"]);
        // hickory's own constructors build the reference value: they must accept every name within the limits
        let (rec, expect) = match catch(|| record_for(position, &name, &own, &other)) {
            Ok(x) => x,
            Err(pi) => {
                l.eval();
                l.violation(
                    "limits:name-constructor-refuses-name-within-limits",
                    &format!("Name::from_labels refused a name of {} octets (labels {:?}): {}", wire_len(&name), name.iter().map(|x| x.len()).collect::<Vec<_>>(), pi.msg),
                    || json!({"kind": "text", "family": "name-limits", "text": "", "name_wire_len": wire_len(&name), "position": position}),
                );
                return;
            }
        };
        let mut lay = [0u8; NDIMS];
        if relative_form {
            if position.starts_with("owner") {
                lay[D_OWNER] = 1;
            }
            if position != "owner" {
                lay[D_RDNAMES] = 1;
            }
        }
        let Some(p) = print_file(origin, &[], &[&rec], &[0, 0, 0], &[lay]) else { return };
        l.eval();
        let w = World { origin: origin.clone(), alts: vec![], horigin: hname(origin) };
        let form = if relative_form { "relative" } else { "absolute" };
        let case = || {
            json!({"kind": "text", "family": "name-limits", "origin_wire_len": wire_len(origin), "name_wire_len": wire_len(&name),
                   "label_lens": name.iter().map(|x| x.len()).collect::<Vec<_>>(), "position": position, "form": form,
                   "text": p.text, "origin": String::from_utf8_lossy(&origin.join(&b'.')).to_string()})
        };
        l.nontrivial(fnv64(p.text.as_bytes()));
        match expect {
            Some(exp) => {
                let e = Entry { rec: rec.clone(), expect: exp, tag: format!("limits {position}") };
                match judge_text(&w, &[&e], &p.text, false, origin, true, l) {
                    Verdict::Ok => l.outcome("limits:within:loaded-exactly"),
                    Verdict::Viol { clause, what } => {
                        let key = if clause.starts_with("panic:") { clause } else { format!("limits:{}:{position}:{form}", clause.trim_start_matches("valid:")) };
                        l.violation(&key, &format!("name of {} octets within the limits: {what}", wire_len(&name)), case)
                    }
                    _ => {}
                }
            }
            None => {
                let res = catch(|| Parser::new(p.text.clone(), None, Some(w.horigin.clone())).parse());
                match res {
                    Err(pi) => l.violation(&panic_key(&pi), &format!("panic on an over-long name: {}", pi.msg), case),
                    Ok(Err(_)) => l.outcome("limits:beyond:rejected"),
                    Ok(Ok(_)) => l.violation(
                        &format!("limits:beyond-accepted:{position}:{form}"),
                        &format!("a name of {} octets (labels {:?}) was accepted", wire_len(&name), name.iter().map(|x| x.len()).collect::<Vec<_>>()),
                        case,
                    ),
                }
            }
        }
    });
    n
}

// ------------------------------------------------------------------------------------------
// token-splitting dimension: a trailing hex / base64 blob written as several tokens

const SEPS: [(&str, &str); 4] = [("space", " "), ("tab", "\t"), ("newline", "\n"), ("comment+newline", " ; c ( \"\n\t")];

fn split_text(prefix: &str, blob: &str, cuts: &[usize], seps: &[usize]) -> String {
    let multiline = seps.iter().any(|s| *s >= 2);
    let mut t = String::with_capacity(prefix.len() + blob.len() + 16);
    t.push_str(prefix);
    if multiline {
        t.push_str("( ");
    }
    let mut start = 0;
    for (i, c) in cuts.iter().enumerate() {
        t.push_str(&blob[start..*c]);
        t.push_str(SEPS[seps[i]].1);
        start = *c;
    }
    t.push_str(&blob[start..]);
    if multiline {
        t.push_str(" )");
    }
    t.push('\n');
    t
}

fn chunk_classes(enc: &str, blob_len: usize, cuts: &[usize]) -> String {
    let mut lens = vec![];
    let mut start = 0;
    for c in cuts {
        lens.push(c - start);
        start = *c;
    }
    lens.push(blob_len - start);
    if enc == "hex" {
        lens.iter().map(|l| if l % 2 == 0 { "even" } else { "odd" }).collect::<Vec<_>>().join("+")
    } else {
        lens.iter().map(|l| (l % 4).to_string()).collect::<Vec<_>>().join("+")
    }
}

struct BlobCase<'a> {
    e: &'a Entry,
    enc: &'static str,
    judged: bool,
    prefix: String,
    blob: String,
}

fn blob_case<'a>(w: &World, e: &'a Entry) -> BlobCase<'a> {
    let (enc, judged) = match crate::alphabet::SPLITTABLE.iter().find(|(t, _)| *t == e.rec.rtype) {
        Some((_, enc)) => (*enc, true),
        None => (crate::alphabet::SPLIT_OBSERVED.iter().find(|(t, _)| *t == e.rec.rtype).expect("blob type").1, false),
    };
    let blob = match e.rec.rdata.last() {
        Some(Field::Lit(s)) => s.clone(),
        _ => unreachable!("blob entries end in a literal"),
    };
    let p = print_file(&w.origin, &w.alts, &[&e.rec], &[0, 0, 0], &[[0; NDIMS]]).expect("plain layout");
    let prefix = p.text[..p.text.len() - 1 - blob.len()].to_string();
    BlobCase { e, enc, judged, prefix, blob }
}

/// Judge one split; Some((clause, what)) on a violation of a judged type.
fn run_split(w: &World, c: &BlobCase<'_>, cuts: &[usize], seps: &[usize], l: &mut Local) -> Option<(String, String)> {
    let text = split_text(&c.prefix, &c.blob, cuts, seps);
    match judge_text(w, &[c.e], &text, false, &w.origin, true, l) {
        Verdict::Ok => None,
        Verdict::Viol { clause, what } => Some((clause, what)),
        _ => None,
    }
}

/// Every way to write the trailing blob as 2 (and 3) tokens: a cut at EVERY character position
/// (pair of positions) x every separator {space, tab, newline inside parentheses, comment +
/// newline inside parentheses}. Oracle: the split file loads to the same record as the un-split
/// one (= the reference record). Judged for the types whose RFC allows white space in the field
/// (`SPLITTABLE`); for SSHFP and OPENPGPKEY the outcome is only counted.
pub fn blob_splits(ctx: &Ctx, w: &World, thorough: bool) -> u64 {
    let (entries, regular) = crate::alphabet::blob_entries();
    let used = if thorough { entries.len() } else { regular };
    let cases: Vec<BlobCase<'_>> = entries[..used].iter().map(|e| blob_case(w, e)).collect();
    // work items: (case, tokens, first cut)
    let mut items: Vec<(usize, usize, usize)> = vec![];
    for (ci, c) in cases.iter().enumerate() {
        let len = c.blob.len();
        for p1 in 1..len {
            items.push((ci, 2, p1));
            let three = c.judged && (thorough || (matches!(c.e.rec.rtype, "TLSA" | "DS") && len <= 128));
            if three && p1 + 1 < len {
                items.push((ci, 3, p1));
            }
        }
    }
    let total = std::sync::atomic::AtomicU64::new(0);
    ctx.par_run(items.len() as u64, 8, |i, l| {
        let (ci, k, p1) = items[i as usize];
        let c = &cases[ci];
        let len = c.blob.len();
        let ty = c.e.rec.rtype;
        let mut n = 0u64;
        let mut one = |cuts: &[usize], seps: &[usize], l: &mut Local| {
            n += 1;
            l.eval();
            if !c.judged {
                let text = split_text(&c.prefix, &c.blob, cuts, seps);
                let v = judge_text(w, &[c.e], &text, false, &w.origin, true, l);
                let cls = match v {
                    Verdict::Ok => "accepted-equal".to_string(),
                    Verdict::Viol { clause, .. } if clause.starts_with("panic:") => {
                        l.violation(&clause, "panic on a split blob", || json!({"kind": "text", "family": "blob-split", "text": text, "with_origin": true}));
                        return;
                    }
                    Verdict::Viol { clause, .. } => clause.trim_start_matches("valid:").to_string(),
                    _ => "other".to_string(),
                };
                l.outcome(&format!("obs:blob-split:{ty}:{cls}"));
                return;
            }
            match run_split(w, c, cuts, seps, l) {
                None => {
                    l.outcome("blob-split:ok");
                    l.nontrivial(vcore::fnv64(format!("{ty}{len}{cuts:?}{seps:?}").as_bytes()));
                }
                Some((clause, what)) => {
                    let case = |cuts: &[usize], seps: &[usize]| {
                        json!({"kind": "blob-split", "entry": ci, "tag": c.e.tag, "cuts": cuts, "separators": seps.iter().map(|s| SEPS[*s].0).collect::<Vec<_>>(), "seps": seps,
                               "text": split_text(&c.prefix, &c.blob, cuts, seps)})
                    };
                    if clause.starts_with("panic:") {
                        l.violation(&clause, &what, || case(cuts, seps));
                        return;
                    }
                    // reduce: fewer tokens, plain separators (same clause family)
                    let fam = clause.split('.').next().unwrap().to_string();
                    let mut scratch = Local::default();
                    let mut still = |cu: &[usize], se: &[usize]| matches!(run_split(w, c, cu, se, &mut scratch), Some((cl, _)) if cl.split('.').next().unwrap() == fam);
                    let (mut cu, mut se) = (cuts.to_vec(), seps.to_vec());
                    if cu.len() == 2 {
                        for drop in 0..2 {
                            let (mut c2, mut s2) = (cu.clone(), se.clone());
                            c2.remove(drop);
                            s2.remove(drop);
                            if still(&c2, &s2) {
                                cu = c2;
                                se = s2;
                                break;
                            }
                        }
                    }
                    for j in 0..se.len() {
                        for v in 0..se[j] {
                            let mut s2 = se.clone();
                            s2[j] = v;
                            if still(&cu, &s2) {
                                se = s2;
                                break;
                            }
                        }
                    }
                    let sepnote: Vec<&str> = se.iter().filter(|s| **s != 0).map(|s| SEPS[*s].0).collect();
                    let key = format!(
                        "valid:blob-split:{}:{ty}:{}-chunks={}{}",
                        fam.trim_start_matches("valid:"),
                        c.enc,
                        chunk_classes(c.enc, len, &cu),
                        if sepnote.is_empty() { String::new() } else { format!(",sep={}", sepnote.join("+")) }
                    );
                    l.violation(&key, &format!("trailing {} field written as {} tokens: {what}", c.enc, cu.len() + 1), || case(&cu, &se));
                }
            }
        };
        if i % 8 == 0 {
            ctx.watch(l.worker, || json!({"kind": "blob-split", "entry": ci, "cuts": [p1], "seps": [0]}).to_string());
        }
        if k == 2 {
            for s in 0..SEPS.len() {
                one(&[p1], &[s], l);
            }
        } else {
            for p2 in p1 + 1..len {
                for s1 in 0..SEPS.len() {
                    for s2 in 0..SEPS.len() {
                        one(&[p1, p2], &[s1, s2], l);
                    }
                }
            }
        }
        total.fetch_add(n, std::sync::atomic::Ordering::Relaxed);
    });
    total.into_inner()
}

pub fn replay_blob_split(w: &World, case: &serde_json::Value, l: &mut Local) {
    let (entries, _) = crate::alphabet::blob_entries();
    let Some(e) = entries.get(case["entry"].as_u64().unwrap_or(0) as usize) else { return };
    let c = blob_case(w, e);
    let cuts: Vec<usize> = case["cuts"].as_array().map(|a| a.iter().map(|x| x.as_u64().unwrap() as usize).collect()).unwrap_or_default();
    let seps: Vec<usize> = case["seps"].as_array().map(|a| a.iter().map(|x| x.as_u64().unwrap() as usize).collect()).unwrap_or_default();
    l.eval();
    eprintln!("replay text:\n{}", split_text(&c.prefix, &c.blob, &cuts, &seps));
    if let Some((clause, what)) = run_split(w, &c, &cuts, &seps, l) {
        let key = if clause.starts_with("panic:") {
            clause
        } else {
            format!(
                "valid:blob-split:{}:{}:{}-chunks={}{}",
                clause.split('.').next().unwrap().trim_start_matches("valid:"),
                e.rec.rtype,
                c.enc,
                chunk_classes(c.enc, c.blob.len(), &cuts),
                {
                    let n: Vec<&str> = seps.iter().filter(|s| **s != 0).map(|s| SEPS[*s].0).collect();
                    if n.is_empty() { String::new() } else { format!(",sep={}", n.join("+")) }
                }
            )
        };
        l.violation(&key, &what, || case.clone());
    }
}
