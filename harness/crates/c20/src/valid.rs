//! Valid direction: records -> independent printer under a layout vector -> hickory parser ->
//! the parsed record set must equal the records handed to the printer.

use std::sync::Mutex;

use hickory_proto::rr::{LowerName, Name, Record, RecordType};
use hickory_proto::serialize::txt::Parser;
use serde_json::{json, Value};
use vcore::{catch, fnv64, Local};
use vref::masterfile::{
    print_file, ttl_top_value, GlobalLayout, Labels, Printer, Rec, RecLayout, DIMS, D_BLANK, D_CLASS, D_COMMENT, D_ORDER,
    D_ORIGIN, D_OWNER, D_PARENS, D_RDNAMES, D_SEP, D_STRINGS, D_TTL, GDIMS, G_EOL, G_FINAL, G_TTLTOP, NDIMS, NGDIMS,
};

use crate::alphabet::{hname, Entry};
use crate::panic_key;

pub struct World {
    pub origin: Labels,
    pub alts: Vec<Labels>,
    pub horigin: Name,
}

impl World {
    pub fn new() -> World {
        let origin = crate::alphabet::origin();
        World { horigin: hname(&origin), origin, alts: crate::alphabet::alts() }
    }
}

/// Which values of every layout dimension are enumerated at one record position / file level.
#[derive(Clone)]
pub struct Profile {
    pub g: [Vec<u8>; NGDIMS],
    pub per: Vec<[Vec<u8>; NDIMS]>,
}

fn all(n: usize) -> Vec<u8> {
    (0..n as u8).collect()
}

impl Profile {
    /// Every value of every dimension (files of one record).
    pub fn full_single() -> Profile {
        let mut per: [Vec<u8>; NDIMS] = Default::default();
        for (d, (_, vals)) in DIMS.iter().enumerate() {
            per[d] = all(vals.len());
        }
        let mut g: [Vec<u8>; NGDIMS] = Default::default();
        for (d, (_, vals)) in GDIMS.iter().enumerate() {
            g[d] = all(vals.len());
        }
        Profile { g, per: vec![per] }
    }

    /// Files of two records: everything that carries state from one entry to the next.
    pub fn pair(thorough: bool) -> Profile {
        let mut r1: [Vec<u8>; NDIMS] = Default::default();
        r1[D_ORIGIN] = vec![0];
        r1[D_BLANK] = vec![0];
        r1[D_OWNER] = vec![0, 1, 2];
        r1[D_TTL] = vec![0, 1];
        r1[D_CLASS] = vec![0, 1];
        r1[D_ORDER] = vec![0, 1];
        r1[D_SEP] = vec![0];
        r1[D_COMMENT] = vec![0, 1, 3];
        r1[D_PARENS] = vec![0, 3];
        r1[D_STRINGS] = vec![0];
        r1[D_RDNAMES] = vec![0];
        let mut r2: [Vec<u8>; NDIMS] = Default::default();
        r2[D_ORIGIN] = vec![0, 2, 3];
        r2[D_BLANK] = vec![0, 1];
        r2[D_OWNER] = vec![0, 1, 2, 3];
        r2[D_TTL] = vec![0, 1, 2];
        r2[D_CLASS] = vec![0, 1];
        r2[D_ORDER] = vec![0, 1];
        r2[D_SEP] = if thorough { vec![0, 2] } else { vec![0] };
        r2[D_COMMENT] = if thorough { vec![0, 1] } else { vec![0] };
        r2[D_PARENS] = vec![0, 2];
        r2[D_STRINGS] = vec![0];
        r2[D_RDNAMES] = vec![0, 1];
        // the final-newline choice only concerns the last line: covered by the single-record files
        let _ = thorough;
        let g = [vec![0, 1], vec![0], vec![0, 1, 2]];
        Profile { g, per: vec![r1, r2] }
    }

    /// Files of three records: owner / TTL / class / origin chains only.
    pub fn triple() -> Profile {
        let mut r: [Vec<u8>; NDIMS] = Default::default();
        r[D_ORIGIN] = vec![0, 2, 3];
        r[D_BLANK] = vec![0];
        r[D_OWNER] = vec![0, 1, 2, 3];
        r[D_TTL] = vec![0, 1, 2];
        r[D_CLASS] = vec![0, 1];
        r[D_ORDER] = vec![0];
        r[D_SEP] = vec![0];
        r[D_COMMENT] = vec![0];
        r[D_PARENS] = vec![0];
        r[D_STRINGS] = vec![0];
        r[D_RDNAMES] = vec![0];
        let mut r1 = r.clone();
        r1[D_ORIGIN] = vec![0];
        r1[D_OWNER] = vec![0, 1, 2];
        let g = [vec![0], vec![0], vec![0, 1]];
        Profile { g, per: vec![r1, r.clone(), r] }
    }

    /// All dimensions plain except the listed ones: `per[k]` = [(dimension, values)] of record k.
    pub fn custom(g: [Vec<u8>; NGDIMS], per: &[&[(usize, &[u8])]]) -> Profile {
        let mut out = vec![];
        for spec in per {
            let mut r: [Vec<u8>; NDIMS] = Default::default();
            for d in 0..NDIMS {
                r[d] = vec![0];
            }
            for (d, vals) in spec.iter() {
                r[*d] = vals.to_vec();
            }
            out.push(r);
        }
        Profile { g, per: out }
    }

    /// Records sharing an RRset: inheritance forms only.
    pub fn rrset(n: usize) -> Profile {
        if n >= 3 {
            let first: &[(usize, &[u8])] = &[(D_OWNER, &[0, 1])];
            let next: &[(usize, &[u8])] = &[(D_OWNER, &[0, 3]), (D_TTL, &[0, 1]), (D_CLASS, &[0, 1])];
            let mut per = vec![first];
            for _ in 1..n {
                per.push(next);
            }
            return Profile::custom([vec![0], vec![0], vec![0]], &per);
        }
        let first: &[(usize, &[u8])] = &[(D_OWNER, &[0, 1]), (D_TTL, &[0, 1, 2]), (D_CLASS, &[0, 1])];
        // separators {space, tab, runs}: a TAB as the leading blank of an inherited owner
        let next: &[(usize, &[u8])] = &[(D_OWNER, &[0, 1, 3]), (D_TTL, &[0, 1, 2]), (D_CLASS, &[0, 1]), (D_SEP, &[0, 1, 2])];
        Profile::custom([vec![0], vec![0], vec![0, 1]], &[first, next])
    }

    /// One record of class CH / HS.
    pub fn class_sweep() -> Profile {
        let r: &[(usize, &[u8])] = &[(D_OWNER, &[0, 1]), (D_TTL, &[0, 1, 2]), (D_CLASS, &[0]), (D_ORDER, &[0, 1]), (D_SEP, &[0, 1]), (D_PARENS, &[0, 2])];
        Profile::custom([vec![0, 1], vec![0], vec![0, 1]], &[r])
    }

    /// Files of four records: owner / TTL / class chains, `$ORIGIN` change before record 3.
    pub fn chain4() -> Profile {
        let r1: &[(usize, &[u8])] = &[(D_OWNER, &[0, 1, 2]), (D_TTL, &[0, 1, 2]), (D_CLASS, &[0, 1])];
        let r2: &[(usize, &[u8])] = &[(D_OWNER, &[0, 1, 2, 3]), (D_TTL, &[0, 1, 2]), (D_CLASS, &[0, 1])];
        let r3: &[(usize, &[u8])] = &[(D_ORIGIN, &[0, 2]), (D_OWNER, &[0, 1, 2, 3]), (D_TTL, &[0, 1, 2]), (D_CLASS, &[0, 1])];
        let r4: &[(usize, &[u8])] = &[(D_OWNER, &[0, 1, 2, 3]), (D_TTL, &[0, 1, 2]), (D_CLASS, &[0, 1])];
        Profile::custom([vec![0], vec![0], vec![0, 1]], &[r1, r2, r3, r4])
    }

    pub fn describe(&self) -> Value {
        let mut per = vec![];
        for p in &self.per {
            let mut m = serde_json::Map::new();
            for (d, (name, vals)) in DIMS.iter().enumerate() {
                m.insert(name.to_string(), json!(p[d].iter().map(|v| vals[*v as usize]).collect::<Vec<_>>()));
            }
            per.push(Value::Object(m));
        }
        let mut g = serde_json::Map::new();
        for (d, (name, vals)) in GDIMS.iter().enumerate() {
            g.insert(name.to_string(), json!(self.g[d].iter().map(|v| vals[*v as usize]).collect::<Vec<_>>()));
        }
        json!({"file": g, "records": per})
    }
}

#[derive(Debug)]
pub enum Verdict {
    Illegal,
    Ok,
    Unjudged,
    Viol { clause: String, what: String },
}

/// Two records of the tuple form an RRset that RFC 2181 §5.2 / RFC 1034 forbid (different TTLs or
/// classes in one RRset, two SOAs, two different CNAME/ANAMEs): the statement does not say what
/// such a file loads to, so the record comparison is not judged (the parse must still return).
pub fn tuple_unjudged(entries: &[&Entry]) -> bool {
    for i in 0..entries.len() {
        for j in i + 1..entries.len() {
            let (a, b) = (&entries[i].expect, &entries[j].expect);
            if a.name == b.name && a.record_type() == b.record_type() {
                if a.ttl != b.ttl || a.dns_class != b.dns_class {
                    return true;
                }
                match a.record_type() {
                    RecordType::SOA => return true,
                    RecordType::CNAME | RecordType::ANAME if a.data != b.data => return true,
                    _ => {}
                }
            }
        }
    }
    false
}

fn same_record(a: &Record, b: &Record) -> [bool; 4] {
    [
        a.name == b.name && a.name.is_fqdn() == b.name.is_fqdn(),
        a.ttl == b.ttl,
        a.dns_class == b.dns_class,
        a.record_type() == b.record_type() && a.data == b.data,
    ]
}

/// The oracle for one printed file.
pub fn judge_text(w: &World, entries: &[&Entry], text: &str, origin_changed: bool, final_origin: &Labels, judged: bool, l: &mut Local) -> Verdict {
    let res = catch(|| Parser::new(text.to_string(), None, Some(w.horigin.clone())).parse());
    let (origin, map) = match res {
        Err(p) => return Verdict::Viol { clause: panic_key(&p), what: format!("parser panicked on a valid file: {}", p.msg) },
        Ok(Err(e)) => {
            if !judged {
                return Verdict::Unjudged;
            }
            return Verdict::Viol { clause: "valid:rejected".into(), what: format!("valid file rejected: {e}") };
        }
        Ok(Ok(x)) => x,
    };
    // flatten
    let mut got: Vec<&Record> = vec![];
    for (k, rs) in &map {
        for r in rs.records_without_rrsigs() {
            if k.name != LowerName::new(&r.name) || k.record_type != r.record_type() {
                return Verdict::Viol { clause: "valid:map-key-mismatch".into(), what: format!("record {r} stored under key {k:?}") };
            }
            got.push(r);
        }
        if !rs.rrsigs().is_empty() {
            return Verdict::Viol { clause: "valid:unexpected-rrsig".into(), what: "RRSIGs appeared".into() };
        }
    }
    if !judged {
        return Verdict::Unjudged;
    }
    // expected set (duplicates collapse)
    let mut want: Vec<&Record> = vec![];
    for e in entries {
        if !want.iter().any(|x| same_record(x, &e.expect) == [true; 4]) {
            want.push(&e.expect);
        }
    }
    if got.len() != want.len() {
        return Verdict::Viol {
            clause: "valid:records-differ.count".into(),
            what: format!("{} records denoted, {} loaded", want.len(), got.len()),
        };
    }
    for x in &want {
        if got.iter().any(|g| same_record(g, x) == [true; 4]) {
            continue;
        }
        // name the component that differs in the closest loaded record
        let mut best = "several";
        // a loaded record with the same owner, type and RDATA: only TTL and/or class are off
        if let Some(g) = got.iter().find(|g| {
            let s = same_record(g, x);
            s[0] && s[3]
        }) {
            let s = same_record(g, x);
            best = match (s[1], s[2]) {
                (false, true) => "ttl",
                (true, false) => "class",
                _ => "ttl+class",
            };
        }
        for g in &got {
            if best != "several" {
                break;
            }
            let s = same_record(g, x);
            if s.iter().filter(|b| !**b).count() == 1 {
                best = if !s[0] {
                    "owner"
                } else if !s[1] {
                    "ttl"
                } else if !s[2] {
                    "class"
                } else {
                    "rdata"
                };
                break;
            }
        }
        let shown: Vec<String> = got.iter().map(|g| format!("{} {} {} {} {:?}", g.name, g.ttl, g.dns_class, g.record_type(), g.data)).collect();
        return Verdict::Viol {
            clause: format!("valid:records-differ.{best}"),
            what: format!("denoted {} {} {} {} {:?}; loaded {:?}", x.name, x.ttl, x.dns_class, x.record_type(), x.data, shown),
        };
    }
    // returned origin: only judged when the file never changed it (the statement is silent on
    // what is returned after `$ORIGIN`; observed and logged otherwise)
    if !origin_changed {
        if origin != w.horigin || !origin.is_fqdn() {
            return Verdict::Viol { clause: "valid:origin-differs".into(), what: format!("returned origin {origin}, expected {}", w.horigin) };
        }
    } else if origin == hname(final_origin) {
        l.outcome("obs:origin-returned=last-$ORIGIN");
    } else if origin == w.horigin {
        l.outcome("obs:origin-returned=argument");
    } else {
        l.outcome("obs:origin-returned=other");
    }
    Verdict::Ok
}

/// Print + judge a complete case (used by the minimiser and by replay).
pub fn run_file(w: &World, entries: &[&Entry], g: &GlobalLayout, lays: &[RecLayout], l: &mut Local) -> (Verdict, Option<String>) {
    let recs: Vec<&Rec> = entries.iter().map(|e| &e.rec).collect();
    let Some(p) = print_file(&w.origin, &w.alts, &recs, g, lays) else { return (Verdict::Illegal, None) };
    let judged = !tuple_unjudged(entries);
    let v = judge_text(w, entries, &p.text, p.origin_changed, &p.final_origin, judged, l);
    (v, Some(p.text))
}

// ------------------------------------------------------------------------------------------
// minimiser -> key

/// `for_key`: the number of lines a parenthesised group spans is a matter of degree, not of kind:
/// keys name the dimension only.
fn feature_list(n: usize, g: &GlobalLayout, lays: &[RecLayout], for_key: bool) -> String {
    let mut parts = vec![];
    for (d, (name, vals)) in GDIMS.iter().enumerate() {
        if g[d] != 0 {
            parts.push(format!("file.{}={}", name, vals[g[d] as usize]));
        }
    }
    for (k, lay) in lays.iter().enumerate() {
        for (d, (name, vals)) in DIMS.iter().enumerate() {
            if lay[d] != 0 {
                let prefix = if n > 1 { format!("r{}.", k + 1) } else { String::new() };
                if for_key && d == D_PARENS {
                    parts.push(format!("{prefix}{name}"));
                } else {
                    parts.push(format!("{prefix}{}={}", name, vals[lay[d] as usize]));
                }
            }
        }
    }
    parts.join(",")
}

/// One non-default layout choice: slot 0 = file level, slot k+1 = record k of the ORIGINAL tuple.
#[derive(Clone, Copy, Debug, PartialEq, Eq)]
pub struct Pos {
    slot: usize,
    dim: usize,
    val: u8,
}

fn family(c: &str) -> &str {
    c.split('.').next().unwrap_or(c)
}

pub struct Minimal<'e> {
    pub key: String,
    pub entries: Vec<&'e Entry>,
    pub g: GlobalLayout,
    pub lays: Vec<RecLayout>,
    /// sufficient sets of layout choices (as found, and with lowered values)
    pub sets: Vec<Vec<Pos>>,
}

/// Reduce a violating case to a small witness of the same oracle clause family and derive the
/// key `<clause>:<types>:<non-default layout choices>`. Deterministic (fixed order): first drop
/// records, then find the first 1-, 2- or 3-subset of the non-default layout choices that still
/// violates with everything else at its plainest value, then lower the values.
pub fn minimise<'e>(w: &World, alpha: &'e [Entry], entries: &[&'e Entry], g: &GlobalLayout, lays: &[RecLayout], clause: &str) -> Minimal<'e> {
    let mut scratch = Local::default();
    let fam = family(clause).to_string();
    let mut last_clause = clause.to_string();
    let mut viol = |es: &[&Entry], g: &GlobalLayout, ls: &[RecLayout]| -> bool {
        match run_file(w, es, g, ls, &mut scratch).0 {
            Verdict::Viol { clause: c, .. } if family(&c) == fam => {
                last_clause = c;
                true
            }
            _ => false,
        }
    };
    // (a) fewer records
    let mut es: Vec<&Entry> = entries.to_vec();
    let mut ls: Vec<RecLayout> = lays.to_vec();
    let mut kept: Vec<usize> = (0..entries.len()).collect();
    let g0 = *g;
    'outer: loop {
        if es.len() > 1 {
            for i in 0..es.len() {
                let mut e2 = es.clone();
                let mut l2 = ls.clone();
                e2.remove(i);
                l2.remove(i);
                if viol(&e2, &g0, &l2) {
                    es = e2;
                    ls = l2;
                    kept.remove(i);
                    continue 'outer;
                }
            }
        }
        break;
    }
    // (b) smallest set of non-default layout choices
    let mut nd: Vec<Pos> = vec![];
    for d in 0..NGDIMS {
        if g0[d] != 0 {
            nd.push(Pos { slot: 0, dim: d, val: g0[d] });
        }
    }
    for (k, lay) in ls.iter().enumerate() {
        for d in 0..NDIMS {
            if lay[d] != 0 {
                nd.push(Pos { slot: kept[k] + 1, dim: d, val: lay[d] });
            }
        }
    }
    let kept2 = kept.clone();
    let build = |set: &[Pos]| -> (GlobalLayout, Vec<RecLayout>) {
        let mut g = [0u8; NGDIMS];
        let mut v = vec![[0u8; NDIMS]; kept2.len()];
        for p in set {
            if p.slot == 0 {
                g[p.dim] = p.val;
            } else {
                let k = kept2.iter().position(|x| *x + 1 == p.slot).expect("kept slot");
                v[k][p.dim] = p.val;
            }
        }
        (g, v)
    };
    let mut found: Option<Vec<Pos>> = None;
    let (gd, ld) = build(&[]);
    if viol(&es, &gd, &ld) {
        found = Some(vec![]);
    }
    if found.is_none() {
        'k: for k in 1..=3usize.min(nd.len()) {
            for combo in vcore::enumerate::combinations(nd.len(), k) {
                let set: Vec<Pos> = combo.iter().map(|i| nd[*i]).collect();
                let (g1, l1) = build(&set);
                if viol(&es, &g1, &l1) {
                    found = Some(set);
                    break 'k;
                }
            }
        }
    }
    let mut set = match found {
        Some(s) => s,
        None => {
            // (c) greedy reset from the full layout
            let mut cur = nd.clone();
            let mut i = 0;
            while i < cur.len() {
                let mut t = cur.clone();
                t.remove(i);
                let (g1, l1) = build(&t);
                if viol(&es, &g1, &l1) {
                    cur = t;
                } else {
                    i += 1;
                }
            }
            cur
        }
    };
    let as_found = set.clone();
    // lower every remaining choice to its smallest violating value
    for i in 0..set.len() {
        for v in 1..set[i].val {
            let mut t = set.clone();
            t[i].val = v;
            let (g1, l1) = build(&t);
            if viol(&es, &g1, &l1) {
                set = t;
                break;
            }
        }
    }
    let (gm, lm) = build(&set);
    // (d) plainer records: swap a record for the plain A record of the same owner/TTL/class
    // when the violation does not depend on its RDATA (keeps type-independent defects on one key)
    for i in 0..es.len() {
        let cur = es[i];
        if let Some(plain) = alpha.iter().find(|a| {
            a.rec.rtype == "A" && a.tag.starts_with("A 192.0.2.1") && a.rec.owner == cur.rec.owner && a.rec.ttl == cur.rec.ttl && a.rec.class == cur.rec.class
        }) {
            if !std::ptr::eq(plain, cur) {
                let mut e2 = es.clone();
                e2[i] = plain;
                if viol(&e2, &gm, &lm) {
                    es = e2;
                }
            }
        }
    }
    let _ = viol(&es, &gm, &lm); // the clause of the final witness
    let types: Vec<&str> = es.iter().map(|e| e.rec.rtype).collect();
    let key = format!("{}:{}:{}", last_clause, types.join("+"), feature_list(es.len(), &gm, &lm, true));
    let mut sets = vec![as_found];
    if sets[0] != set {
        sets.push(set);
    }
    Minimal { key, entries: es, g: gm, lays: lm, sets }
}

pub fn case_json(alpha: &str, idx: &[usize], entries: &[&Entry], g: &GlobalLayout, lays: &[RecLayout], text: Option<&str>) -> Value {
    json!({
        "kind": "valid",
        "alphabet": alpha,
        "records": idx,
        "record_tags": entries.iter().map(|e| e.tag.clone()).collect::<Vec<_>>(),
        "file_layout": g.to_vec(),
        "record_layouts": lays.iter().map(|l| l.to_vec()).collect::<Vec<_>>(),
        "layout": feature_list(entries.len().max(2), g, lays, false),
        "text": text.map(|t| if t.len() > 1200 { format!("{}...[{} bytes]", &t[..1200], t.len()) } else { t.to_string() }),
    })
}

// ------------------------------------------------------------------------------------------
// enumeration (depth first over the records of the file)

#[derive(Default, Clone)]
pub struct Stats {
    pub legal: u64,
    pub ok: u64,
    pub unjudged: u64,
    pub violating: u64,
    pub minimised: u64,
    pub dimvals: [[u64; 4]; NDIMS],
    pub gvals: [[u64; 4]; NGDIMS],
}

impl Stats {
    pub fn add(&mut self, o: &Stats) {
        self.legal += o.legal;
        self.ok += o.ok;
        self.unjudged += o.unjudged;
        self.violating += o.violating;
        self.minimised += o.minimised;
        for d in 0..NDIMS {
            for v in 0..4 {
                self.dimvals[d][v] += o.dimvals[d][v];
            }
        }
        for d in 0..NGDIMS {
            for v in 0..4 {
                self.gvals[d][v] += o.gvals[d][v];
            }
        }
    }
}

pub struct Enum<'a> {
    pub ctx: &'a vcore::Ctx,
    pub w: &'a World,
    pub alpha_name: &'static str,
    pub alpha: &'a [Entry],
    pub profile: &'a Profile,
    pub stats: &'a Mutex<Stats>,
}

/// State of the enumeration of one record tuple.
struct Run<'a> {
    idx: &'a [usize],
    entries: Vec<&'a Entry>,
    recs: Vec<&'a Rec>,
    judged: bool,
    st: Stats,
    /// witnesses already minimised for this tuple: (clause family, sufficient layout choices, key).
    /// A later violating file of the same family that contains all choices of a witness is
    /// attributed to its key without being minimised again (the witness shows that these
    /// choices alone make the file fail).
    cache: Vec<(String, Vec<Pos>, String)>,
}

impl<'a> Enum<'a> {
    /// All legal layout vectors of the profile for the file made of records `idx` (in this order).
    pub fn run_tuple(&self, idx: &[usize], l: &mut Local) {
        let entries: Vec<&Entry> = idx.iter().map(|i| &self.alpha[*i]).collect();
        let recs: Vec<&Rec> = entries.iter().map(|e| &e.rec).collect();
        let judged = !tuple_unjudged(&entries);
        let mut run = Run { idx, entries, recs, judged, st: Stats::default(), cache: vec![] };
        let prof = self.profile;
        for &eol in &prof.g[G_EOL] {
            for &fin in &prof.g[G_FINAL] {
                for &top in &prof.g[G_TTLTOP] {
                    let g: GlobalLayout = [eol, fin, top];
                    let p = Printer::new(&self.w.origin, &self.w.alts, eol == 1, ttl_top_value(&g, &run.recs));
                    let mut lays: Vec<RecLayout> = vec![];
                    self.level(&mut run, &g, &p, &mut lays, l);
                }
            }
        }
        self.stats.lock().unwrap().add(&run.st);
    }

    fn level(&self, run: &mut Run<'_>, g: &GlobalLayout, p: &Printer<'_>, lays: &mut Vec<RecLayout>, l: &mut Local) {
        let k = lays.len();
        let dom = &self.profile.per[k];
        let radices: Vec<u64> = dom.iter().map(|d| d.len() as u64).collect();
        let od = vcore::Odometer::new(&radices);
        let mut digits = vec![];
        for i in 0..od.space() {
            od.digits(i, &mut digits);
            let mut lay = [0u8; NDIMS];
            for d in 0..NDIMS {
                lay[d] = dom[d][digits[d] as usize];
            }
            if !p.check_record(run.recs[k], &lay) {
                continue;
            }
            let mut p2 = p.clone();
            p2.emit_record(run.recs[k], &lay);
            lays.push(lay);
            if k + 1 < run.recs.len() {
                self.level(run, g, &p2, lays, l);
            } else {
                self.leaf(run, g, &p2, lays, l);
            }
            lays.pop();
        }
    }

    fn leaf(&self, run: &mut Run<'_>, g: &GlobalLayout, p: &Printer<'_>, lays: &[RecLayout], l: &mut Local) {
        let text = p.finish(g[G_FINAL] == 0);
        if run.st.legal % 64 == 0 {
            // re-arm the hang watchdog with a replayable description of the running case
            self.ctx.watch(l.worker, || case_json(self.alpha_name, run.idx, &run.entries, g, lays, None).to_string());
        }
        l.eval();
        let st = &mut run.st;
        st.legal += 1;
        for (d, v) in g.iter().enumerate() {
            st.gvals[d][*v as usize] += 1;
        }
        for lay in lays {
            for d in 0..NDIMS {
                st.dimvals[d][lay[d] as usize] += 1;
            }
        }
        if p.features != 0 {
            // non-trivial rule: distinct layout vectors with an inheritance / relative name /
            // continuation / escape (the vector, not the record it was applied to)
            let mut h = Vec::with_capacity(4 + lays.len() * NDIMS);
            h.extend_from_slice(g);
            h.push(lays.len() as u8);
            for lay in lays {
                h.extend_from_slice(lay);
            }
            l.nontrivial(fnv64(&h));
        }
        match judge_text(self.w, &run.entries, &text, p.origin_changed, &p.origin, run.judged, l) {
            Verdict::Ok => st.ok += 1,
            Verdict::Unjudged => st.unjudged += 1,
            Verdict::Illegal => unreachable!(),
            Verdict::Viol { clause, what } => {
                st.violating += 1;
                if clause.starts_with("panic:") {
                    // panics are keyed by their site, not by the layout
                    l.violation(&clause, &what, || case_json(self.alpha_name, run.idx, &run.entries, g, lays, Some(&text)));
                    return;
                }
                let fam = family(&clause);
                let holds = |p: &Pos| if p.slot == 0 { g[p.dim] == p.val } else { lays[p.slot - 1][p.dim] == p.val };
                if let Some((_, _, key)) = run.cache.iter().find(|(f, set, _)| f == fam && set.iter().all(holds)) {
                    l.violation(key, &what, || Value::Null);
                    return;
                }
                st.minimised += 1;
                let m = minimise(self.w, self.alpha, &run.entries, g, lays, &clause);
                for s in &m.sets {
                    run.cache.push((fam.to_string(), s.clone(), m.key.clone()));
                }
                if !l.has_violation_key(&m.key) {
                    let (_, mtext) = run_file(self.w, &m.entries, &m.g, &m.lays, &mut Local::default());
                    let midx: Vec<usize> = m.entries.iter().map(|e| self.alpha.iter().position(|a| std::ptr::eq(a, *e)).expect("alphabet entry")).collect();
                    let mut j = case_json(self.alpha_name, &midx, &m.entries, &m.g, &m.lays, mtext.as_deref());
                    j["found_in"] = case_json(self.alpha_name, run.idx, &run.entries, g, lays, Some(&text));
                    j["clause"] = json!(clause);
                    l.violation(&m.key, &what, || j);
                } else {
                    l.violation(&m.key, &what, || Value::Null);
                }
            }
        }
    }
}

/// Replay of a `kind: valid` case.
pub fn replay(w: &World, case: &Value, l: &mut Local) {
    let alpha: Vec<Entry> = match case["alphabet"].as_str().unwrap_or("") {
        "singles" => crate::alphabet::singles(),
        "chain" => crate::alphabet::chain_alphabet(),
        "rrset" => crate::alphabet::rrset_alphabet(),
        "class" => crate::alphabet::class_alphabet(),
        "chain4" => crate::alphabet::chain4_alphabet(),
        _ => crate::alphabet::sub_alphabet(6, 6),
    };
    let idx: Vec<usize> = case["records"].as_array().map(|a| a.iter().map(|x| x.as_u64().unwrap() as usize).collect()).unwrap_or_default();
    let entries: Vec<&Entry> = idx.iter().map(|i| &alpha[*i]).collect();
    let mut g = [0u8; NGDIMS];
    for (d, v) in case["file_layout"].as_array().unwrap().iter().enumerate() {
        g[d] = v.as_u64().unwrap() as u8;
    }
    let lays: Vec<RecLayout> = case["record_layouts"]
        .as_array()
        .unwrap()
        .iter()
        .map(|a| {
            let mut lay = [0u8; NDIMS];
            for (d, v) in a.as_array().unwrap().iter().enumerate() {
                lay[d] = v.as_u64().unwrap() as u8;
            }
            lay
        })
        .collect();
    l.eval();
    let (v, text) = run_file(w, &entries, &g, &lays, l);
    eprintln!("replay text:\n{}", text.clone().unwrap_or_default());
    match v {
        Verdict::Viol { clause, what } => {
            let key = if clause.starts_with("panic:") { clause.clone() } else { minimise(w, &alpha, &entries, &g, &lays, &clause).key };
            l.violation(&key, &what, || case.clone());
        }
        other => eprintln!("replay verdict: {other:?}"),
    }
}
