//! The record alphabet of C20: every parser-supported type x 2..4 (TXT: more) field-value shapes.
//!
//! Every entry is built from ONE set of typed values twice: as reference fields for the
//! independent printer (`vref::masterfile::Rec`) and, through hickory's *constructors* (never its
//! text parser), as the `RData` the parser is expected to produce.

use hickory_proto::dnssec::rdata::{DNSSECRData, DS};
use hickory_proto::dnssec::{Algorithm, DigestType};
use hickory_proto::rr::rdata::svcb::{Alpn, EchConfigList, IpHint, Mandatory, SvcParamKey, SvcParamValue, Unknown};
use hickory_proto::rr::rdata::{
    cert, sshfp, A, AAAA, ANAME, CAA, CERT, CNAME, CSYNC, HINFO, HTTPS, MX, NAPTR, NS, OPENPGPKEY, PTR, SMIMEA, SOA, SRV,
    SSHFP, SVCB, TLSA, TXT,
};
use hickory_proto::rr::{DNSClass, Name, RData, Record, RecordType};
use vref::masterfile::{Field, Labels, Rec};

pub struct Entry {
    pub rec: Rec,
    pub expect: Record,
    /// short human-readable tag (type/shape)
    pub tag: String,
}

pub fn labels(s: &[&str]) -> Labels {
    s.iter().map(|x| x.as_bytes().to_vec()).collect()
}

pub fn hname(l: &Labels) -> Name {
    let mut n = if l.is_empty() { Name::root() } else { Name::from_labels(l.iter().map(|x| &x[..])).expect("alphabet name") };
    n.set_fqdn(true);
    n
}

pub fn origin() -> Labels {
    labels(&["ex", "test"])
}
/// Alternative origins for `$ORIGIN` entries: a child of the origin, and an unrelated name.
pub fn alts() -> Vec<Labels> {
    vec![labels(&["sub", "ex", "test"]), labels(&["other"])]
}

fn o(prefix: &[&str]) -> Labels {
    let mut v = labels(prefix);
    v.extend(origin());
    v
}

fn hex(bytes: &[u8]) -> String {
    let mut s = String::new();
    for b in bytes {
        s.push_str(&format!("{b:02x}"));
    }
    s
}

fn b64(bytes: &[u8]) -> String {
    const T: &[u8; 64] = b"ABCDEFGHIJKLMNOPQRSTUVWXYZabcdefghijklmnopqrstuvwxyz0123456789+/";
    let mut s = String::new();
    for c in bytes.chunks(3) {
        let n = (c[0] as u32) << 16 | (*c.get(1).unwrap_or(&0) as u32) << 8 | *c.get(2).unwrap_or(&0) as u32;
        s.push(T[(n >> 18) as usize & 63] as char);
        s.push(T[(n >> 12) as usize & 63] as char);
        s.push(if c.len() > 1 { T[(n >> 6) as usize & 63] as char } else { '=' });
        s.push(if c.len() > 2 { T[n as usize & 63] as char } else { '=' });
    }
    s
}

fn bytes(n: usize, seed: u8) -> Vec<u8> {
    (0..n).map(|i| (i as u8).wrapping_mul(37).wrapping_add(seed)).collect()
}

/// RDATA shapes: (type mnemonic, tag, printer fields, expected RData).
pub fn rdata_shapes() -> Vec<(&'static str, String, Vec<Field>, RData)> {
    use Field::*;
    let mut v: Vec<(&'static str, String, Vec<Field>, RData)> = vec![];
    let mail = o(&["mail"]);
    let apex = origin();
    let nssub = o(&["ns", "sub"]);
    let sub = o(&["sub"]);
    let other = labels(&["h", "other"]);
    let root: Labels = vec![];
    let escd = o(&["host.master"]);
    let mixed = labels(&["WwW", "Ex", "TEST"]);

    // A
    for (t, a) in [("0.0.0.0", [0u8, 0, 0, 0]), ("192.0.2.1", [192, 0, 2, 1]), ("255.255.255.255", [255, 255, 255, 255])] {
        v.push(("A", format!("A {t}"), vec![Lit(t.into())], RData::A(A::new(a[0], a[1], a[2], a[3]))));
    }
    // AAAA
    for (t, a) in [
        ("::", [0u16; 8]),
        ("2001:db8::1", [0x2001, 0xdb8, 0, 0, 0, 0, 0, 1]),
        ("ffff:ffff:ffff:ffff:ffff:ffff:ffff:ffff", [0xffff; 8]),
        ("::ffff:192.0.2.1", [0, 0, 0, 0, 0, 0xffff, 0xc000, 0x0201]),
    ] {
        v.push((
            "AAAA",
            format!("AAAA {t}"),
            vec![Lit(t.into())],
            RData::AAAA(AAAA::new(a[0], a[1], a[2], a[3], a[4], a[5], a[6], a[7])),
        ));
    }
    // single-name types
    for (i, n) in [&mail, &other].into_iter().enumerate() {
        v.push(("ANAME", format!("ANAME #{i}"), vec![Name(n.clone())], RData::ANAME(ANAME(hname(n)))));
    }
    for (i, n) in [&mail, &escd, &root, &apex].into_iter().enumerate() {
        v.push(("CNAME", format!("CNAME #{i}"), vec![Name(n.clone())], RData::CNAME(CNAME(hname(n)))));
    }
    for (i, n) in [&nssub, &apex, &other].into_iter().enumerate() {
        v.push(("NS", format!("NS #{i}"), vec![Name(n.clone())], RData::NS(NS(hname(n)))));
    }
    for (i, n) in [&mail, &sub, &mixed].into_iter().enumerate() {
        v.push(("PTR", format!("PTR #{i}"), vec![Name(n.clone())], RData::PTR(PTR(hname(n)))));
    }
    // MX
    for (i, (p, n)) in [(0u16, &mail), (65535, &other), (10, &apex)].into_iter().enumerate() {
        v.push(("MX", format!("MX #{i}"), vec![Int(p as u64), Name(n.clone())], RData::MX(MX::new(p, hname(n)))));
    }
    // SOA
    for (i, (m, r, s, a, b, c, d)) in [
        (&nssub, &escd, 0u32, 0i32, 0i32, 0i32, 0u32),
        (&apex, &other, u32::MAX, i32::MAX, i32::MAX, i32::MAX, u32::MAX),
        (&mail, &mail, 2024010101, 7200, 600, 3600000, 60),
    ]
    .into_iter()
    .enumerate()
    {
        v.push((
            "SOA",
            format!("SOA #{i}"),
            vec![Name(m.clone()), Name(r.clone()), Int(s as u64), Int(a as u64), Int(b as u64), Int(c as u64), Int(d as u64)],
            RData::SOA(SOA::new(hname(m), hname(r), s, a, b, c, d)),
        ));
    }
    // SRV
    for (i, (p, w, port, n)) in [(0u16, 0u16, 0u16, &root), (65535, 65535, 65535, &mail), (10, 60, 5060, &sub)].into_iter().enumerate() {
        v.push((
            "SRV",
            format!("SRV #{i}"),
            vec![Int(p as u64), Int(w as u64), Int(port as u64), Name(n.clone())],
            RData::SRV(SRV::new(p, w, port, hname(n))),
        ));
    }
    // TXT
    let long255 = "x".repeat(255);
    let txts: Vec<Vec<&str>> = vec![
        vec!["hello"],
        vec!["two", "strings"],
        vec!["with space and\ttab"],
        vec!["semi;colon"],
        vec!["par(en)s ( open"],
        vec!["quote\"in\"side"],
        vec!["back\\slash"],
        vec!["digit-after-backslash\\1\\234"],
        vec![""],
        vec!["", "x", ""],
        vec![&long255],
        vec!["@"],
        vec!["$ORIGIN", "v=spf1 -all"],
        vec!["ends-with-backslash\\"],
        vec!["\""],
    ];
    for (i, t) in txts.iter().enumerate() {
        v.push((
            "TXT",
            format!("TXT #{i}"),
            t.iter().map(|s| Str(s.as_bytes().to_vec())).collect(),
            RData::TXT(TXT::new(t.iter().map(|s| s.to_string()).collect())),
        ));
    }
    // HINFO
    for (i, (c, os)) in [("DEC-2060", "TOPS20"), ("Intel x86", "Linux; 6.1 (x)"), ("", "a\"b\\c")].into_iter().enumerate() {
        v.push((
            "HINFO",
            format!("HINFO #{i}"),
            vec![Str(c.as_bytes().to_vec()), Str(os.as_bytes().to_vec())],
            RData::HINFO(HINFO::new(c.to_string(), os.to_string())),
        ));
    }
    // NAPTR
    for (i, (ord, pref, fl, sv, re, n)) in [
        (100u16, 50u16, "a", "z3950+N2L+N2C", "", &mail),
        (65535, 0, "", "", "!^(.*)$!sip:\\1@ex.test!", &root),
        (0, 65535, "S", "SIP+D2U", "a \"quoted\" ; regexp", &apex),
    ]
    .into_iter()
    .enumerate()
    {
        v.push((
            "NAPTR",
            format!("NAPTR #{i}"),
            vec![
                Int(ord as u64),
                Int(pref as u64),
                Str(fl.as_bytes().to_vec()),
                Str(sv.as_bytes().to_vec()),
                Str(re.as_bytes().to_vec()),
                Name(n.clone()),
            ],
            RData::NAPTR(NAPTR::new(
                ord,
                pref,
                fl.as_bytes().to_vec().into_boxed_slice(),
                sv.as_bytes().to_vec().into_boxed_slice(),
                re.as_bytes().to_vec().into_boxed_slice(),
                hname(n),
            )),
        ));
    }
    // CAA (tag is a mnemonic token, value a character string)
    for (i, (flags, tag, val)) in [
        (0u8, "issue", "ca.example.net"),
        (128, "issuewild", ";"),
        (0, "iodef", "mailto:security@example.com"),
        (1, "issue", "ca.example.net; account=230123"),
    ]
    .into_iter()
    .enumerate()
    {
        let mut c = CAA::new_issue(false, None, vec![]);
        c.issuer_critical = flags & 0x80 != 0;
        c.reserved_flags = flags & 0x7f;
        c.tag = tag.to_string();
        c.value = val.as_bytes().to_vec();
        v.push((
            "CAA",
            format!("CAA #{i}"),
            vec![Int(flags as u64), Lit(tag.into()), Str(val.as_bytes().to_vec())],
            RData::CAA(c),
        ));
    }
    // CERT
    for (i, (ct, kt, alg, data)) in [(1u16, 12345u16, 8u8, bytes(33, 1)), (65535, 65535, 255, bytes(1, 9)), (0, 0, 0, bytes(300, 3))]
        .into_iter()
        .enumerate()
    {
        v.push((
            "CERT",
            format!("CERT #{i}"),
            vec![Int(ct as u64), Int(kt as u64), Int(alg as u64), Lit(b64(&data))],
            RData::CERT(CERT::new(cert::CertType::from(ct), kt, cert::Algorithm::from(alg), data)),
        ));
    }
    // CSYNC
    for (i, (serial, flags, types)) in [
        (66u32, 3u16, vec![("A", RecordType::A), ("NS", RecordType::NS), ("AAAA", RecordType::AAAA)]),
        (0, 0, vec![("MX", RecordType::MX)]),
        (u32::MAX, 1, vec![("NS", RecordType::NS)]),
    ]
    .into_iter()
    .enumerate()
    {
        let mut f = vec![Int(serial as u64), Int(flags as u64)];
        f.extend(types.iter().map(|(t, _)| Lit(t.to_string())));
        v.push((
            "CSYNC",
            format!("CSYNC #{i}"),
            f,
            RData::CSYNC(CSYNC::new(serial, flags & 1 != 0, flags & 2 != 0, types.iter().map(|(_, t)| *t))),
        ));
    }
    // DS
    for (i, (tag, alg, dt, digest)) in [(60485u16, 5u8, 1u8, bytes(20, 2)), (0, 8, 2, bytes(32, 7)), (65535, 15, 4, bytes(48, 11))].into_iter().enumerate()
    {
        v.push((
            "DS",
            format!("DS #{i}"),
            vec![Int(tag as u64), Int(alg as u64), Int(dt as u64), Lit(hex(&digest))],
            RData::DNSSEC(DNSSECRData::DS(DS::new(tag, Algorithm::from_u8(alg), DigestType::from(dt), digest))),
        ));
    }
    // SVCB / HTTPS
    let svc_target = o(&["svc"]);
    let svcs: Vec<(u16, &Labels, Vec<(&str, SvcParamKey, SvcParamValue)>)> = vec![
        (0, &other, vec![]),
        (1, &root, vec![("alpn=h2,h3", SvcParamKey::Alpn, SvcParamValue::Alpn(Alpn(vec!["h2".into(), "h3".into()])))]),
        (
            16,
            &svc_target,
            vec![
                ("port=8443", SvcParamKey::Port, SvcParamValue::Port(8443)),
                (
                    "ipv4hint=192.0.2.1,192.0.2.2",
                    SvcParamKey::Ipv4Hint,
                    SvcParamValue::Ipv4Hint(IpHint(vec![A::new(192, 0, 2, 1), A::new(192, 0, 2, 2)])),
                ),
                (
                    "ipv6hint=2001:db8::1",
                    SvcParamKey::Ipv6Hint,
                    SvcParamValue::Ipv6Hint(IpHint(vec![AAAA::new(0x2001, 0xdb8, 0, 0, 0, 0, 0, 1)])),
                ),
            ],
        ),
        (
            65535,
            &apex,
            vec![
                ("mandatory=alpn", SvcParamKey::Mandatory, SvcParamValue::Mandatory(Mandatory(vec![SvcParamKey::Alpn]))),
                ("alpn=h2", SvcParamKey::Alpn, SvcParamValue::Alpn(Alpn(vec!["h2".into()]))),
                ("no-default-alpn", SvcParamKey::NoDefaultAlpn, SvcParamValue::NoDefaultAlpn),
                ("ech=AQIDBA==", SvcParamKey::EchConfigList, SvcParamValue::EchConfigList(EchConfigList(vec![1, 2, 3, 4]))),
                ("key65400=hello", SvcParamKey::Key(65400), SvcParamValue::Unknown(Unknown(b"hello".to_vec()))),
            ],
        ),
    ];
    for (i, (prio, target, params)) in svcs.iter().enumerate() {
        let mut f = vec![Int(*prio as u64), Name((*target).clone())];
        f.extend(params.iter().map(|(t, _, _)| Lit(t.to_string())));
        let svcb = SVCB::new(*prio, hname(target), params.iter().map(|(_, k, val)| (*k, val.clone())).collect());
        v.push(("SVCB", format!("SVCB #{i}"), f.clone(), RData::SVCB(svcb.clone())));
        v.push(("HTTPS", format!("HTTPS #{i}"), f, RData::HTTPS(HTTPS(svcb))));
    }
    // OPENPGPKEY (the third shape is a realistic key size: 3072 octets = 4096 base64 characters)
    for (i, data) in [bytes(1, 5), bytes(60, 6), bytes(3072, 8)].into_iter().enumerate() {
        v.push(("OPENPGPKEY", format!("OPENPGPKEY #{i} ({} octets)", data.len()), vec![Lit(b64(&data))], RData::OPENPGPKEY(OPENPGPKEY::new(data))));
    }
    // TLSA / SMIMEA
    for (i, (u, s, m, data)) in [(3u8, 1u8, 1u8, bytes(32, 4)), (0, 0, 0, bytes(1, 0xff)), (255, 255, 255, bytes(64, 13))].into_iter().enumerate() {
        let f = vec![Int(u as u64), Int(s as u64), Int(m as u64), Lit(hex(&data))];
        v.push(("TLSA", format!("TLSA #{i}"), f.clone(), RData::TLSA(TLSA::new(u.into(), s.into(), m.into(), data.clone()))));
        v.push(("SMIMEA", format!("SMIMEA #{i}"), f, RData::SMIMEA(SMIMEA::new(u.into(), s.into(), m.into(), data))));
    }
    // SSHFP
    for (i, (a, t, data)) in [(1u8, 1u8, bytes(20, 21)), (4, 2, bytes(32, 22)), (255, 255, bytes(1, 0))].into_iter().enumerate() {
        v.push((
            "SSHFP",
            format!("SSHFP #{i}"),
            vec![Int(a as u64), Int(t as u64), Lit(hex(&data))],
            RData::SSHFP(SSHFP::new(sshfp::Algorithm::from(a), sshfp::FingerprintType::from(t), data)),
        ));
    }
    v
}

/// (owner, ttl, class)
pub fn envelopes() -> Vec<(Labels, u32, &'static str)> {
    vec![
        (o(&["a"]), 300, "IN"),
        (origin(), 86400, "IN"),
        (o(&["b", "sub"]), 0, "IN"),
        (o(&["m.n"]), 2147483647, "IN"),
        (o(&["*"]), 1, "CH"),
        (labels(&["h", "other"]), 300, "HS"),
        (o(&["sub"]), 300, "IN"),
        (o(&["MiX"]), 300, "IN"),
        (o(&["_sip", "_tcp"]), 60, "IN"),
        (o(&["a"]), 86400, "CH"),
    ]
}

fn class_of(c: &str) -> DNSClass {
    match c {
        "IN" => DNSClass::IN,
        "CH" => DNSClass::CH,
        "HS" => DNSClass::HS,
        _ => panic!("class"),
    }
}

pub fn entry(env: &(Labels, u32, &'static str), shape: &(&'static str, String, Vec<Field>, RData)) -> Entry {
    let rec = Rec { owner: env.0.clone(), ttl: env.1, class: env.2, rtype: shape.0, rdata: shape.2.clone() };
    let mut expect = Record::from_rdata(hname(&env.0), env.1, shape.3.clone());
    expect.dns_class = class_of(env.2);
    Entry { rec, expect, tag: format!("{} @env({} {} {})", shape.1, String::from_utf8_lossy(&env.0.join(&b'.')), env.1, env.2) }
}

/// Singles: every RDATA shape with a round-robin envelope, plus every envelope with a plain A.
pub fn singles() -> Vec<Entry> {
    let shapes = rdata_shapes();
    let envs = envelopes();
    let mut v: Vec<Entry> = shapes.iter().enumerate().map(|(i, s)| entry(&envs[i % envs.len()], s)).collect();
    let a = shapes.iter().find(|s| s.1 == "A 192.0.2.1").unwrap();
    for e in &envs {
        v.push(entry(e, a));
    }
    v
}

/// Sub-alphabet for files of 2 and 3 records: `nenv` envelopes x `nshape` RDATA shapes, chosen so
/// that owners, TTLs and classes collide (inheritance becomes expressible) and differ.
pub fn sub_alphabet(nenv: usize, nshape: usize) -> Vec<Entry> {
    let shapes = rdata_shapes();
    let envs = envelopes();
    // envelopes: a/300/IN, apex/86400/IN, a/86400/CH, sub/300/IN, h.other/300/HS, b.sub/0/IN
    let env_pick = [0usize, 1, 9, 6, 5, 2];
    let shape_pick = ["A 192.0.2.1", "MX #0", "TXT #4", "SOA #2", "NS #1", "CNAME #1"];
    let mut v = vec![];
    for e in env_pick.iter().take(nenv) {
        for s in shape_pick.iter().take(nshape) {
            let sh = shapes.iter().find(|x| x.1 == *s).unwrap();
            v.push(entry(&envs[*e], sh));
        }
    }
    v
}

/// Alphabet of the compact "chain" triples (state carried across lines): the record at position
/// p of a file always has RDATA shape p (A / MX / TXT, so no two records of a file share an
/// RRset) and one of 9 envelopes = 3 owners (apex, a, b.sub) x 3 (TTL, class) pairs with
/// colliding and differing TTLs and classes. Index = position * 9 + envelope.
pub const CHAIN_ENVS: usize = 9;
pub fn chain_alphabet() -> Vec<Entry> {
    let shapes = rdata_shapes();
    let owners = [origin(), o(&["a"]), o(&["b", "sub"])];
    let tc: [(u32, &'static str); 3] = [(300, "IN"), (86400, "IN"), (300, "CH")];
    let mut v = vec![];
    for s in ["A 192.0.2.1", "MX #0", "TXT #0"] {
        let sh = shapes.iter().find(|x| x.1 == s).unwrap();
        for ow in &owners {
            for (ttl, class) in tc {
                v.push(entry(&(ow.clone(), ttl, class), sh));
            }
        }
    }
    v
}

/// Every RDATA shape under ONE envelope (a.<origin> 300 IN): index = shape index. Used for files
/// whose records share an RRset (same owner, type, TTL, class; different RDATA).
pub fn rrset_alphabet() -> Vec<Entry> {
    let env = (o(&["a"]), 300u32, "IN");
    rdata_shapes().iter().map(|s| entry(&env, s)).collect()
}

/// Ordered pairs (and, for types with at most 4 shapes, ordered triples) of DISTINCT shapes of one type.
pub fn rrset_tuples(alpha: &[Entry]) -> Vec<Vec<usize>> {
    let mut out = vec![];
    let n = alpha.len();
    for i in 0..n {
        for j in 0..n {
            if i == j || alpha[i].rec.rtype != alpha[j].rec.rtype {
                continue;
            }
            out.push(vec![i, j]);
            let group = alpha.iter().filter(|e| e.rec.rtype == alpha[i].rec.rtype).count();
            if group <= 4 {
                for k in 0..n {
                    if k != i && k != j && alpha[k].rec.rtype == alpha[i].rec.rtype {
                        out.push(vec![i, j, k]);
                    }
                }
            }
        }
    }
    out
}

/// Every RDATA shape in the classes CH and HS (a.<origin> 300 CH|HS): index = shape * 2 + class.
pub fn class_alphabet() -> Vec<Entry> {
    let mut v = vec![];
    for s in rdata_shapes().iter() {
        for c in ["CH", "HS"] {
            v.push(entry(&(o(&["a"]), 300u32, c), s));
        }
    }
    v
}

/// Depth-4 chains: shapes A / MX / TXT / AAAA at positions 1..4, 6 envelopes = owners (apex, a) x
/// (TTL, class) in {300 IN, 86400 IN, 300 CH}. Index = position * 6 + envelope.
pub const CHAIN4_ENVS: usize = 6;
pub fn chain4_alphabet() -> Vec<Entry> {
    let shapes = rdata_shapes();
    let owners = [origin(), o(&["a"])];
    let tc: [(u32, &'static str); 3] = [(300, "IN"), (86400, "IN"), (300, "CH")];
    let mut v = vec![];
    for s in ["A 192.0.2.1", "MX #0", "TXT #0", "AAAA 2001:db8::1"] {
        let sh = shapes.iter().find(|x| x.1 == s).unwrap();
        for ow in &owners {
            for (ttl, class) in tc {
                v.push(entry(&(ow.clone(), ttl, class), sh));
            }
        }
    }
    v
}

/// Record types of the alphabet whose presentation format ends in a free-form hex / base64 field
/// in which the type's RFC allows white space (the field may be written as several tokens):
/// TLSA (RFC 6698 2.2), SMIMEA (RFC 8162 2, = TLSA), DS (RFC 4034 5.3), CERT (RFC 4398 2.2).
pub const SPLITTABLE: [(&str, &str); 4] = [("TLSA", "hex"), ("SMIMEA", "hex"), ("DS", "hex"), ("CERT", "b64")];
/// Trailing blobs whose RFC is silent about inner white space (RFC 4255 3.2 SSHFP, RFC 7929 2.3
/// OPENPGPKEY): splitting is only observed, not judged.
pub const SPLIT_OBSERVED: [(&str, &str); 2] = [("SSHFP", "hex"), ("OPENPGPKEY", "b64")];

/// Entries (envelope a.<origin> 300 IN) whose RDATA ends in a blob: every such shape of the
/// alphabet, followed by longer blobs (used by the thorough tier). Returns (entries, number of
/// regular ones).
pub fn blob_entries() -> (Vec<Entry>, usize) {
    use Field::*;
    let env = (o(&["a"]), 300u32, "IN");
    let mut v: Vec<Entry> = rdata_shapes()
        .iter()
        .filter(|s| SPLITTABLE.iter().chain(SPLIT_OBSERVED.iter()).any(|(t, _)| *t == s.0) && matches!(s.2.last(), Some(Lit(_))))
        .map(|s| entry(&env, s))
        .collect();
    let regular = v.len();
    let d = bytes(128, 17);
    let f = vec![Int(3), Int(1), Int(2), Lit(hex(&d))];
    v.push(entry(&env, &("TLSA", "TLSA long (128 octets)".to_string(), f.clone(), RData::TLSA(TLSA::new(3.into(), 1.into(), 2.into(), d.clone())))));
    v.push(entry(&env, &("SMIMEA", "SMIMEA long (128 octets)".to_string(), f, RData::SMIMEA(SMIMEA::new(3.into(), 1.into(), 2.into(), d)))));
    let d = bytes(64, 19);
    v.push(entry(
        &env,
        &(
            "DS",
            "DS long (64 octets)".to_string(),
            vec![Int(4711), Int(13), Int(4), Lit(hex(&d))],
            RData::DNSSEC(DNSSECRData::DS(DS::new(4711, Algorithm::from_u8(13), DigestType::from(4), d))),
        ),
    ));
    for (n, seed) in [(598usize, 23u8), (599, 29), (600, 31)] {
        // three residues mod 3: no padding, one and two padding characters
        let d = bytes(n, seed);
        v.push(entry(
            &env,
            &(
                "CERT",
                format!("CERT long ({n} octets)"),
                vec![Int(1), Int(2), Int(3), Lit(b64(&d))],
                RData::CERT(CERT::new(cert::CertType::from(1), 2, cert::Algorithm::from(3), d)),
            ),
        ));
    }
    (v, regular)
}
