//! C20 — zone files load to exactly the records they denote; malformed text gives an error,
//! never a panic or an endless loop.
//!
//! Seam: `hickory_proto::serialize::txt::Parser::new(text, path, Some(origin)).parse()`.
//!
//! Valid direction (E-ENUM): every record of the alphabet (all 22 parser-supported types x 2..4
//! value shapes, TXT 15) is printed by the independent RFC 1035 §5 printer `vref::masterfile`
//! under EVERY legal layout vector (file: LF/CRLF, final newline, `$TTL` first; record: `$ORIGIN`
//! before it, blank line, owner abs/relative/`@`/inherited, TTL explicit/omitted/own `$TTL`,
//! class explicit/omitted, field order, separators, comments, parentheses over 1..3 lines,
//! quoted/unquoted strings, RDATA names abs/relative/`@`); ordered pairs (thorough: triples) of a
//! sub-alphabet under every vector of a reduced profile. Oracle: the parse succeeds, the loaded
//! map flattened to (owner, TTL, class, type, RDATA) equals the records handed to the printer
//! (names case-insensitively, strings byte-exactly), the returned origin is the argument.
//!
//! Malformed direction: all strings of length <= 5/6 over 15 characters, every 1-character edit
//! of ~60 valid seed files (thorough: 2-character edits of the 8 shortest), growth families
//! n = 2^0..2^16 and `$INCLUDE` recursion in a scratch directory. Oracle: `parse()` returns
//! (Ok or Err) — no panic, and every case finishes (watchdog).

mod alphabet;
mod audit;
mod extra;
mod loader;
mod malformed;
mod valid;

use std::sync::Mutex;

use serde_json::{json, Value};
use vcore::{Ctx, PanicInfo};
use vref::masterfile::{DIMS, GDIMS, NDIMS, NGDIMS};

use valid::{Enum, Profile, Stats, World};

/// Panics are keyed by their site. The lexer's artificial per-token character budget
/// (`assert!(i < 4095)`) is recognised by its message so that the key survives line shifts.
pub fn panic_key(p: &PanicInfo) -> String {
    let loc = vcore::short_loc(&p.loc);
    if loc.contains("serialize/txt/zone_lex.rs") && p.msg.contains("i < 4095") {
        "panic:zone_lex:next_token-char-budget".to_string()
    } else if loc.contains("rr/rdata/svcb.rs") && p.msg.starts_with("infallible") {
        "panic:svcb:parse_alpn-expect-infallible".to_string()
    } else if loc.contains("rr/rdata/svcb.rs") && (p.msg.contains("when slicing") || p.msg.contains("slice index")) {
        "panic:svcb:from_tokens-quote-strip".to_string()
    } else {
        format!("panic:{loc}")
    }
}

fn replay(ctx: &Ctx, w: &World, case: &Value) {
    // a watchdog artefact wraps the description of the running case in a string
    let case: Value = match case["case"].as_str() {
        Some(s) => serde_json::from_str(s).unwrap_or(Value::Null),
        None => case.clone(),
    };
    ctx.with_local(|l| match case["kind"].as_str().unwrap_or("") {
        "valid" => valid::replay(w, &case, l),
        "text" => {
            if let Some(t) = case["text"].as_str() {
                let c = malformed::run_text(w, case["family"].as_str().unwrap_or("text"), t, None, case["with_origin"].as_bool().unwrap_or(true), l);
                eprintln!("replay text: {c}");
            } else {
                malformed::replay_growth(w, &case, l);
            }
        }
        "growth" => malformed::replay_growth(w, &case, l),
        "blob-split" => extra::replay_blob_split(w, &case, l),
        "audit" => audit::replay(w, &case, l),
        "loader" => loader::replay_loader(ctx, w, &case, l),
        "include-valid" => loader::replay_include(ctx, w, &case, l),
        "short-range" => malformed::replay_short_range(w, &case, l),
        "include" => {
            let dir = malformed::scratch_dir();
            let _ = std::fs::remove_dir_all(&dir);
            std::fs::create_dir_all(&dir).expect("scratch dir");
            malformed::includes(ctx, w, &dir);
            let _ = std::fs::remove_dir_all(&dir);
        }
        other => eprintln!("cannot replay case kind {other:?}; re-run the tier instead"),
    });
}

/// Run one valid-direction family: every tuple x every legal layout vector of the profile.
#[allow(clippy::too_many_arguments)]
fn run_family(
    ctx: &Ctx,
    w: &World,
    name: &str,
    alpha_name: &'static str,
    alpha: &[alphabet::Entry],
    tuples: &[Vec<usize>],
    prof: &Profile,
    total: &Mutex<Stats>,
    profiles: &mut serde_json::Map<String, Value>,
) -> Stats {
    profiles.insert(name.to_string(), prof.describe());
    let stats = Mutex::new(Stats::default());
    ctx.par_run(tuples.len() as u64, 1, |i, l| {
        let en = Enum { ctx, w, alpha_name, alpha, profile: prof, stats: &stats };
        en.run_tuple(&tuples[i as usize], l);
    });
    let st = stats.into_inner().unwrap();
    ctx.set(&format!("valid_{}_tuples", name.replace('-', "_")), json!(tuples.len()));
    ctx.set(&format!("valid_{}_files", name.replace('-', "_")), json!(st.legal));
    eprintln!("[C20] {name}: tuples={} legal={} ok={} violating={} minimised={} unjudged={} at {:.1}s", tuples.len(), st.legal, st.ok, st.violating, st.minimised, st.unjudged, ctx.elapsed_s());
    if st.ok == 0 {
        ctx.machinery_failure(&format!("vacuous: family {name} has no accepted file"));
    }
    total.lock().unwrap().add(&st);
    st
}

fn main() {
    // a stack overflow / abort in the code under test must become a verdict, not a dead check
    vcore::supervise("C20");
    vcore::install_log_evaluation(); // logging is part of the environment: log arguments are evaluated as under a real subscriber
    let ctx = Ctx::from_args("C20", "exploration");
    let thorough = !ctx.quick();
    let w = World::new();

    if let Some((_key, case)) = ctx.replay_case() {
        replay(&ctx, &w, &case);
        ctx.finish(false);
    }

    ctx.set_rule(
        "VALID: every record of the alphabet (22 types x 2..4 value shapes, TXT 15; 10 owner/TTL/class envelopes) x EVERY legal \
         layout vector of the independent printer vref::masterfile (file: eol, final newline, $TTL first; record: $ORIGIN before, \
         blank line, owner form, TTL form, class form, order, separators, comment, parentheses, string quoting, RDATA name form); \
         every ordered pair (thorough: triple) of a sub-alphabet x every legal vector of a reduced profile (see coverage.profiles); \
         every ordered triple of 9 owner/TTL/class envelopes on plain A/MX/TXT records x every legal vector of the state-carrying \
         dimensions (owner, TTL, class form, $ORIGIN change, $TTL) in both tiers. \
         Extension families: ordered pairs/triples of DISTINCT RDATA shapes of one type in one RRset; every shape in classes CH and \
         HS; (thorough) every ordered 4-tuple of 6 envelopes on A/MX/TXT/AAAA x the state-carrying dimensions; names at the 63/255 \
         octet limits relative to origins of 9/129/193/253 octets at every name position (beyond the limit: must be rejected); \
         decimal TTL tokens (leading zeros, up to 2^31-1); TOKEN SPLITTING: for every type whose RDATA ends in a free-form hex / \
         base64 field in which its RFC allows white space (TLSA RFC 6698 2.2, SMIMEA RFC 8162, DS RFC 4034 5.3, CERT RFC 4398 2.2) the \
         field of every such alphabet shape is written as 2 tokens cut at EVERY character position (quick: 3 tokens at every pair of \
         positions for TLSA/DS; thorough: 3 tokens everywhere + blobs of 128/64/598..600 octets) x separators {space, tab, newline in \
         parentheses, comment + newline in parentheses}: the file must load to the same record as the un-split one (SSHFP RFC 4255 and \
         OPENPGPKEY RFC 7929 are silent about inner white space: split outcome only counted; DNSKEY/RRSIG/CDS/... are not \
         parser-supported types); AUDIT families (audit.rs; every shape = all 80 RDATA shapes under a.<origin> 300 IN): paren-pos = one \
         parenthesised group opened before and closed after EVERY pair of token boundaries of the RDATA (empty groups, tight, tokens \
         after the group) x inner separators {all spaces, all newlines, all comment+newline, one newline / one comment+newline at each \
         inner boundary}, plus two groups per record; mnemonic-case = class and type in upper/lower/mixed case (also CH/HS); \
         value-forms = leading zeros on every integer field, upper-case IPv6 and hex; origin-knob = Parser::new origin argument FQDN / \
         non-FQDN Name / other letter case / root / None + $ORIGIN entry, relative $ORIGIN argument; svc-params = every order of the \
         SvcParams; line-seq = every sequence of <= 3 (thorough 4) line kinds {record stating everything, inheriting everything, \
         multi-line with comments, relative; $ORIGIN child/back; $TTL; $INCLUDE; empty / white-space / comment / indented-comment line}; \
         must-reject = certainly malformed text derived from every shape (unclosed parenthesis with every ending, stray ')', unclosed \
         quote, every too-short RDATA, surplus token after fixed-arity RDATA, every integer field above its width / negative / not a \
         number, bad IPv4/IPv6, odd hex, bad base64, TTL beyond 32 bits, no TTL anywhere, blank first owner, unknown class/type, meta \
         and unsupported types, relative owner with no origin in force, duplicate SvcParamKey, TXT without strings, 256-octet \
         character-strings, directives without argument, empty labels, lone CR, control characters, an error after valid records): \
         Err required; only counted (still one unambiguous record, accepted by common servers, or an explicit loud refusal): repeated \
         TTL/class fields, '+' signs, owner without type, lower-case $origin/$ttl, RFC 3597 generic forms, lower-case CSYNC type list. \
         text-limits = content unit {1-, 2-, 3-, 4-octet characters, \\DDD of an octet >= 0x80 (4 characters = 1 octet), \\\" and \\\\ \
         (2 characters = 1 octet)} x OCTET length {254, 255, 256, 257} x quoted/unquoted for every length-limited text field (TXT single / \
         among short strings, HINFO cpu/os, NAPTR flags/services/regexp, CAA tag; CAA value has no limit) and labels of 62..65 / names \
         of 254..257 octets with escaped dots as owner, RDATA name and $ORIGIN argument: within the limit in OCTETS the field loads to \
         exactly those octets, beyond it Err. \
         LOADER knobs: zone files x store {file, sqlite with a fresh journal} x zone type {Primary, Secondary, External} x AXFR policy \
         {Deny, AllowAll, AllowSigned} x {root_dir + relative path, absolute path} x nx-proof {none, NSEC, NSEC3}: valid files load \
         exactly whatever the knobs, files with an error after valid records load NOTHING. LOADER differential: SOA+NS+records written to a scratch root and loaded \
         by the real FileZoneHandler::try_from_config(root_dir, zone_path), loaded zone and AXFR answer of the real Catalog == records \
         of the file; $INCLUDE in the valid direction: a 4-record file split at every pair of positions into parent + included file \
         (nested once) x included-file origin (inherited / own $ORIGIN; the unsupported $INCLUDE origin argument is only counted) x relative names on either side x final \
         newlines x entry style x eol x path form, through the parser and through the file store. \
         Oracle: parse Ok, loaded (owner,TTL,class,type,RDATA) set == records printed, returned origin == argument. \
         MALFORMED: all strings of length <= 5 (thorough 6) over the 15 characters ' \\t\\n\\r();\"\\\\$@.a0*' (with and without an \
         origin argument), every 1-character deletion/insertion/substitution of the seed files (thorough: all 2-edits of the 8 \
         shortest; both tiers: all 2-edits of two chain files), growth families n=2^0..2^16 (thorough 2^20 characters / 2^18 records), \
         $INCLUDE recursion/chains, TTL tokens of length <= 4 (thorough 5) over digits and unit letters plus 2^31/2^32 boundary values \
         at three positions. Oracle: returns Ok or Err, no panic, finishes. \
         Non-trivial = distinct valid texts with at least one inheritance / relative name / continuation / escape, distinct \
         non-blank short strings that parse Ok, distinct rejected edits, growth points.",
    );
    ctx.assume("vref::masterfile prints RFC 1035 §5.1 / RFC 2308 §4 syntax only; an omitted class before any stated class denotes IN");
    ctx.assume("expected RDATA values are built with hickory's constructors (not its text parser) from the same typed values the printer receives");
    ctx.assume("loader differential: zone class IN, records in zone, no CNAME beside other data (the store refuses those; the statement is silent)");
    ctx.assume("$INCLUDE: RFC 1035 5.1 semantics (the included file is read in place with the origin in force or its own origin argument; the parent's origin is unchanged afterwards); owner/TTL/class are stated explicitly at the file boundaries");
    ctx.assume("RRsets that RFC 2181 §5.2 forbids (mixed TTL/class, two SOAs, two CNAMEs) are run but their record comparison is not judged");
    ctx.case_timeout_s.store(if thorough { 180 } else { 60 }, std::sync::atomic::Ordering::Relaxed);

    let dir = malformed::scratch_dir();
    let _ = std::fs::remove_dir_all(&dir);
    if let Err(e) = std::fs::create_dir_all(&dir) {
        vcore::machinery_exit(&format!("cannot create scratch dir {dir:?}: {e}"));
    }

    // ---------------------------------------------------------------------------------- valid
    let singles = alphabet::singles();
    let sub = alphabet::sub_alphabet(6, 6);
    let total = Mutex::new(Stats::default());
    let mut profiles = serde_json::Map::new();

    // files of one record: full layout space, one work item per (record, file layout slice)
    {
        let prof = Profile::full_single();
        profiles.insert("single".into(), prof.describe());
        let stats = Mutex::new(Stats::default());
        // split the work of one record by the `origin` dimension to balance the load
        let mut profs = vec![];
        for o in 0..DIMS[0].1.len() as u8 {
            for s in 0..DIMS[6].1.len() as u8 {
                let mut p = prof.clone();
                p.per[0][0] = vec![o];
                p.per[0][6] = vec![s];
                profs.push(p);
            }
        }
        let n = (singles.len() * profs.len()) as u64;
        ctx.par_run(n, 1, |i, l| {
            let (ri, pi) = (i as usize / profs.len(), i as usize % profs.len());
            let en = Enum { ctx: &ctx, w: &w, alpha_name: "singles", alpha: &singles, profile: &profs[pi], stats: &stats };
            en.run_tuple(&[ri], l);
        });
        let st = stats.into_inner().unwrap();
        ctx.set("valid_single_records", json!(singles.len()));
        ctx.set("valid_single_files", json!(st.legal));
        eprintln!("[C20] singles: legal={} ok={} violating={} minimised={}", st.legal, st.ok, st.violating, st.minimised);
        // vacuity: every value of every layout dimension must have been printed and accepted
        for d in 0..NDIMS {
            for (v, name) in DIMS[d].1.iter().enumerate() {
                // owner=inherit needs a previous record: exercised by the pair/triple files
                if st.dimvals[d][v] == 0 && !(d == 2 && v == 3) {
                    ctx.machinery_failure(&format!("vacuous: layout choice {}={} never legal in single-record files", DIMS[d].0, name));
                }
            }
        }
        for d in 0..NGDIMS {
            for (v, name) in GDIMS[d].1.iter().enumerate() {
                if st.gvals[d][v] == 0 {
                    ctx.machinery_failure(&format!("vacuous: file layout choice {}={} never used", GDIMS[d].0, name));
                }
            }
        }
        total.lock().unwrap().add(&st);
    }

    eprintln!("[C20] singles done at {:.1}s", ctx.elapsed_s());
    // ordered pairs
    {
        let prof = Profile::pair(thorough);
        profiles.insert("pair".into(), prof.describe());
        let (nenv, nshape) = if thorough { (5, 6) } else { (3, 3) };
        let pick: Vec<usize> = (0..36).filter(|i| i / 6 < nenv && i % 6 < nshape).collect();
        let stats = Mutex::new(Stats::default());
        let n = (pick.len() * pick.len()) as u64;
        ctx.par_run(n, 1, |i, l| {
            let (a, b) = (pick[i as usize / pick.len()], pick[i as usize % pick.len()]);
            let en = Enum { ctx: &ctx, w: &w, alpha_name: "sub", alpha: &sub, profile: &prof, stats: &stats };
            en.run_tuple(&[a, b], l);
        });
        let st = stats.into_inner().unwrap();
        ctx.set("valid_pair_alphabet", json!(pick.len()));
        ctx.set("valid_pair_files", json!(st.legal));
        eprintln!("[C20] pairs: legal={} ok={} violating={} minimised={} unjudged={}", st.legal, st.ok, st.violating, st.minimised, st.unjudged);
        ctx.set("valid_pair_files_unjudged_rrset_conflict", json!(st.unjudged));
        for (d, vals) in [(2usize, vec![3usize]), (3, vec![1, 2]), (4, vec![1])] {
            for v in vals {
                if st.dimvals[d][v] == 0 {
                    ctx.machinery_failure(&format!("vacuous: {}={} never legal in two-record files", DIMS[d].0, DIMS[d].1[v]));
                }
            }
        }
        total.lock().unwrap().add(&st);
    }

    eprintln!("[C20] pairs done at {:.1}s", ctx.elapsed_s());
    // compact "chain" triples (both tiers): three plain records (A, MX, TXT) x every ordered triple of
    // 9 owner/TTL/class envelopes x every legal vector of the state-carrying layout dimensions
    // (owner form, TTL form, class form, $ORIGIN before the record, $TTL first), everything else plain
    {
        let prof = Profile::triple();
        profiles.insert("chain-triple".into(), prof.describe());
        let chain = alphabet::chain_alphabet();
        let stats = Mutex::new(Stats::default());
        let k = alphabet::CHAIN_ENVS;
        let n = (k * k * k) as u64;
        ctx.par_run(n, 1, |i, l| {
            let i = i as usize;
            let en = Enum { ctx: &ctx, w: &w, alpha_name: "chain", alpha: &chain, profile: &prof, stats: &stats };
            en.run_tuple(&[i / (k * k), k + i / k % k, 2 * k + i % k], l);
        });
        let st = stats.into_inner().unwrap();
        ctx.set("valid_chain_triple_envelopes", json!(k));
        ctx.set("valid_chain_triple_files", json!(st.legal));
        eprintln!("[C20] chain triples: legal={} ok={} violating={} minimised={} unjudged={}", st.legal, st.ok, st.violating, st.minimised, st.unjudged);
        for (d, vals) in [(0usize, vec![2usize, 3]), (2, vec![1, 2, 3]), (3, vec![1, 2]), (4, vec![1])] {
            for v in vals {
                if st.dimvals[d][v] == 0 {
                    ctx.machinery_failure(&format!("vacuous: {}={} never legal in chain triples", DIMS[d].0, DIMS[d].1[v]));
                }
            }
        }
        total.lock().unwrap().add(&st);
    }
    eprintln!("[C20] chain triples done at {:.1}s", ctx.elapsed_s());

    // records that share an RRset: ordered pairs / triples of distinct RDATA shapes of one type
    {
        let alpha = alphabet::rrset_alphabet();
        let tuples = alphabet::rrset_tuples(&alpha);
        let pairs: Vec<Vec<usize>> = tuples.iter().filter(|t| t.len() == 2).cloned().collect();
        let triples: Vec<Vec<usize>> = tuples.iter().filter(|t| t.len() == 3).cloned().collect();
        let st = run_family(&ctx, &w, "rrset-pair", "rrset", &alpha, &pairs, &Profile::rrset(2), &total, &mut profiles);
        if st.dimvals[2][3] == 0 {
            ctx.machinery_failure("vacuous: no inherited owner in the RRset pairs");
        }
        run_family(&ctx, &w, "rrset-triple", "rrset", &alpha, &triples, &Profile::rrset(3), &total, &mut profiles);
    }
    // every RDATA shape in the classes CH and HS
    {
        let alpha = alphabet::class_alphabet();
        let tuples: Vec<Vec<usize>> = (0..alpha.len()).map(|i| vec![i]).collect();
        run_family(&ctx, &w, "class-sweep", "class", &alpha, &tuples, &Profile::class_sweep(), &total, &mut profiles);
    }
    // names at the 63 / 255 octet limits relative to long origins
    {
        let n = extra::name_limits(&ctx);
        ctx.set("valid_name_limit_cases", json!(n));
        eprintln!("[C20] name limits: {} cases, within={} beyond-rejected={} at {:.1}s", n, ctx.outcome_count("limits:within:loaded-exactly"), ctx.outcome_count("limits:beyond:rejected"), ctx.elapsed_s());
        if ctx.outcome_count("limits:within:loaded-exactly") == 0 || ctx.outcome_count("limits:beyond:rejected") == 0 {
            ctx.machinery_failure("vacuous: name-limit family exercised only one side of the limit");
        }
    }
    // token-splitting dimension: trailing hex / base64 blobs written as 2..3 tokens
    {
        let n = extra::blob_splits(&ctx, &w, thorough);
        ctx.set("valid_blob_split_cases", json!(n));
        eprintln!("[C20] blob splits: {} cases, ok={} at {:.1}s", n, ctx.outcome_count("blob-split:ok"), ctx.elapsed_s());
        if ctx.outcome_count("blob-split:ok") == 0 {
            ctx.machinery_failure("vacuous: no split blob was loaded exactly");
        }
    }
    // audit-round families (see audit.rs)
    {
        let n = audit::run(&ctx, &w, &dir.join("audit"), thorough);
        ctx.set("audit_cases", json!(n));
        eprintln!("[C20] audit families: {} cases, must-reject rejected={} at {:.1}s", n, ctx.outcome_count("audit:must-reject:rejected"), ctx.elapsed_s());
    }
    // the server's loader: parsed set == loaded zone == AXFR of the loaded zone
    {
        let n = loader::loader_family(&ctx, &w, &dir.join("loader"), thorough);
        ctx.set("loader_zone_files", json!(n));
        eprintln!("[C20] loader: {} zone files, ok={} skipped={} at {:.1}s", n, ctx.outcome_count("loader:ok"), ctx.outcome_count("loader:skipped:parser-level-difference"), ctx.elapsed_s());
        if ctx.outcome_count("loader:ok") == 0 {
            ctx.machinery_failure("vacuous: the loader differential never compared a loaded zone");
        }
        let nk = loader::loader_knobs(&ctx, &w, &dir.join("loader-knobs"), thorough);
        ctx.set("loader_knob_cases", json!(nk));
        eprintln!("[C20] loader knobs: {} loads, ok={} error-files-refused={} at {:.1}s", nk, ctx.outcome_count("loader-knobs:ok"), ctx.outcome_count("loader-knobs:error-file:nothing-loaded"), ctx.elapsed_s());
        if ctx.outcome_count("loader-knobs:ok") == 0 || ctx.outcome_count("loader-knobs:error-file:nothing-loaded") == 0 {
            ctx.machinery_failure("vacuous: loader-knob family");
        }
        let (ni, nl) = loader::include_family(&ctx, &w, &dir.join("include"));
        ctx.set("include_valid_cases", json!(ni));
        ctx.set("include_loader_cases", json!(nl));
        let no = loader::include_origin_argument_observation(&ctx, &w, &dir.join("include"));
        ctx.set("include_origin_argument_observation_cases", json!(no));
        eprintln!("[C20] $INCLUDE valid: {} parser cases (ok={}), {} loader cases (ok={}) at {:.1}s", ni, ctx.outcome_count("include:ok"), nl, ctx.outcome_count("include-loader:ok"), ctx.elapsed_s());
        if ctx.outcome_count("include:ok") == 0 {
            ctx.machinery_failure("vacuous: no $INCLUDE case was loaded exactly");
        }
    }
    // depth-4 owner/TTL/class chains (thorough)
    if thorough {
        let alpha = alphabet::chain4_alphabet();
        let k = alphabet::CHAIN4_ENVS;
        let mut tuples = vec![];
        for a in 0..k {
            for b in 0..k {
                for c in 0..k {
                    for d in 0..k {
                        tuples.push(vec![a, k + b, 2 * k + c, 3 * k + d]);
                    }
                }
            }
        }
        run_family(&ctx, &w, "chain4", "chain4", &alpha, &tuples, &Profile::chain4(), &total, &mut profiles);
    }
    // ordered triples (thorough)
    if thorough {
        let prof = Profile::triple();
        profiles.insert("triple".into(), prof.describe());
        // 4 envelopes x 3 shapes
        let pick: Vec<usize> = (0..36).filter(|i| i / 6 < 4 && i % 6 < 3).collect();
        let stats = Mutex::new(Stats::default());
        let k = pick.len();
        let n = (k * k * k) as u64;
        ctx.par_run(n, 1, |i, l| {
            let i = i as usize;
            let en = Enum { ctx: &ctx, w: &w, alpha_name: "sub", alpha: &sub, profile: &prof, stats: &stats };
            en.run_tuple(&[pick[i / (k * k)], pick[i / k % k], pick[i % k]], l);
        });
        let st = stats.into_inner().unwrap();
        ctx.set("valid_triple_alphabet", json!(k));
        ctx.set("valid_triple_files", json!(st.legal));
        total.lock().unwrap().add(&st);
    }
    let tot = total.into_inner().unwrap();
    ctx.set("profiles", Value::Object(profiles));
    ctx.set("valid_files_total", json!(tot.legal));
    ctx.set("valid_files_ok", json!(tot.ok));
    {
        let mut m = serde_json::Map::new();
        for d in 0..NDIMS {
            for (v, name) in DIMS[d].1.iter().enumerate() {
                m.insert(format!("{}={}", DIMS[d].0, name), json!(tot.dimvals[d][v]));
            }
        }
        ctx.set("valid_files_per_layout_choice", Value::Object(m));
    }
    if tot.ok == 0 {
        ctx.machinery_failure("vacuous: no valid file was accepted and matched");
    }
    ctx.with_local(|l| {
        for (i, e) in singles.iter().enumerate().step_by(9) {
            let (v, text) = valid::run_file(&w, &[e], &[0, 0, 0], &[[0; NDIMS]], l);
            l.sample(json!({"kind": "valid", "record": i, "tag": e.tag, "text": text.map(|t| if t.len() > 200 { format!("{}...", &t[..200]) } else { t }), "verdict": format!("{v:?}").chars().take(120).collect::<String>()}));
        }
    });

    eprintln!("[C20] valid direction done at {:.1}s", ctx.elapsed_s());
    // observations outside the statement
    let obs = ctx.with_local(|l| malformed::observations(&w, l));
    ctx.set("observations_not_judged", obs);

    // ------------------------------------------------------------------------------ malformed
    let max_len = if thorough { 6 } else { 5 };
    let shorts = malformed::short_strings(&ctx, &w, max_len);
    ctx.set("short_strings", json!(shorts));
    ctx.set("short_string_max_len", json!(max_len));

    eprintln!("[C20] short strings done at {:.1}s", ctx.elapsed_s());
    std::fs::write(dir.join("inc.zone"), "inc 1 IN A 192.0.2.7\n").expect("scratch write");

    let seeds = malformed::seeds(&w, &singles, &sub);
    ctx.set("seed_files", json!(seeds.len()));
    eprintln!("[C20] {} seed files, {} bytes", seeds.len(), seeds.iter().map(|s| s.text.len()).sum::<usize>());
    // every seed must itself be accepted (or be a listed finding of the valid direction)
    let mut seed_ok = 0;
    ctx.with_local(|l| {
        let main = dir.join("main.zone");
        for s in &seeds {
            let path = if s.text.contains("$INCLUDE") { Some(main.as_path()) } else { None };
            let c = malformed::run_text(&w, "seed", &s.text, path, true, l);
            if c == "ok:records" {
                seed_ok += 1;
            }
        }
        l.sample(json!({"kind": "seed", "what": seeds[0].what, "text": seeds[0].text}));
        l.sample(json!({"kind": "seed", "what": seeds[seeds.len() - 3].what, "text": seeds[seeds.len() - 3].text}));
    });
    ctx.set("seed_files_accepted", json!(seed_ok));
    if seed_ok * 2 < seeds.len() {
        ctx.machinery_failure("vacuous: fewer than half of the seed files are accepted by the parser");
    }
    let chain_seeds = malformed::chain_seeds();
    let (e1, e2) = malformed::edits(&ctx, &w, &seeds, &dir, if thorough { 8 } else { 0 }, &chain_seeds);
    ctx.set("single_edits", json!(e1));
    ctx.set("double_edits", json!(e2));

    eprintln!("[C20] edits done at {:.1}s", ctx.elapsed_s());
    let nt = malformed::ttl_tokens(&ctx, &w, if thorough { 5 } else { 4 });
    ctx.set("ttl_token_cases", json!(nt));
    eprintln!("[C20] ttl tokens: {} cases, decimal exact={} at {:.1}s", nt, ctx.outcome_count("ttl-token:decimal:exact"), ctx.elapsed_s());
    if ctx.outcome_count("ttl-token:decimal:exact") == 0 {
        ctx.machinery_failure("vacuous: no decimal TTL token was judged");
    }
    let mut points = malformed::growth(&ctx, &w, thorough);
    points.extend(malformed::includes(&ctx, &w, &dir));
    let _ = std::fs::remove_dir_all(&dir);
    if dir.exists() {
        ctx.machinery_failure("scratch directory could not be removed");
    }

    // time growth: reported per family; super-linear growth is an observation (the statement
    // only forbids endless loops, which the watchdog decides)
    {
        let mut fam: std::collections::BTreeMap<String, Vec<&malformed::GrowthPoint>> = Default::default();
        for p in &points {
            fam.entry(p.family.clone()).or_default().push(p);
        }
        let mut table = serde_json::Map::new();
        let mut superlinear = vec![];
        for (name, ps) in &fam {
            let last = ps.last().unwrap();
            let row: Vec<Value> = ps.iter().filter(|p| p.n.trailing_zeros() % 4 == 0 || p.n == last.n).map(|p| json!({"n": p.n, "bytes": p.len, "us": p.micros as u64, "outcome": p.outcome})).collect();
            table.insert(name.clone(), json!(row));
            // compare cost per byte at the largest size with the cost per byte 16x below
            if let Some(base) = ps.iter().find(|p| p.n * 16 == last.n) {
                if base.outcome != "panic" && last.outcome != "panic" && last.micros > 200_000 {
                    let r = (last.micros as f64 / last.len as f64) / (base.micros.max(1) as f64 / base.len as f64);
                    if r > 8.0 {
                        superlinear.push(json!({"family": name, "ratio_per_byte_16x": r, "us_at_max": last.micros as u64}));
                    }
                }
            }
        }
        ctx.set("growth_times", Value::Object(table));
        ctx.set("growth_superlinear_observations", json!(superlinear));
        ctx.set("growth_points", json!(points.len()));
    }
    if ctx.outcome_count("short:ok:empty") == 0 || ctx.outcome_count("edit:ok:records") == 0 {
        ctx.machinery_failure("vacuous: malformed direction never saw an accepted text");
    }
    ctx.finish(true);
}
