use hickory_proto::rr::Name;
use hickory_proto::serialize::txt::Parser;
use std::str::FromStr;

fn probe(t: &str) {
    let r = vcore::catch(|| Parser::new(t.to_string(), None, Some(Name::from_str("ex.test.").unwrap())).parse());
    match r {
        Err(p) => println!("{t:?}\n   PANIC {} @ {}", p.msg, p.loc),
        Ok(Err(e)) => println!("{t:?}\n   ERR {e}"),
        Ok(Ok((o, m))) => {
            println!("{t:?}\n   OK origin={o}");
            for (_k, rs) in m {
                for r in rs.records_without_rrsigs() {
                    println!("      {} {} {} {} {:?}", r.name, r.ttl, r.dns_class, r.record_type(), r.data);
                }
            }
        }
    }
}

fn main() {
    probe("@ 300 IN NS @\n");
    probe("@ 300 IN MX 10 @\n");
    probe("a 300 IN TXT ( \"a b\" )\n");
    probe("a 300 IN TXT \"a b\" ( \"c\" )\n");
    probe("a 300 IN SVCB 1 svc alpn=h2\n");
    probe("a 300 IN HTTPS 1 . alpn=\"h2,h3\"\n");
    probe("a 300 IN TXT a\\\"b\n");
    probe("a 300 IN TXT \"a\\\"b\\\\c\\\\1\"\n");
    probe("a 300 CH A 1.2.3.4\n b A 1.2.3.5\n");
    probe("$TTL 5\na 300 IN A 1.2.3.4\nb A 1.2.3.5\n");
    probe("m\\.n 300 IN A 1.2.3.4\n");
    probe("MiX 300 IN CNAME WwW.Other.\n");
    probe(&format!("a 300 IN A 1.2.3.4 ;{}\n", "c".repeat(5000)));
    probe("a 300 IN TXT \"x\ny\"\n");
    probe("$ORIGIN sub.ex.test.\n@ 1 IN A 1.2.3.4\n");
    probe("a 1 IN A 1.2.3.4 ; c");
    probe("a 1 IN CSYNC 66 3 A NS AAAA\n");
    probe("a 1 IN CAA 128 issuewild \";\"\n");
}
