//! Config-driven lifecycle: the zone is built ONLY through `SqliteZoneHandler::try_from_config`
//! (zone file + journal file in a temp dir, TSIG key from a key file), the way the server binary
//! does, and is STARTED SEVERAL TIMES: start #1 from the zone file (journal created), probes,
//! updates, drop; start #2 (journal exists: the recovery branch), the same probes, updates, drop;
//! start #3, probes. Every knob `try_from_config` hands on (AXFR policy, allow_update, DNSSEC flag)
//! must mean after a restart what it meant at the first start.
//!
//! Oracle: the outcome class of every probe (rcode, zone changed or not, zone data returned or
//! not) after start #2 / #3 equals the one of the same probe at start #1; the zone after a restart
//! is the zone before the stop (content, serial; on a DNSSEC-enabled zone every start re-signs
//! and bumps the serial: content without derived types, serial not lower); and the configuration's
//! own meaning: no zone data without a valid TSIG under AllowSigned, none at all under Deny, no
//! update effect without a valid TSIG or with allow_update = false.

use std::path::{Path, PathBuf};

use hickory_proto::dnssec::DnssecSigner;
use hickory_proto::rr::rdata::tsig::TsigAlgorithm;
use hickory_proto::rr::RecordType;
use hickory_server::dnssec::NxProofKind;
use hickory_server::store::sqlite::{SqliteConfig, TsigKeyConfig};
use hickory_server::zone_handler::{AxfrPolicy, DnssecZoneHandler, ZoneType};
use vref::tsig as rt;
use vref::update as ru;

use crate::{a, hname, Env, Handler, Msg, Rr, Snap, KEY1, NOW, ORIGIN};

#[derive(Clone, Copy, Debug, PartialEq, Eq)]
pub struct Cfg {
    pub axfr: u8, // 0 Deny, 1 AllowAll, 2 AllowSigned
    pub allow_update: bool,
    pub dnssec: bool,
}

impl Cfg {
    pub fn name(&self) -> String {
        format!("axfr={}/allow_update={}/dnssec={}", ["Deny", "AllowAll", "AllowSigned"][self.axfr as usize], self.allow_update, self.dnssec)
    }
    pub fn all(with_dnssec: bool) -> Vec<Cfg> {
        let mut v = vec![];
        for axfr in 0..3u8 {
            for allow_update in [false, true] {
                for dnssec in if with_dnssec { vec![false, true] } else { vec![false] } {
                    v.push(Cfg { axfr, allow_update, dnssec });
                }
            }
        }
        v
    }
}

pub struct Finding {
    pub key: String,
    pub what: String,
}

const ZONE_TEXT: &str = "@ 60 IN SOA n1.o. h.o. 5 1 1 1 1\n@ 60 IN NS n1.o.\na 60 IN A 10.0.0.1\n";

fn derived(t: u16) -> bool {
    matches!(t, 46 | 47 | 48 | 50 | 51)
}

/// One start of the server for this zone directory.
pub async fn start(dir: &Path, cfg: &Cfg, signer: Option<DnssecSigner>) -> Result<Env, String> {
    let config = SqliteConfig {
        zone_path: PathBuf::from("z.zone"),
        journal_path: PathBuf::from("z.jrnl"),
        allow_update: cfg.allow_update,
        tsig_keys: vec![TsigKeyConfig { name: "k1.".into(), key_file: PathBuf::from("k1.key"), algorithm: TsigAlgorithm::HmacSha256, fudge: 300 }],
    };
    let policy = [AxfrPolicy::Deny, AxfrPolicy::AllowAll, AxfrPolicy::AllowSigned][cfg.axfr as usize];
    let h = Handler::try_from_config(hname(ORIGIN), ZoneType::Primary, policy, cfg.dnssec, Some(dir), &config, if cfg.dnssec { Some(NxProofKind::Nsec) } else { None }).await?;
    if cfg.dnssec {
        if let Some(s) = signer {
            // bin/src/dnssec.rs load_keys
            h.add_zone_signing_key(s).await.map_err(|e| format!("add_zone_signing_key: {e}"))?;
            h.secure_zone().await.map_err(|e| format!("secure_zone: {e}"))?;
        }
    }
    Ok(Env::from_handler(h))
}

/// (name, request octets)
fn probes(n: usize) -> Vec<(&'static str, Vec<u8>)> {
    let key = crate::raw::key1();
    let upd = |id: u16, owner: String| crate::raw::encode_update(id, &Msg { prereqs: vec![], updates: vec![a(&owner, 60, 7)] }, &crate::raw::Layout::PLAIN);
    let axfr = crate::query_bytes(0x3001, ORIGIN, RecordType::AXFR);
    let signed_axfr = rt::sign(&axfr, &key, &key.name, NOW, 300, None);
    let mut bad = signed_axfr.clone();
    let l = bad.len();
    bad[l - 20] ^= 0x40; // inside the MAC
    vec![
        ("plain-query", crate::query_bytes(0x3000, ORIGIN, RecordType::SOA)),
        ("unsigned-axfr", axfr),
        ("bad-mac-axfr", bad),
        ("signed-axfr", signed_axfr),
        ("unsigned-update", upd(0x3002, format!("u{n}.z."))),
        ("bad-mac-update", {
            let mut b = rt::sign(&upd(0x3003, format!("b{n}.z.")), &key, &key.name, NOW, 300, None);
            let l = b.len();
            b[l - 20] ^= 0x40;
            b
        }),
        ("signed-update", rt::sign(&upd(0x3004, format!("p{n}.z.")), &key, &key.name, NOW, 300, None)),
    ]
}

fn view(s: &Snap, dnssec: bool) -> (std::collections::BTreeSet<Rr>, Option<u32>) {
    let mut s = s.clone();
    if dnssec {
        s.rrs.retain(|r| !derived(r.rtype));
        s.empty_keys.retain(|(_, t)| !derived(*t));
    }
    (s.content(), s.serial())
}

/// The whole lifecycle for one configuration in `dir` (emptied first).
pub fn run(dir: &Path, cfg: &Cfg, mut signer: impl FnMut() -> Option<DnssecSigner>, rt_: &tokio::runtime::Runtime) -> Vec<Finding> {
    let mut out = vec![];
    let _ = std::fs::remove_dir_all(dir);
    std::fs::create_dir_all(dir).expect("lifecycle dir");
    std::fs::write(dir.join("z.zone"), ZONE_TEXT).expect("zone file");
    std::fs::write(dir.join("k1.key"), KEY1).expect("key file");
    vsim::set_unix(NOW);
    let mut first: Vec<(String, (u8, bool, bool))> = vec![];
    let mut before_stop: Option<(std::collections::BTreeSet<Rr>, Option<u32>)> = None;
    for n in 1..=3usize {
        let s = signer();
        let env = match vcore::catch(|| rt_.block_on(start(dir, cfg, s))) {
            Err(p) => {
                out.push(Finding { key: format!("lifecycle:start-panicked:start#{n}"), what: format!("try_from_config panicked at start #{n}: {}", p.msg) });
                return out;
            }
            Ok(Err(e)) => {
                out.push(Finding { key: format!("lifecycle:start-failed:start#{}", if n == 1 { "1" } else { "n" }), what: format!("try_from_config failed at start #{n} ({}): {e}", cfg.name()) });
                return out;
            }
            Ok(Ok(e)) => e,
        };
        let snap0 = rt_.block_on(env.snapshot());
        // the zone after a restart is the zone before the stop
        if let Some((bc, bs)) = &before_stop {
            let (c, s) = view(&snap0, cfg.dnssec);
            if c != *bc {
                out.push(Finding { key: "lifecycle:state-differs-after-restart:content".into(), what: format!("start #{n} ({}): zone {:?}, before the stop {:?}", cfg.name(), c.iter().map(crate::rr_text).collect::<Vec<_>>(), bc.iter().map(crate::rr_text).collect::<Vec<_>>()) });
            }
            let serial_ok = match (s, bs) {
                (Some(x), Some(y)) if cfg.dnssec => ru::serial_cmp(x, *y) != ru::SerialOrd::Less,
                (x, y) => x == *y,
            };
            if !serial_ok {
                out.push(Finding { key: "lifecycle:state-differs-after-restart:serial".into(), what: format!("start #{n} ({}): serial {s:?}, before the stop {bs:?}", cfg.name()) });
            }
        }
        for (pi, (pname, bytes)) in probes(n).iter().enumerate() {
            let pre = rt_.block_on(env.snapshot());
            let res = vcore::catch(|| rt_.block_on(vsim::serve(&env.catalog, bytes, crate::Protocol::Tcp)));
            let post = rt_.block_on(env.snapshot());
            let changed = post != pre;
            let replies = match res {
                Err(p) => {
                    out.push(Finding { key: format!("lifecycle:panic:{pname}"), what: format!("start #{n} ({}): {}", cfg.name(), p.msg) });
                    continue;
                }
                Ok(r) => r.unwrap_or_default(),
            };
            let rcode = replies.first().and_then(|r| vref::wire::read_header(r).ok()).map(|h| h.rcode_low()).unwrap_or(255);
            let answers: usize = replies.iter().map(|r| vref::wire::read_header(r).map(|h| h.an as usize).unwrap_or(0)).sum();
            let is_axfr = pname.ends_with("axfr");
            let data = is_axfr && answers > 0;
            let class = (rcode, changed, data);
            // the configuration's own meaning
            let signed = pname.starts_with("signed");
            if data && (cfg.axfr == 0 || (cfg.axfr == 2 && !signed)) {
                out.push(Finding { key: format!("lifecycle:zone-data-against-the-axfr-policy:{pname}:start#{}", if n == 1 { "1" } else { "n" }), what: format!("start #{n} ({}): {answers} zone records returned for a {pname} request", cfg.name()) });
            }
            if changed && pname.ends_with("update") && (!signed || !cfg.allow_update) {
                out.push(Finding { key: format!("lifecycle:update-effect-without-authorisation:{pname}:start#{}", if n == 1 { "1" } else { "n" }), what: format!("start #{n} ({}): the zone changed on a {pname} request", cfg.name()) });
            }
            if n == 1 {
                first.push((pname.to_string(), class));
            } else if first.get(pi).map(|f| f.1) != Some(class) {
                let f = first[pi].1;
                out.push(Finding {
                    key: format!("lifecycle:probe-differs-after-restart:{pname}:{}->{}", ru::rcode_name(f.0), ru::rcode_name(rcode)),
                    what: format!("{}: probe {pname} at start #1: rcode {} / zone changed {} / zone data {}; at start #{n}: rcode {} / changed {} / data {}", cfg.name(), ru::rcode_name(f.0), f.1, f.2, ru::rcode_name(rcode), changed, data),
                });
            }
        }
        // a few update kinds before the stop (effective only where the configuration takes updates)
        let cur = rt_.block_on(env.snapshot()).serial().unwrap_or(0);
        let key = crate::raw::key1();
        for (ki, kname) in [["add an RR", "add a CNAME at a new name"], ["delete an RR (class NONE)", "replace the apex SOA (higher serial)"], ["add a TXT RR next to data", "delete a missing name"]][n - 1].iter().enumerate() {
            if let Some(k) = crate::kinds::all().into_iter().find(|k| k.name == *kname) {
                let bytes = rt::sign(&crate::raw::encode_update(0x3100 + ki as u16, &(k.build)(cur), &crate::raw::Layout::PLAIN), &key, &key.name, NOW, 300, None);
                let _ = vcore::catch(|| rt_.block_on(vsim::serve(&env.catalog, &bytes, crate::Protocol::Tcp)));
            }
        }
        before_stop = Some(view(&rt_.block_on(env.snapshot()), cfg.dnssec));
        drop(env);
    }
    let _ = std::fs::remove_dir_all(dir);
    out
}
