//! Hand-built request octets: UPDATE messages encoded WITHOUT hickory's encoder and signed by the
//! independent reference signer (`vref::tsig`), in the layouts RFC 1035 / 2136 / 8945 permit and
//! hickory's own emitter never produces (no compression at all, compression against the zone name,
//! upper-case spellings, a record in the additional section before the TSIG, a zone section that
//! is not "exactly one SOA question"). The checks send these next to the hickory-encoded form of
//! the same message: same meaning => same rcode and same zone.

use crate::{Msg, Rr, ORIGIN};
use vref::tsig as rt;
use vref::update as ru;
use vref::wire::{self, Labels};

/// What the zone section looks like.
#[derive(Clone, Debug, PartialEq, Eq, Hash)]
pub enum ZoneSection {
    /// one entry: ZNAME = the zone, ZTYPE = SOA, ZCLASS = IN
    Normal,
    /// ZOCOUNT = 0
    Count0,
    /// ZOCOUNT = 2 (the normal entry twice)
    Count2,
    /// one entry with another ZTYPE
    Type(u16),
    /// one entry with another ZCLASS
    Class(u16),
    /// one entry with another ZNAME
    Name(&'static str),
}

/// A record placed in the additional section BEFORE the TSIG.
#[derive(Clone, Copy, Debug, PartialEq, Eq, Hash)]
pub enum Extra {
    None,
    /// `n1.o. 60 IN A 10.9.9.9` (glue-like)
    Glue,
    /// an EDNS0 OPT pseudo-RR (payload 1232, no options)
    Opt,
}

#[derive(Clone, Debug, PartialEq, Eq, Hash)]
pub struct Layout {
    pub name: &'static str,
    /// owner names and the names inside NS / CNAME / SOA RDATA end in a pointer to the zone name of
    /// the zone section (offset 12) where they are at or below it
    pub compress: bool,
    /// every ASCII letter of every name in upper case
    pub upper: bool,
    pub extra: Extra,
    pub zone: ZoneSection,
}

impl Layout {
    pub const PLAIN: Layout = Layout { name: "uncompressed", compress: false, upper: false, extra: Extra::None, zone: ZoneSection::Normal };
}

/// The meaning-preserving layouts (the zone section is the normal one).
pub fn equivalent_layouts() -> Vec<Layout> {
    vec![
        Layout::PLAIN,
        Layout { name: "compressed-against-zone-name", compress: true, ..Layout::PLAIN },
        Layout { name: "upper-case", upper: true, ..Layout::PLAIN },
        Layout { name: "compressed+upper-case", compress: true, upper: true, ..Layout::PLAIN },
        Layout { name: "additional-glue-before-tsig", extra: Extra::Glue, ..Layout::PLAIN },
        Layout { name: "opt-before-tsig+compressed", extra: Extra::Opt, compress: true, ..Layout::PLAIN },
    ]
}

/// Zone sections RFC 2136 3.1.1 / 3.1.2 reject (FORMERR / NOTAUTH); `expected` lists the rcodes the
/// RFC text allows (empty: the RFC's answer depends on what the server is authoritative for and
/// is only observed).
pub fn odd_zone_sections() -> Vec<(Layout, Vec<u8>)> {
    let l = |name: &'static str, zone: ZoneSection| Layout { name, zone, ..Layout::PLAIN };
    vec![
        (l("zocount=0", ZoneSection::Count0), vec![ru::FORMERR]),
        (l("zocount=2", ZoneSection::Count2), vec![ru::FORMERR]),
        (l("ztype=A", ZoneSection::Type(1)), vec![ru::FORMERR]),
        (l("ztype=ANY", ZoneSection::Type(255)), vec![ru::FORMERR]),
        (l("ztype=AXFR", ZoneSection::Type(252)), vec![ru::FORMERR]),
        (l("ztype=NS", ZoneSection::Type(2)), vec![ru::FORMERR]),
        (l("zclass=CH", ZoneSection::Class(3)), vec![ru::NOTAUTH]),
        (l("zclass=ANY", ZoneSection::Class(255)), vec![ru::NOTAUTH, ru::FORMERR]),
        (l("zclass=NONE", ZoneSection::Class(254)), vec![ru::NOTAUTH, ru::FORMERR]),
        (l("zname=a.z.(inside the zone, no zone of its own)", ZoneSection::Name("a.z.")), vec![ru::NOTAUTH]),
        (l("zname=o.(another zone)", ZoneSection::Name("o.")), vec![ru::NOTAUTH]),
        (l("zname=.(the parent)", ZoneSection::Name(".")), vec![ru::NOTAUTH]),
    ]
}

fn cased(l: &Labels, upper: bool) -> Labels {
    if upper {
        l.iter().map(|x| x.to_ascii_uppercase()).collect()
    } else {
        l.clone()
    }
}

/// Emit `name`; with `suffix = Some((labels, offset))` a name at or below `labels` ends in a
/// compression pointer to `offset`.
fn emit(name: &Labels, upper: bool, suffix: Option<(&Labels, usize)>, out: &mut Vec<u8>) {
    if let Some((sfx, off)) = suffix {
        let lower = wire::lower(name);
        if !sfx.is_empty() && lower.len() >= sfx.len() && lower[lower.len() - sfx.len()..] == sfx[..] {
            for l in &cased(&name[..name.len() - sfx.len()].to_vec(), upper) {
                out.push(l.len() as u8);
                out.extend_from_slice(l);
            }
            out.push(0xc0 | (off >> 8) as u8);
            out.push(off as u8);
            return;
        }
    }
    wire::emit_name(&cased(name, upper), out);
}

fn emit_rdata(rr: &Rr, upper: bool, suffix: Option<(&Labels, usize)>) -> Vec<u8> {
    if rr.rdata.is_empty() {
        return vec![];
    }
    match rr.rtype {
        ru::T_NS | ru::T_CNAME | 12 => match wire::read_name(&rr.rdata, 0) {
            Ok((n, p)) if p == rr.rdata.len() => {
                let mut v = vec![];
                emit(&n, upper, suffix, &mut v);
                v
            }
            _ => rr.rdata.clone(),
        },
        ru::T_SOA => {
            let Ok((m, p)) = wire::read_name(&rr.rdata, 0) else { return rr.rdata.clone() };
            let Ok((r, p2)) = wire::read_name(&rr.rdata, p) else { return rr.rdata.clone() };
            let mut v = vec![];
            emit(&m, upper, suffix, &mut v);
            emit(&r, upper, suffix, &mut v);
            v.extend_from_slice(&rr.rdata[p2..]);
            v
        }
        _ => rr.rdata.clone(),
    }
}

fn emit_rr(rr: &Rr, upper: bool, suffix: Option<(&Labels, usize)>, out: &mut Vec<u8>) {
    emit(&rr.name, upper, suffix, out);
    out.extend_from_slice(&rr.rtype.to_be_bytes());
    out.extend_from_slice(&rr.class.to_be_bytes());
    out.extend_from_slice(&rr.ttl.to_be_bytes());
    let rd = emit_rdata(rr, upper, suffix);
    out.extend_from_slice(&(rd.len() as u16).to_be_bytes());
    out.extend_from_slice(&rd);
}

/// One RR as stand-alone octets, uncompressed, names optionally in upper case (owner and the names
/// inside NS / CNAME / PTR / SOA RDATA).
pub fn encode_rr(rr: &Rr, upper: bool) -> Vec<u8> {
    let mut v = vec![];
    emit_rr(rr, upper, None, &mut v);
    v
}

/// The unsigned UPDATE octets of `msg` in `layout`.
pub fn encode_update(id: u16, msg: &Msg, layout: &Layout) -> Vec<u8> {
    let origin = ru::name_from_str(ORIGIN);
    let (zname, ztype, zclass, zocount): (Labels, u16, u16, u16) = match &layout.zone {
        ZoneSection::Normal => (origin.clone(), ru::T_SOA, ru::CLASS_IN, 1),
        ZoneSection::Count0 => (origin.clone(), ru::T_SOA, ru::CLASS_IN, 0),
        ZoneSection::Count2 => (origin.clone(), ru::T_SOA, ru::CLASS_IN, 2),
        ZoneSection::Type(t) => (origin.clone(), *t, ru::CLASS_IN, 1),
        ZoneSection::Class(c) => (origin.clone(), ru::T_SOA, *c, 1),
        ZoneSection::Name(n) => (ru::name_from_str(n), ru::T_SOA, ru::CLASS_IN, 1),
    };
    let extra = if layout.extra == Extra::None { 0u16 } else { 1 };
    let mut v = Vec::with_capacity(128);
    v.extend_from_slice(&id.to_be_bytes());
    v.extend_from_slice(&[0x28, 0x00]); // QR=0, opcode 5 (UPDATE)
    v.extend_from_slice(&zocount.to_be_bytes());
    v.extend_from_slice(&(msg.prereqs.len() as u16).to_be_bytes());
    v.extend_from_slice(&(msg.updates.len() as u16).to_be_bytes());
    v.extend_from_slice(&extra.to_be_bytes());
    for _ in 0..zocount {
        wire::emit_name(&cased(&zname, layout.upper), &mut v);
        v.extend_from_slice(&ztype.to_be_bytes());
        v.extend_from_slice(&zclass.to_be_bytes());
    }
    // compression target: the first zone-section name, at offset 12 (never the root: a pointer to
    // a lone root octet saves nothing and is not what "at or below" means here)
    let suffix = if layout.compress && zocount >= 1 && !zname.is_empty() { Some((&zname, 12usize)) } else { None };
    for rr in msg.prereqs.iter().chain(msg.updates.iter()) {
        emit_rr(rr, layout.upper, suffix, &mut v);
    }
    match layout.extra {
        Extra::None => {}
        Extra::Glue => emit_rr(&Rr::new("n1.o.", 1, 1, 60, vec![10, 9, 9, 9]), layout.upper, suffix, &mut v),
        Extra::Opt => v.extend_from_slice(&[0, 0, 41, 0x04, 0xd0, 0, 0, 0, 0, 0, 0]),
    }
    v
}

/// `encode_update` signed by the reference signer (key name spelled as in the key).
pub fn signed_update(id: u16, msg: &Msg, layout: &Layout, key: &rt::Key, time: u64, fudge: u16) -> Vec<u8> {
    let unsigned = encode_update(id, msg, layout);
    rt::sign(&unsigned, key, &key.name, time, fudge, None)
}

/// The reference key that corresponds to `crate::signer1()`.
pub fn key1() -> rt::Key {
    rt::Key::new("k1.", rt::Alg::Sha256, crate::KEY1)
}
