//! The update-RR KINDS the live handler treats specially (RFC 2136 3.4.2: ignored adds, skipped
//! deletes, the class NONE/ANY forms, and messages mixing an ignored RR with an effective one), as
//! whole UPDATE messages over `kinds_zone()`. One list for the checks that need "one of every
//! kind" (C14 journals and replays them); C12 asserts at start-up that every RR used here is an atom
//! of its exhaustive update alphabet, so the two cannot drift apart.

use crate::{a, cname, empty, ns, soa, txt, with_class, Msg, Rr};
use vref::update as ru;

/// The zone the kinds refer to: one apex NS (so "delete the last apex NS" is skipped), data at
/// `a.z.`, a CNAME at `b.z.`, nothing at `a.a.z.`.
pub fn kinds_zone(serial: u32) -> Vec<Rr> {
    vec![soa("z.", 60, serial, 1), ns("z.", 60, "n1.o."), a("a.z.", 60, 1), cname("b.z.", 60, "a.z.")]
}

#[derive(Clone, Copy)]
pub struct Kind {
    pub name: &'static str,
    /// what RFC 2136 3.4.2 does with it on `kinds_zone`: "ignored", "skipped", "effective", "mixed"
    pub class: &'static str,
    /// the message, given the zone's current serial
    pub build: fn(u32) -> Msg,
}

fn upd(us: Vec<Rr>) -> Msg {
    Msg { prereqs: vec![], updates: us }
}

pub fn all() -> Vec<Kind> {
    vec![
        // ---- adds the server has to ignore (and journals with the rest of the message)
        Kind { name: "add SOA at a non-apex name", class: "ignored", build: |c| upd(vec![soa("a.z.", 60, c.wrapping_add(1), 2)]) },
        Kind { name: "add apex SOA with a lower serial", class: "ignored", build: |c| upd(vec![soa("z.", 60, c.wrapping_sub(1), 2)]) },
        Kind { name: "add apex SOA with an equal serial", class: "ignored", build: |c| upd(vec![soa("z.", 60, c, 2)]) },
        Kind { name: "add CNAME over existing data", class: "ignored", build: |_| upd(vec![cname("a.z.", 60, "b.z.")]) },
        Kind { name: "add data over an existing CNAME", class: "ignored", build: |_| upd(vec![a("b.z.", 60, 1)]) },
        Kind { name: "add a duplicate RR", class: "ignored", build: |_| upd(vec![a("a.z.", 60, 1)]) },
        Kind { name: "add an RR that differs in TTL only", class: "ignored", build: |_| upd(vec![a("a.z.", 0, 1)]) },
        // ---- deletes the server has to skip
        Kind { name: "delete the apex SOA RRset", class: "skipped", build: |_| upd(vec![empty("z.", ru::T_SOA, ru::CLASS_ANY, 0)]) },
        Kind { name: "delete the apex NS RRset", class: "skipped", build: |_| upd(vec![empty("z.", ru::T_NS, ru::CLASS_ANY, 0)]) },
        Kind { name: "delete the apex SOA RR", class: "skipped", build: |c| upd(vec![with_class(soa("z.", 0, c, 1), ru::CLASS_NONE)]) },
        Kind { name: "delete the last apex NS RR", class: "skipped", build: |_| upd(vec![with_class(ns("z.", 0, "n1.o."), ru::CLASS_NONE)]) },
        Kind { name: "delete all RRsets at the apex", class: "skipped", build: |_| upd(vec![empty("z.", ru::T_ANY, ru::CLASS_ANY, 0)]) },
        Kind { name: "delete a missing RR", class: "skipped", build: |_| upd(vec![with_class(a("a.a.z.", 0, 2), ru::CLASS_NONE)]) },
        Kind { name: "delete a missing RRset", class: "skipped", build: |_| upd(vec![empty("a.a.z.", ru::T_TXT, ru::CLASS_ANY, 0)]) },
        Kind { name: "delete a missing name", class: "skipped", build: |_| upd(vec![empty("a.a.z.", ru::T_ANY, ru::CLASS_ANY, 0)]) },
        // ---- the effective forms of every class
        Kind { name: "add an RR", class: "effective", build: |_| upd(vec![a("a.a.z.", 60, 1)]) },
        Kind { name: "add a TXT RR next to data", class: "effective", build: |_| upd(vec![txt("a.z.", 60, "t")]) },
        Kind { name: "delete an RR (class NONE)", class: "effective", build: |_| upd(vec![with_class(a("a.z.", 0, 1), ru::CLASS_NONE)]) },
        Kind { name: "delete an RRset (class ANY)", class: "effective", build: |_| upd(vec![empty("a.z.", ru::T_A, ru::CLASS_ANY, 0)]) },
        Kind { name: "delete a name (class ANY, type ANY)", class: "effective", build: |_| upd(vec![empty("b.z.", ru::T_ANY, ru::CLASS_ANY, 0)]) },
        Kind { name: "replace the apex SOA (higher serial)", class: "effective", build: |c| upd(vec![soa("z.", 60, c.wrapping_add(2), 2)]) },
        // ---- CNAME changes at names that exist (on a signed zone such a name also holds generated
        // NSEC / RRSIG RRsets, which do not count as "other data")
        Kind { name: "re-target an existing CNAME", class: "effective", build: |_| upd(vec![cname("b.z.", 60, "b.z.")]) },
        Kind { name: "add a CNAME at a new name", class: "effective", build: |_| upd(vec![cname("a.a.z.", 60, "a.z.")]) },
        Kind { name: "replace a host's A RRset by a CNAME in one message", class: "effective", build: |_| upd(vec![empty("a.z.", ru::T_A, ru::CLASS_ANY, 0), cname("a.z.", 60, "b.z.")]) },
        Kind { name: "replace a CNAME by an A RR in one message", class: "effective", build: |_| upd(vec![empty("b.z.", ru::T_CNAME, ru::CLASS_ANY, 0), a("b.z.", 60, 1)]) },
        // ---- an ignored / skipped RR next to an effective one in the same message
        Kind { name: "ignored non-apex SOA add, then an effective add", class: "mixed", build: |c| upd(vec![soa("a.z.", 60, c.wrapping_add(1), 2), a("a.a.z.", 60, 2)]) },
        Kind { name: "effective add, then ignored non-apex SOA add", class: "mixed", build: |c| upd(vec![a("a.a.z.", 60, 2), soa("a.z.", 60, c.wrapping_add(1), 2)]) },
        Kind { name: "skipped apex NS RRset delete, then an effective add", class: "mixed", build: |_| upd(vec![empty("z.", ru::T_NS, ru::CLASS_ANY, 0), a("a.a.z.", 60, 1)]) },
        Kind { name: "ignored CNAME over data, then an effective delete of that data", class: "mixed", build: |_| upd(vec![cname("a.z.", 60, "b.z."), with_class(a("a.z.", 0, 1), ru::CLASS_NONE)]) },
        Kind { name: "ignored data over CNAME, then an effective delete of the CNAME", class: "mixed", build: |_| upd(vec![a("b.z.", 60, 2), with_class(cname("b.z.", 0, "a.z."), ru::CLASS_NONE)]) },
    ]
}
