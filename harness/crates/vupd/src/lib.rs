//! stub created by the lead so that the workspace always loads
