//! vupd: glue shared by the dynamic-update checks C12 / C14 / C13.
//!
//! One seam: TSIG-signed UPDATE (and AXFR / SOA query) wire messages -> the real
//! `Catalog::handle_request` (via `vsim::serve`) -> a real `SqliteZoneHandler<SimProvider>`.
//!
//! * RRs, zones and messages are described in the reference model's own vocabulary
//!   (`vref::update::Rr`: lower-cased labels, numeric type/class, canonical RDATA bytes) and are
//!   turned into hickory `Record`s through hickory's wire decoder, exactly like a request would;
//! * `Env` owns catalog + handler (+ optional in-memory SQLite journal);
//! * `Snap` is the observable zone state (`records()` + empty RRset keys) in that vocabulary.

use std::collections::BTreeMap;
use std::str::FromStr;
use std::sync::Arc;

pub use hickory_net::xfer::Protocol;
use hickory_proto::op::update_message::UpdateMessage;
use hickory_proto::op::{Message, MessageType, OpCode, Query};
use hickory_proto::rr::rdata::tsig::TsigAlgorithm;
use hickory_proto::rr::{LowerName, Name, Record, RecordSet, RecordType, RrKey, TSigner};
use hickory_proto::serialize::binary::{BinDecodable, BinDecoder, BinEncodable, BinEncoder};
use hickory_server::store::in_memory::InMemoryZoneHandler;
use hickory_server::store::sqlite::{Journal, SqliteZoneHandler};
use hickory_server::zone_handler::{AxfrPolicy, Catalog, ZoneType};
use serde_json::{json, Value};
use vref::update as ru;
use vref::wire::{self, Labels};
use vsim::SimProvider;

pub use vref::update::Rr;

pub mod kinds;
pub mod lifecycle;
pub mod raw;

pub const ORIGIN: &str = "z.";
/// Virtual wall clock used by the update checks (vsim's default).
pub const NOW: u64 = 1_700_000_000;
pub const KEY1: &[u8] = b"0123456789abcdef0123456789abcdef";
pub const KEY2: &[u8] = b"fedcba9876543210fedcba9876543210";

pub type Handler = SqliteZoneHandler<SimProvider>;
pub type RecordMap = BTreeMap<RrKey, Arc<RecordSet>>;

pub fn hname(s: &str) -> Name {
    Name::from_str(s).unwrap()
}

pub fn signer(name: &str, key: &[u8], alg: TsigAlgorithm, fudge: u16) -> TSigner {
    TSigner::new(key.to_vec(), alg, hname(name), fudge).unwrap()
}

pub fn signer1() -> TSigner {
    signer("k1.", KEY1, TsigAlgorithm::HmacSha256, 300)
}

// ------------------------------------------------------------------------------------------
// RR constructors in the reference vocabulary

pub fn a(name: &str, ttl: u32, last: u8) -> Rr {
    Rr::new(name, ru::T_A, ru::CLASS_IN, ttl, vec![10, 0, 0, last])
}
pub fn txt(name: &str, ttl: u32, s: &str) -> Rr {
    let mut rd = vec![s.len() as u8];
    rd.extend_from_slice(s.as_bytes());
    Rr::new(name, ru::T_TXT, ru::CLASS_IN, ttl, rd)
}
pub fn cname(name: &str, ttl: u32, target: &str) -> Rr {
    Rr::new(name, ru::T_CNAME, ru::CLASS_IN, ttl, ru::name_wire(target))
}
pub fn ns(name: &str, ttl: u32, target: &str) -> Rr {
    Rr::new(name, ru::T_NS, ru::CLASS_IN, ttl, ru::name_wire(target))
}
/// SOA with the fixed names `n1.o.` / `h.o.` and refresh/retry/expire = 1.
pub fn soa(name: &str, ttl: u32, serial: u32, minimum: u32) -> Rr {
    Rr::new(name, ru::T_SOA, ru::CLASS_IN, ttl, ru::soa_rdata("n1.o.", "h.o.", serial, 1, 1, 1, minimum))
}
/// An RR with empty RDATA (the metavalue forms of RFC 2136 3.2.4 / 3.4.2.6).
pub fn empty(name: &str, rtype: u16, class: u16, ttl: u32) -> Rr {
    Rr::new(name, rtype, class, ttl, vec![])
}
pub fn with_class(mut rr: Rr, class: u16) -> Rr {
    rr.class = class;
    rr
}
pub fn with_ttl(mut rr: Rr, ttl: u32) -> Rr {
    rr.ttl = ttl;
    rr
}

pub fn name_str(l: &Labels) -> String {
    wire::name_to_string(l)
}

pub fn type_name(t: u16) -> String {
    match t {
        1 => "A".into(),
        2 => "NS".into(),
        5 => "CNAME".into(),
        6 => "SOA".into(),
        16 => "TXT".into(),
        251 => "IXFR".into(),
        252 => "AXFR".into(),
        253 => "MAILB".into(),
        254 => "MAILA".into(),
        255 => "ANY".into(),
        t => format!("TYPE{t}"),
    }
}

pub fn class_name(c: u16) -> String {
    match c {
        1 => "IN".into(),
        3 => "CH".into(),
        254 => "NONE".into(),
        255 => "ANY".into(),
        c => format!("CLASS{c}"),
    }
}

/// Human-readable one-line form of an RR (for witnesses).
pub fn rr_text(r: &Rr) -> String {
    let rd = if r.rdata.is_empty() {
        "-".to_string()
    } else {
        match r.rtype {
            1 if r.rdata.len() == 4 => format!("{}.{}.{}.{}", r.rdata[0], r.rdata[1], r.rdata[2], r.rdata[3]),
            2 | 5 => wire::read_name(&r.rdata, 0).map(|(n, _)| name_str(&n)).unwrap_or_else(|_| vcore::hex::enc(&r.rdata)),
            6 => format!(
                "serial={} min={}",
                ru::soa_serial(&r.rdata).map(|s| s.to_string()).unwrap_or("?".into()),
                r.rdata.len().checked_sub(4).map(|p| u32::from_be_bytes([r.rdata[p], r.rdata[p + 1], r.rdata[p + 2], r.rdata[p + 3]])).unwrap_or(0)
            ),
            16 => format!("\"{}\"", String::from_utf8_lossy(&r.rdata[1..])),
            _ => vcore::hex::enc(&r.rdata),
        }
    };
    format!("{} {} {} {} {}", name_str(&r.name), r.ttl, class_name(r.class), type_name(r.rtype), rd)
}

pub fn rr_json(r: &Rr) -> Value {
    json!({"n": name_str(&r.name), "t": r.rtype, "c": r.class, "ttl": r.ttl, "rd": vcore::hex::enc(&r.rdata), "text": rr_text(r)})
}

pub fn rr_from_json(v: &Value) -> Rr {
    Rr {
        name: ru::name_from_str(v["n"].as_str().unwrap_or(".")),
        rtype: v["t"].as_u64().unwrap_or(0) as u16,
        class: v["c"].as_u64().unwrap_or(0) as u16,
        ttl: v["ttl"].as_u64().unwrap_or(0) as u32,
        rdata: vcore::hex::dec(v["rd"].as_str().unwrap_or("")).unwrap_or_default(),
    }
}

// ------------------------------------------------------------------------------------------
// conversions reference vocabulary <-> hickory

/// Wire form of one RR (uncompressed).
pub fn rr_wire(rr: &Rr) -> Vec<u8> {
    let mut v = vec![];
    wire::emit_name(&rr.name, &mut v);
    v.extend_from_slice(&rr.rtype.to_be_bytes());
    v.extend_from_slice(&rr.class.to_be_bytes());
    v.extend_from_slice(&rr.ttl.to_be_bytes());
    v.extend_from_slice(&(rr.rdata.len() as u16).to_be_bytes());
    v.extend_from_slice(&rr.rdata);
    v
}

/// The hickory `Record` hickory's own decoder makes of the RR's wire form.
pub fn to_record(rr: &Rr) -> Record {
    let w = rr_wire(rr);
    let mut d = BinDecoder::new(&w);
    Record::read(&mut d).unwrap_or_else(|e| panic!("universe RR does not decode: {} ({e})", rr_text(rr)))
}

/// The reference form of a hickory `Record` (through hickory's encoder and the independent walker).
pub fn from_record(rec: &Record) -> Rr {
    let mut buf = Vec::with_capacity(64);
    {
        let mut enc = BinEncoder::new(&mut buf);
        rec.emit(&mut enc).expect("record encodes");
    }
    let raw = wire::read_record(&buf, 0).expect("walker reads hickory's record encoding");
    Rr {
        name: wire::lower(&raw.name),
        rtype: raw.rtype,
        class: raw.class,
        ttl: raw.ttl,
        rdata: ru::canonical_rdata(&buf, raw.rtype, raw.rdata_start, raw.rdata_end).expect("canonical rdata"),
    }
}

fn labels_to_name(l: &Labels) -> Name {
    let mut n = Name::from_labels(l.iter().map(|x| &x[..])).unwrap();
    n.set_fqdn(true);
    n
}

/// Streaming FNV-1a 64 (deterministic across runs).
pub struct Fnv(pub u64);
impl Fnv {
    pub fn new() -> Fnv {
        Fnv(0xcbf29ce484222325)
    }
    pub fn write(&mut self, b: &[u8]) {
        for x in b {
            self.0 ^= *x as u64;
            self.0 = self.0.wrapping_mul(0x100000001b3);
        }
    }
}
impl std::hash::Hasher for Fnv {
    fn finish(&self) -> u64 {
        self.0
    }
    fn write(&mut self, bytes: &[u8]) {
        Fnv::write(self, bytes)
    }
}

/// Deterministic 64-bit digest of any `Hash` value.
pub fn digest<T: std::hash::Hash>(x: &T) -> u64 {
    let mut h = Fnv::new();
    x.hash(&mut h);
    h.0
}

// ------------------------------------------------------------------------------------------
// observable zone state

#[derive(Clone, Debug, PartialEq, Eq, Hash, Default)]
pub struct Snap {
    /// all RRs (RRSIGs excluded), sorted
    pub rrs: Vec<Rr>,
    /// RRset keys present in the store that hold no RR, sorted
    pub empty_keys: Vec<(Labels, u16)>,
}

impl Snap {
    pub fn from_map(map: &RecordMap) -> Snap {
        let mut rrs = vec![];
        let mut empty_keys = vec![];
        for (k, set) in map.iter() {
            if set.is_empty() {
                let n = from_record(&Record::update0(Name::from(&k.name), 0, k.record_type).into_record_of_rdata());
                empty_keys.push((n.name, n.rtype));
            }
            for r in set.records_without_rrsigs() {
                rrs.push(from_record(r));
            }
        }
        rrs.sort();
        empty_keys.sort();
        Snap { rrs, empty_keys }
    }
    pub fn zone(&self) -> ru::Zone {
        ru::Zone { origin: ru::name_from_str(ORIGIN), class: ru::CLASS_IN, rrs: self.rrs.clone() }
    }
    /// Serial of the apex SOA (None if the zone has no apex SOA).
    pub fn serial(&self) -> Option<u32> {
        self.zone().serial()
    }
    /// Content with every SOA serial masked (the serial has its own oracle clause).
    pub fn content(&self) -> std::collections::BTreeSet<Rr> {
        self.zone().content()
    }
    /// Canonical state key: content + empty keys + every SOA serial relative to `initial_serial`.
    pub fn key(&self, initial_serial: u32) -> u64 {
        let mut h = Fnv::new();
        for r in &self.rrs {
            for l in &r.name {
                h.write(&[l.len() as u8]);
                h.write(l);
            }
            h.write(&[0]);
            h.write(&r.rtype.to_be_bytes());
            h.write(&r.class.to_be_bytes());
            h.write(&r.ttl.to_be_bytes());
            if r.rtype == ru::T_SOA {
                if let Some(ser) = ru::soa_serial(&r.rdata) {
                    h.write(b"soa");
                    h.write(&ser.wrapping_sub(initial_serial).to_be_bytes());
                    let rd = ru::soa_without_serial(&r.rdata);
                    h.write(&(rd.len() as u16).to_be_bytes());
                    h.write(&rd);
                    continue;
                }
            }
            h.write(&(r.rdata.len() as u16).to_be_bytes());
            h.write(&r.rdata);
        }
        h.write(b"|E|");
        for (n, t) in &self.empty_keys {
            for l in n {
                h.write(&[l.len() as u8]);
                h.write(l);
            }
            h.write(&[0]);
            h.write(&t.to_be_bytes());
        }
        h.0
    }
    pub fn to_json(&self) -> Value {
        json!({
            "rrs": self.rrs.iter().map(rr_json).collect::<Vec<_>>(),
            "empty_keys": self.empty_keys.iter().map(|(n, t)| json!({"n": name_str(n), "t": t})).collect::<Vec<_>>(),
        })
    }
    pub fn from_json(v: &Value) -> Snap {
        let mut s = Snap {
            rrs: v["rrs"].as_array().map(|a| a.iter().map(rr_from_json).collect()).unwrap_or_default(),
            empty_keys: v["empty_keys"]
                .as_array()
                .map(|a| a.iter().map(|e| (ru::name_from_str(e["n"].as_str().unwrap_or(".")), e["t"].as_u64().unwrap_or(0) as u16)).collect())
                .unwrap_or_default(),
        };
        s.rrs.sort();
        s.empty_keys.sort();
        s
    }
    pub fn text(&self) -> Vec<String> {
        let mut v: Vec<String> = self.rrs.iter().map(rr_text).collect();
        for (n, t) in &self.empty_keys {
            v.push(format!("<empty RRset key {} {}>", name_str(n), type_name(*t)));
        }
        v
    }
    /// The store content that corresponds to this snapshot (used to put a handler into a given
    /// state for witness minimisation; verdicts never depend on it).
    pub fn to_map(&self) -> RecordMap {
        let serial = self.serial().unwrap_or(0);
        let mut map: BTreeMap<RrKey, RecordSet> = BTreeMap::new();
        for rr in &self.rrs {
            let rec = to_record(rr);
            let key = RrKey::new(LowerName::from(&rec.name), rec.record_type());
            map.entry(key)
                .or_insert_with(|| RecordSet::new(rec.name.clone(), rec.record_type(), serial))
                .insert(rec, serial);
        }
        for (n, t) in &self.empty_keys {
            let name = labels_to_name(n);
            let key = RrKey::new(LowerName::from(&name), RecordType::from(*t));
            map.entry(key).or_insert_with(|| RecordSet::new(name, RecordType::from(*t), serial));
        }
        map.into_iter().map(|(k, v)| (k, Arc::new(v))).collect()
    }
}

// ------------------------------------------------------------------------------------------
// messages

#[derive(Clone, Debug, PartialEq, Eq, Hash, Default)]
pub struct Msg {
    pub prereqs: Vec<Rr>,
    pub updates: Vec<Rr>,
}

impl Msg {
    pub fn to_json(&self) -> Value {
        json!({"prereqs": self.prereqs.iter().map(rr_json).collect::<Vec<_>>(), "updates": self.updates.iter().map(rr_json).collect::<Vec<_>>()})
    }
    pub fn from_json(v: &Value) -> Msg {
        Msg {
            prereqs: v["prereqs"].as_array().map(|a| a.iter().map(rr_from_json).collect()).unwrap_or_default(),
            updates: v["updates"].as_array().map(|a| a.iter().map(rr_from_json).collect()).unwrap_or_default(),
        }
    }
    pub fn text(&self) -> String {
        format!(
            "prereq[{}] update[{}]",
            self.prereqs.iter().map(rr_text).collect::<Vec<_>>().join("; "),
            self.updates.iter().map(rr_text).collect::<Vec<_>>().join("; ")
        )
    }
}

/// The unsigned hickory `Message` of an UPDATE for zone `z.`.
pub fn update_message(id: u16, msg: &Msg) -> Message {
    let mut m = Message::new(id, MessageType::Query, OpCode::Update);
    m.add_zone(Query::new(hname(ORIGIN), RecordType::SOA));
    for p in &msg.prereqs {
        m.add_pre_requisite(to_record(p));
    }
    for u in &msg.updates {
        m.add_update(to_record(u));
    }
    m
}

/// Wire bytes of the UPDATE signed by the real client-side signer (`Message::finalize`).
pub fn signed_update(id: u16, msg: &Msg, signer: &TSigner, time: u64) -> Vec<u8> {
    let mut m = update_message(id, msg);
    m.finalize(signer, time).expect("client-side signing");
    m.to_vec().expect("encode request")
}

pub fn query_message(id: u16, name: &str, rtype: RecordType) -> Message {
    let mut m = Message::new(id, MessageType::Query, OpCode::Query);
    m.add_query(Query::new(hname(name), rtype));
    m
}

pub fn query_bytes(id: u16, name: &str, rtype: RecordType) -> Vec<u8> {
    query_message(id, name, rtype).to_vec().unwrap()
}

/// A reply as the checks look at it: through the independent walker only.
#[derive(Clone, Debug)]
pub struct Reply {
    pub raw: Vec<u8>,
    pub rcode: u8,
    pub answers: Vec<Rr>,
    pub has_tsig: bool,
}

pub fn parse_reply(raw: &[u8]) -> Option<Reply> {
    let w = wire::walk(raw).ok()?;
    let mut answers = vec![];
    for r in &w.answers {
        answers.push(Rr {
            name: wire::lower(&r.name),
            rtype: r.rtype,
            class: r.class,
            ttl: r.ttl,
            rdata: ru::canonical_rdata(raw, r.rtype, r.rdata_start, r.rdata_end).ok()?,
        });
    }
    Some(Reply { raw: raw.to_vec(), rcode: w.header.rcode_low(), answers, has_tsig: w.additionals.last().map(|r| r.rtype == 250).unwrap_or(false) })
}

// ------------------------------------------------------------------------------------------
// environment

pub struct EnvOpts {
    pub signers: Vec<TSigner>,
    pub axfr: AxfrPolicy,
    pub allow_update: bool,
    pub journal: bool,
    /// the zone type of the in-memory handler inside (Primary unless a check varies it)
    pub zone_type: ZoneType,
    /// the AXFR policy of the in-memory handler INSIDE the sqlite handler (`try_from_config`
    /// always builds it with AllowAll; the constructor lets it be anything)
    pub inner_axfr: AxfrPolicy,
}

impl Default for EnvOpts {
    fn default() -> Self {
        EnvOpts { signers: vec![signer1()], axfr: AxfrPolicy::AllowAll, allow_update: true, journal: false, zone_type: ZoneType::Primary, inner_axfr: AxfrPolicy::AllowAll }
    }
}

pub struct Env {
    pub catalog: Catalog,
    pub h: Arc<Handler>,
}

pub fn new_journal() -> Journal {
    let mut j = Journal::new(rusqlite::Connection::open_in_memory().expect("sqlite in memory")).expect("journal");
    j.schema_up().expect("schema");
    j
}

/// The in-memory zone the real loader path (`upsert_mut`) makes of `zone`.
pub fn in_memory_zone(zone: &[Rr]) -> InMemoryZoneHandler<SimProvider> {
    in_memory_zone_with(zone, ZoneType::Primary, AxfrPolicy::AllowAll)
}

pub fn in_memory_zone_with(zone: &[Rr], zone_type: ZoneType, inner_axfr: AxfrPolicy) -> InMemoryZoneHandler<SimProvider> {
    let serial = zone.iter().find(|r| r.rtype == ru::T_SOA).and_then(|r| ru::soa_serial(&r.rdata)).unwrap_or(0);
    let mut z = InMemoryZoneHandler::<SimProvider>::empty(hname(ORIGIN), zone_type, inner_axfr, None);
    for rr in zone {
        z.upsert_mut(to_record(rr), serial);
    }
    z
}

pub fn empty_zone() -> InMemoryZoneHandler<SimProvider> {
    InMemoryZoneHandler::<SimProvider>::empty(hname(ORIGIN), ZoneType::Primary, AxfrPolicy::AllowAll, None)
}

impl Env {
    /// A handler for `zone` (loaded through `upsert_mut`); with `opts.journal` an in-memory
    /// journal is attached and the zone persisted into it (what `try_from_config` does).
    pub async fn new(zone: &[Rr], opts: EnvOpts) -> Env {
        let mut h = Handler::new(in_memory_zone_with(zone, opts.zone_type, opts.inner_axfr), opts.axfr, opts.allow_update, false);
        h.set_tsig_signers(opts.signers.clone());
        if opts.journal {
            h.set_journal(new_journal()).await;
            h.persist_to_journal().await.expect("persist_to_journal");
        }
        Env::from_handler(h)
    }

    pub fn from_handler(h: Handler) -> Env {
        let h = Arc::new(h);
        let mut catalog = Catalog::new();
        catalog.upsert(LowerName::from(&hname(ORIGIN)), vec![h.clone()]);
        Env { catalog, h }
    }

    pub async fn snapshot(&self) -> Snap {
        Snap::from_map(&*self.h.records().await)
    }

    pub async fn save(&self) -> RecordMap {
        self.h.records().await.clone()
    }

    pub async fn restore(&self, map: &RecordMap) {
        *self.h.records_mut().await = map.clone();
    }

    /// Raw request bytes -> real Catalog -> raw reply messages (None: the bytes are no request).
    pub async fn send(&self, bytes: &[u8]) -> Option<Vec<Vec<u8>>> {
        vsim::serve(&self.catalog, bytes, Protocol::Tcp).await
    }

    /// Send and expect exactly one parseable reply.
    pub async fn exchange(&self, bytes: &[u8]) -> Result<Reply, String> {
        self.exchange_via(bytes, Protocol::Tcp).await
    }

    /// `exchange` over the given transport.
    pub async fn exchange_via(&self, bytes: &[u8], proto: Protocol) -> Result<Reply, String> {
        match vsim::serve(&self.catalog, bytes, proto).await {
            None => Err("request bytes rejected by Request::from_bytes".into()),
            Some(v) if v.len() != 1 => Err(format!("{} reply messages", v.len())),
            Some(v) => parse_reply(&v[0]).ok_or_else(|| "reply not walkable".to_string()),
        }
    }

    /// Journal rows (client_id, soa_serial, timestamp, record bytes) in rowid order.
    pub async fn journal_rows(&self) -> Vec<JournalRow> {
        let g = self.h.journal().await;
        let Some(j) = g.as_ref() else { return vec![] };
        read_rows(j)
    }
}

pub type JournalRow = (i64, i64, String, Vec<u8>);

pub fn read_rows(j: &Journal) -> Vec<JournalRow> {
    let conn = j.conn();
    let mut st = conn.prepare("SELECT client_id, soa_serial, timestamp, record FROM records ORDER BY _rowid_").expect("select");
    let it = st.query_map([], |r| Ok((r.get(0)?, r.get(1)?, r.get(2)?, r.get(3)?))).expect("rows");
    it.map(|x| x.expect("row")).collect()
}

/// A fresh journal holding exactly `rows` (a "disk image" after a stop).
pub fn journal_with_rows(rows: &[JournalRow]) -> Journal {
    let j = new_journal();
    {
        let c = j.conn();
        for r in rows {
            c.execute(
                "INSERT INTO records (client_id, soa_serial, timestamp, record) VALUES (?1,?2,?3,?4)",
                rusqlite::params![r.0, r.1, r.2, r.3],
            )
            .expect("insert row");
        }
    }
    j
}
