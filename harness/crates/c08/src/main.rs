//! C08 — NSEC denial of existence is sound and complete.
//!
//! E-ENUM over the small zone universe (DESIGN 5.1; no a<->b reduction), every zone signed by
//! the REAL server code (`secure_zone_mut` -> `nsec_zone`), plus parent/child worlds (`z.` with a
//! delegation `a.z.`, child zone `a.z.`) so that parent-side delegation NSECs and child NSECs mix.
//!
//! * Decision level (hook `hickory_net::dnssec::verif::verify_nsec`): every query (qname in and
//!   around the zone x qtype in {A,TXT,DS,NS,CNAME}) x every claim {NXDOMAIN, NODATA, wildcard
//!   expansion of each published wildcard RRset with its genuine RRSIG} x every soa_name variant
//!   {apex(es), absent} x EVERY non-empty subset of the genuine NSEC records of the world.
//!   Soundness oracle: `Secure` => the claim is TRUE in the published zone(s)
//!   (`vref::denial::truth`, i.e. the RFC 1034/4592 reference lookup plus the RFC 6840 4.1
//!   ancestor-delegation rule) — clause `unsound`; and `Secure` => the subset is the proof RFC 4035
//!   5.4 / RFC 6840 4 require (`vref::denial::nsec_proves`) — clause `unentailed`. The two reference
//!   layers are cross-checked on every case (a set that "proves" a false claim stops the run, exit 2).
//! * Completeness (end to end): for every zone and query the real server's DO=1 response, when
//!   it is a negative or wildcard-expanded answer that agrees with the reference (C10 deviations
//!   are C10's business and skipped), must be accepted Secure by the real `DnssecDnsHandle`
//!   (scripted upstream, zone key as trust anchor, virtual clock).
//! * Binding: every Secure-but-false case found at decision level and a deterministic 1/64 slice
//!   of all decision-level cases are rebuilt as response messages from the genuine signed records
//!   and replayed through the real `DnssecDnsHandle`; the verdicts must agree
//!   (`traces_validated_against_impl`).
//! * The NSEC chain the real signer produced is compared with the chain RFC 4035 2.3 prescribes.

use std::collections::{BTreeMap, BTreeSet, HashMap};
use std::sync::atomic::{AtomicU64, Ordering};
use std::sync::Arc;

use hickory_net::dnssec::verif::verify_nsec;
use hickory_proto::dnssec::rdata::NSEC;
use hickory_proto::dnssec::Proof;
use hickory_proto::op::{Message, MessageType, OpCode, Query, ResponseCode};
use hickory_proto::rr::{Name as HName, Record, RecordType};
use serde_json::{json, Value};
use vcore::{fnv_str, Ctx, Local};
use vref::denial::{self as dn, Claim, NsecRec};
use vref::zone::{self as rz, Name, NoDataKind, Step, Zone};
use vzone::{Built, E2e, Kind, Signing, Upstream, ZoneSpec};

const QTYPES: [u16; 5] = [rz::T_A, rz::T_TXT, rz::T_DS, rz::T_NS, rz::T_CNAME];
const BIND_SLICE: u64 = 64;

// ------------------------------------------------------------------------------------------
// a world: one zone, or a parent and a child zone

struct ZoneIn {
    built: Built,
    rz: Zone,
    origin: HName,
}

struct World {
    specs: Vec<ZoneSpec>,
    zones: Vec<ZoneIn>,
    refs: Vec<Zone>,
    /// all NSEC records of all zones: (zone index, owner, rdata, abstract form)
    nsecs: Vec<(usize, HName, NSEC, NsecRec)>,
    qnames: Vec<String>,
    text: String,
}

fn build_world(specs: &[ZoneSpec]) -> Result<World, String> {
    build_world_with(specs, None)
}

/// Construction paths: the zone built through `FileZoneHandler::try_from_config` and both starts of
/// `SqliteZoneHandler::try_from_config` (second start: the journal exists), proof kind deserialised as the
/// configuration file gives it, every other knob non-default, signed the way the binary's `load_keys` does:
/// the published NSEC chain must be the reference chain and the server's denials must validate end to end.
const CTOR_CASES: usize = 9;

fn ctor_paths(rt: &tokio::runtime::Runtime, l: &mut Local, only: Option<usize>) {
    let mut index = 0usize;
    use vzone::ctor::{self, CtorKnobs, CtorPath};
    let zones = [
        ZoneSpec::new("z.", &[("a.z.", Kind::A), ("*.z.", Kind::A)]),
        ZoneSpec::new("z.", &[("a.z.", Kind::Ns), ("b.z.", Kind::NsDs), ("a.b.z.", Kind::A)]),
        ZoneSpec::new("z.", &[("a.a.a.z.", Kind::A), ("*.a.z.", Kind::A)]),
    ];
    let base = if std::path::Path::new("/dev/shm").is_dir() { std::path::PathBuf::from("/dev/shm") } else { std::env::temp_dir() };
    let dir = base.join(format!("verif-c08-ctor-{}-{}", std::process::id(), only.map(|i| i.to_string()).unwrap_or_default()));
    for spec in &zones {
        for path in [CtorPath::File, CtorPath::SqliteFirst, CtorPath::SqliteSecond] {
            index += 1;
            if only.map(|o| o != index - 1).unwrap_or(false) {
                continue;
            }
            let _ = std::fs::remove_dir_all(&dir);
            if std::fs::create_dir_all(&dir).is_err() {
                l.outcome("ctor:scratch-dir-unavailable");
                return;
            }
            let case = || json!({"level": "ctor", "zones": [spec.to_json()], "path": path.tag()});
            let built = vcore::catch(|| ctor::build_via(path, spec, &Signing::Nsec, &CtorKnobs::NON_DEFAULT, &dir, rt));
            let _ = std::fs::remove_dir_all(&dir);
            let built = match built {
                Ok(Ok((b, _))) => b,
                Ok(Err(e)) => {
                    l.violation(&format!("ctor:{}:build-failed", path.tag()), &e, case);
                    continue;
                }
                Err(p) => {
                    l.violation(&format!("panic:{}", vcore::short_loc(&p.loc)), &p.msg, case);
                    continue;
                }
            };
            l.eval();
            if built.nsecs().is_empty() || !built.nsec3s().is_empty() {
                l.violation(&format!("ctor:{}:proof-kind", path.tag()), &format!("configured proof kind nsec: the zone holds {} NSEC and {} NSEC3 records", built.nsecs().len(), built.nsec3s().len()), case);
                continue;
            }
            match build_world_with(std::slice::from_ref(spec), Some(built)) {
                Err(e) => l.violation(&format!("ctor:{}:build-failed", path.tag()), &e, case),
                Ok(w) => {
                    check_chain(&w, l);
                    l.outcome("ctor:chain-compared");
                    // the File path signs at the real clock (its provider is fixed): outside the validity window of the virtual clock
                    if path != CtorPath::File {
                        completeness(&w, 0, rt, l, None);
                        l.outcome("ctor:completeness-run");
                    }
                }
            }
        }
    }
}

fn build_world_with(specs: &[ZoneSpec], mut prebuilt: Option<vzone::Built>) -> Result<World, String> {
    let mut zones = vec![];
    let mut nsecs = vec![];
    for (i, s) in specs.iter().enumerate() {
        let built = match prebuilt.take() {
            Some(b) => b,
            None => vzone::build(s, &Signing::Nsec)?,
        };
        let origin = vzone::hname(&s.origin);
        for (owner, n) in built.nsecs() {
            let abs = vzone::ref_nsec(&origin, &owner, &n);
            nsecs.push((i, owner, n, abs));
        }
        let mut r = s.reference();
        // the signer adds the DNSKEY RRset at the apex
        r.add(&r.origin.clone(), rz::T_DNSKEY, rz::RData::Other("dnskey".into()));
        zones.push(ZoneIn { built, rz: r, origin });
    }
    let refs = zones.iter().map(|z| z.rz.clone()).collect();
    let mut qnames = specs[0].query_names(3);
    for s in &specs[1..] {
        for q in s.query_names(2) {
            if !qnames.contains(&q) {
                qnames.push(q);
            }
        }
    }
    // zones with an owner three labels down are also asked one label below the branch
    if specs.iter().any(vzone::is_deep) {
        for q in vzone::DEEP_QUERIES {
            if !qnames.iter().any(|x| x == q) {
                qnames.push(q.to_string());
            }
        }
    }
    let text = specs.iter().map(|s| s.to_string()).collect::<Vec<_>>().join(" + ");
    Ok(World { specs: specs.to_vec(), zones, refs, nsecs, qnames, text })
}

impl World {
    fn has_parent(&self, apex: &Name) -> bool {
        self.refs.iter().any(|z| apex.strictly_below(&z.origin))
    }
    fn soa_variants(&self) -> Vec<Option<HName>> {
        let mut v: Vec<Option<HName>> = self.zones.iter().map(|z| Some(z.origin.clone())).collect();
        v.push(None);
        v
    }
    fn anchors(&self) -> Arc<hickory_proto::dnssec::TrustAnchors> {
        let o: Vec<&str> = self.specs.iter().map(|s| s.origin.as_str()).collect();
        vzone::anchors(&o)
    }
    fn zone_of_origin(&self, name: &HName) -> Option<&ZoneIn> {
        self.zones.iter().find(|z| &z.origin == name)
    }
    /// Claims to enumerate for (qname, qtype): NXDOMAIN, NODATA and one wildcard-expansion claim
    /// per published wildcard RRset whose type is the query type or CNAME.
    fn claims(&self, qname: &Name, qtype: u16) -> Vec<(usize, Claim)> {
        let mut v = vec![(0, Claim::NxDomain), (0, Claim::NoData)];
        for (zi, z) in self.zones.iter().enumerate() {
            for (owner, types) in &z.rz.nodes {
                // only names the RRSIG's Labels field can be expanded to: strictly below the
                // wildcard's parent (anything else cannot pass signature verification, C06)
                if !owner.is_wildcard() || !qname.strictly_below(&owner.parent()) {
                    continue;
                }
                // occluded wildcards below a cut are not zone data (the real signer signs them
                // anyway — logged by C10/C07 — but no correctly signed zone offers such an RRSIG)
                if z.rz.cut_on_path(owner).is_some() {
                    continue;
                }
                for t in types.keys() {
                    if *t == qtype || (*t == rz::T_CNAME && qtype != rz::T_CNAME) {
                        v.push((zi, Claim::Wildcard { source: owner.clone(), rtype: *t }));
                    }
                }
            }
        }
        v
    }
    /// The answer section of a wildcard-expansion claim: the genuine RRset and RRSIGs of the
    /// wildcard with the owner rewritten to the query name (what the real server sends too).
    fn expanded_answer(&self, zi: usize, claim: &Claim, qname: &HName, mark_secure: bool) -> Vec<Record> {
        let Claim::Wildcard { source, rtype } = claim else { return vec![] };
        let w = vzone::hname(&source.to_string());
        let mut v = self.zones[zi].built.rrset_with_sigs(&w, RecordType::from(*rtype));
        for r in v.iter_mut() {
            r.name = qname.clone();
            r.proof = if mark_secure { Proof::Secure } else { Proof::default() };
        }
        v
    }
}

fn rcode_of(claim: &Claim) -> ResponseCode {
    match claim {
        Claim::NxDomain => ResponseCode::NXDomain,
        _ => ResponseCode::NoError,
    }
}

fn claim_json(c: &Claim) -> Value {
    match c {
        Claim::NxDomain => json!({"kind": "NXDOMAIN"}),
        Claim::NoData => json!({"kind": "NODATA"}),
        Claim::Wildcard { source, rtype } => json!({"kind": "WILDCARD", "source": source.to_string(), "rtype": rtype}),
    }
}

fn claim_from_json(v: &Value) -> Claim {
    match v["kind"].as_str() {
        Some("NXDOMAIN") => Claim::NxDomain,
        Some("WILDCARD") => Claim::Wildcard { source: Name::parse(v["source"].as_str().unwrap_or("*.z.")), rtype: v["rtype"].as_u64().unwrap_or(1) as u16 },
        _ => Claim::NoData,
    }
}

// ------------------------------------------------------------------------------------------
// scenes

/// Role of one NSEC record relative to the query name (abstract, label-free).
fn role(r: &NsecRec, qname: &Name) -> String {
    let deleg = r.types.contains(&rz::T_NS) && !r.types.contains(&rz::T_SOA);
    let apex = r.types.contains(&rz::T_SOA);
    let last = r.next == r.zone;
    let in_zone = qname.at_or_below(&r.zone);
    let mut s = String::new();
    if r.owner == *qname {
        s.push_str("match");
    } else if r.owner.is_wildcard() && qname.strictly_below(&r.owner.parent()) {
        s.push_str("wildcard-of-ancestor");
    } else if qname.strictly_below(&r.owner) {
        s.push_str(if in_zone && r.owner < *qname && (*qname < r.next || last) { "ancestor-covering" } else { "ancestor" });
    } else if in_zone && r.owner < *qname && (*qname < r.next || last) {
        s.push_str("covering");
    } else if !in_zone {
        s.push_str("foreign-zone");
    } else {
        s.push_str("elsewhere");
    }
    if deleg {
        s.push_str("/delegation");
    }
    if apex {
        s.push_str("/apex");
    }
    if r.next.strictly_below(qname) {
        s.push_str("/next-below-q");
    }
    s
}

fn subset_roles(world: &World, mask: u32, qname: &Name) -> String {
    let mut roles: Vec<String> = (0..world.nsecs.len()).filter(|i| mask >> i & 1 == 1).map(|i| role(&world.nsecs[i].3, qname)).collect();
    roles.sort();
    roles.dedup();
    roles.join("+")
}

fn has_interior_star(n: &Name) -> bool {
    n.0.iter().skip(1).any(|l| l.as_slice() == b"*")
}

/// The PRIMARY abstract mechanism by which the accepted record set misleads the validator about
/// (qname, qtype) — the first that applies, in this order:
///  apex-nsec-for-ds = the NSEC matching the name has the SOA bit (child apex) and the query is for DS,
///                     which lives in the parent (RFC 4035 3.1.4.1, RFC 6840 4.4);
///  anc-deleg  = a parent-side delegation NSEC (NS set, SOA clear) at or above the name is used
///               (RFC 6840 4.1 forbids it for anything but DS at the delegation itself);
///  ent        = a record covers the name (or the wildcard child of one of its ancestors) while its
///               next name lies BELOW that name, i.e. the name exists as an empty non-terminal;
///  foreign    = records / SOA of another zone of the world (parent and child) are combined;
///  closer-wildcard-exists[+star] = wildcard expansion although a closer wildcard than the claimed source exists;
///  ce-ignored = wildcard expansion although the covering record itself shows a closer encloser
///               than the wildcard's parent;
///  nosoa      = no SOA in the response (the validator guesses the closest encloser / cannot
///               recognise the last NSEC of the chain);
///  star       = the query name has a `*` label, or a record owner/next has `*` as an interior
///               label (label arithmetic that discounts `*`);
///  plain      = none of these.
fn mechanism(world: &World, recs: &[&NsecRec], qname: &Name, qtype: u16, claim: &Claim, soa: &Option<HName>) -> &'static str {
    if qtype == rz::T_DS && recs.iter().any(|r| r.owner == *qname && r.types.contains(&rz::T_SOA)) && world.has_parent(qname) {
        return "apex-nsec-for-ds";
    }
    if recs.iter().any(|r| r.is_delegation() && qname.at_or_below(&r.owner)) {
        return "anc-deleg";
    }
    let auth = dn::authoritative_zone(&world.refs, qname, qtype).map(|z| z.origin.clone());
    let mut targets = vec![qname.clone()];
    if let Some(a) = &auth {
        let mut p = qname.clone();
        while p.strictly_below(a) {
            p = p.parent();
            targets.push(p.wildcard_child());
        }
    }
    if recs.iter().any(|r| targets.iter().any(|x| r.covers(x) && r.next.strictly_below(x))) {
        return "ent";
    }
    if world.zones.len() > 1 {
        let soa_r = soa.as_ref().map(vzone::ref_name);
        if recs.iter().any(|r| Some(&r.zone) != auth.as_ref()) || (soa_r.is_some() && soa_r != auth) {
            return "foreign";
        }
    }
    if let Claim::Wildcard { source, .. } = claim {
        let base = source.parent();
        // a CLOSER WILDCARD than the claimed source exists in the zone (`*.<a>` for an ancestor a of the
        // query name strictly below the source's parent): no_closer_matches must find it uncovered
        if let Some(zone) = dn::authoritative_zone(&world.refs, qname, qtype) {
            let mut a = qname.parent();
            while a.strictly_below(&base) {
                if zone.exists(&a.wildcard_child()) {
                    return if qname.0.iter().any(|l| l.as_slice() == b"*") { "closer-wildcard-exists+star" } else { "closer-wildcard-exists" };
                }
                a = a.parent();
            }
        }
        if recs.iter().any(|r| r.covers(qname) && r.closest_encloser(qname).strictly_below(&base)) {
            return "ce-ignored";
        }
    }
    if soa.is_none() {
        return "nosoa";
    }
    if qname.0.iter().any(|l| l.as_slice() == b"*") || recs.iter().any(|r| has_interior_star(&r.owner) || has_interior_star(&r.next)) {
        return "star";
    }
    "plain"
}

// ------------------------------------------------------------------------------------------
// end-to-end replay of one decision-level case

/// What the validator gets is what came off the wire: every scripted upstream response is encoded
/// and decoded again (so the NSEC / type-bitmap / RRSIG codecs are on the path of every end-to-end verdict).
static WIRE_FAILURES: AtomicU64 = AtomicU64::new(0);

fn through_the_wire(m: Message) -> Message {
    match m.to_vec().ok().and_then(|b| Message::from_vec(&b).ok()) {
        Some(back) => back,
        None => {
            // reported at the end of the run (a scripted response could not be encoded and decoded again)
            WIRE_FAILURES.fetch_add(1, Ordering::Relaxed);
            m
        }
    }
}

fn dnskey_response(z: &ZoneIn, q: &Query) -> Message {
    let mut m = Message::new(0, MessageType::Response, OpCode::Query);
    m.add_query(q.clone());
    m.metadata.authoritative = true;
    m.add_answers(z.built.rrset_with_sigs(&z.origin, RecordType::DNSKEY));
    m
}

fn e2e_case(world: &World, rt: &tokio::runtime::Runtime, query: &Query, soa: &Option<HName>, zi: usize, claim: &Claim, mask: u32) -> E2e {
    e2e_case_rcode(world, rt, query, soa, zi, claim, mask, None)
}

#[allow(clippy::too_many_arguments)]
fn e2e_case_rcode(
    world: &World,
    rt: &tokio::runtime::Runtime,
    query: &Query,
    soa: &Option<HName>,
    zi: usize,
    claim: &Claim,
    mask: u32,
    rcode: Option<ResponseCode>,
) -> E2e {
    let mut m = Message::new(0, MessageType::Response, OpCode::Query);
    m.add_query(query.clone());
    m.metadata.response_code = rcode.unwrap_or(rcode_of(claim));
    m.metadata.authoritative = true;
    m.add_answers(world.expanded_answer(zi, claim, &query.name, false));
    if let Some(s) = soa {
        if let Some(z) = world.zone_of_origin(s) {
            m.add_authorities(z.built.rrset_with_sigs(&z.origin, RecordType::SOA));
        }
    }
    for i in 0..world.nsecs.len() {
        if mask >> i & 1 == 1 {
            let (zi, owner, _, _) = &world.nsecs[i];
            m.add_authorities(world.zones[*zi].built.rrset_with_sigs(owner, RecordType::NSEC));
        }
    }
    let keys: Vec<(HName, Message)> = world
        .zones
        .iter()
        .map(|z| (z.origin.clone(), dnskey_response(z, &Query::new(z.origin.clone(), RecordType::DNSKEY))))
        .collect();
    let main = query.clone();
    let up = Upstream::new(move |q: &Query| {
        if q.query_type == RecordType::DNSKEY {
            return keys.iter().find(|(o, _)| *o == q.name).map(|(_, m)| m.clone());
        }
        if q.name == main.name && q.query_type == main.query_type {
            return Some(through_the_wire(m.clone()));
        }
        None
    });
    vzone::validate(rt, up, world.anchors(), query.clone(), None)
}

fn e2e_agrees(hook: Proof, e: &E2e) -> bool {
    match hook {
        Proof::Secure => e.is_secure(),
        Proof::Bogus => matches!(e, E2e::NsecRejected(Proof::Bogus)),
        Proof::Insecure => matches!(e, E2e::NsecRejected(Proof::Insecure)),
        Proof::Indeterminate => matches!(e, E2e::NsecRejected(Proof::Indeterminate)),
    }
}

// ------------------------------------------------------------------------------------------
// decision level

struct Counters {
    bound: AtomicU64,
    thorough: bool,
}

fn case_json(world: &World, qname: &str, qtype: u16, claim: &Claim, soa: &Option<HName>, mask: u32) -> Value {
    json!({
        "level": "decision",
        "zones": world.specs.iter().map(|s| s.to_json()).collect::<Vec<_>>(),
        "world": world.text,
        "qname": qname, "qtype": qtype, "qtype_name": rz::type_name(qtype),
        "claim": claim_json(claim),
        "soa": soa.as_ref().map(|n| n.to_string()),
        "mask": mask,
        "roles": subset_roles(world, mask, &Name::parse(qname)),
        "nsecs": (0..world.nsecs.len()).filter(|i| mask >> i & 1 == 1).map(|i| {
            let r = &world.nsecs[i].3;
            format!("{} NSEC {} {:?}", r.owner, r.next, r.types.iter().map(|t| rz::type_name(*t)).collect::<Vec<_>>())
        }).collect::<Vec<_>>(),
    })
}

/// Run all (soa, subset) cases of one (qname, qtype, claim). `only` restricts to one (soa, mask).
#[allow(clippy::too_many_arguments)]
fn run_claim(
    world: &World,
    qname_s: &str,
    qtype: u16,
    zi: usize,
    claim: &Claim,
    only: Option<(Option<HName>, u32)>,
    rt: &tokio::runtime::Runtime,
    l: &mut Local,
    cnt: &Counters,
) {
    let qname = Name::parse(qname_s);
    let hq = vzone::hname(qname_s);
    let query = Query::new(hq.clone(), RecordType::from(qtype));
    let tr = dn::truth(&world.refs, &qname, qtype, claim);
    let answers = world.expanded_answer(zi, claim, &hq, true);
    let rcode = rcode_of(claim);
    let n = world.nsecs.len();
    let has_parent = |a: &Name| world.has_parent(a);
    let case_id = format!("{}|{qname_s}|{qtype}|{claim:?}", world.text);
    let mut dup_owner_masks: Vec<u32> = vec![];
    for i in 0..n {
        for j in i + 1..n {
            if world.nsecs[i].1 == world.nsecs[j].1 {
                dup_owner_masks.push(1 << i | 1 << j);
            }
        }
    }
    for soa in world.soa_variants() {
        if let Some((s, _)) = &only {
            if *s != soa {
                continue;
            }
        }
        let mut secure_masks: Vec<u32> = vec![];
        for mask in 1u32..(1 << n) {
            if let Some((_, m)) = &only {
                if *m != mask {
                    continue;
                }
            }
            // two NSECs with the same owner (parent side and child apex of a delegation) would form
            // ONE RRset in a message, which cannot pass signature verification (C06): such a mixture
            // never reaches the decision procedure
            if dup_owner_masks.iter().any(|d| mask & d == *d) {
                continue;
            }
            let sub: Vec<(&HName, &NSEC)> = (0..n).filter(|i| mask >> i & 1 == 1).map(|i| (&world.nsecs[i].1, &world.nsecs[i].2)).collect();
            let abs: Vec<&NsecRec> = (0..n).filter(|i| mask >> i & 1 == 1).map(|i| &world.nsecs[i].3).collect();
            l.eval();
            let verdict = match vcore::catch(|| verify_nsec(&query, soa.as_ref(), rcode, &answers, &sub)) {
                Ok(v) => v,
                Err(p) => {
                    l.violation(&format!("panic:{}", vcore::short_loc(&p.loc)), &p.msg, || case_json(world, qname_s, qtype, claim, &soa, mask));
                    continue;
                }
            };
            let proves = dn::nsec_proves(&abs, &qname, qtype, claim, &has_parent);
            if proves && tr.is_err() {
                // the two reference layers disagree: a bug in vref::denial, not a verdict
                eprintln!(
                    "REFERENCE-INCONSISTENT: nsec_proves accepts a claim that is false ({}) in {}: {}",
                    tr.unwrap_err(),
                    world.text,
                    case_json(world, qname_s, qtype, claim, &soa, mask)
                );
                l.outcome("reference-inconsistent");
                continue;
            }
            let secure = verdict == Proof::Secure;
            l.outcome(&format!("verdict:{}:{}:{}", claim.tag(), format!("{verdict:?}").to_lowercase(), if tr.is_ok() { "true-claim" } else { "false-claim" }));
            if tr.is_err() || (proves && mask.count_ones() >= 2) {
                // counted per (world, qname, qtype), not per claim/soa/subset (keeps the exact count
                // far below vcore's 40 M cap, so it is the same number on every run)
                l.nontrivial(fnv_str(&format!("{}|{qname_s}|{qtype}", world.text)));
            }
            if proves && !secure && soa.is_some() {
                l.outcome(&format!("obs:valid-proof-not-accepted:{}", claim.tag()));
            }
            // binding slice: a deterministic 1/64 of all cases
            let slice = fnv_str(&format!("{case_id}|{soa:?}|{mask}")) % BIND_SLICE == 0;
            let mut bad_key: Option<(String, String)> = None;
            if secure {
                let minimal = !secure_masks.iter().any(|m| m & mask == *m);
                secure_masks.push(mask);
                if let Err(why) = &tr {
                    if minimal {
                        bad_key = Some((
                            format!("unsound:{}:{why}:{}", claim.tag(), mechanism(world, &abs, &qname, qtype, claim, &soa)),
                            format!("{} for {qname_s} {} accepted as Secure but the claim is false in the zone ({why})", claim.tag(), rz::type_name(qtype)),
                        ));
                    } else {
                        l.outcome("unsound:superset-of-minimal");
                    }
                } else if !proves {
                    if minimal {
                        bad_key = Some((
                            format!("unentailed:{}:{}", claim.tag(), mechanism(world, &abs, &qname, qtype, claim, &soa)),
                            format!(
                                "{} for {qname_s} {} accepted as Secure; the claim happens to be true but these NSECs do not prove it",
                                claim.tag(),
                                rz::type_name(qtype)
                            ),
                        ));
                    } else {
                        l.outcome("unentailed:superset-of-minimal");
                    }
                }
            }
            // quick: 1/4 of the slice and 1/8 of the Secure-but-false cases (deterministic by digest);
            // thorough: every Secure-but-false case and the whole 1/64 slice
            let digest = fnv_str(&format!("{case_id}|{soa:?}|{mask}|bind"));
            let replay = only.is_some() || if cnt.thorough { bad_key.is_some() || slice } else { (bad_key.is_some() && digest % 8 == 0) || (slice && digest % 4 == 0) };
            if replay {
                let e = e2e_case(world, rt, &query, &soa, zi, claim, mask);
                cnt.bound.fetch_add(1, Ordering::Relaxed);
                if !e2e_agrees(verdict, &e) {
                    l.violation(
                        &format!("binding:hook={}:e2e={}", format!("{verdict:?}").to_lowercase(), e.class()),
                        "the decision-level verdict and the verdict of the real DnssecDnsHandle on the same records differ",
                        || case_json(world, qname_s, qtype, claim, &soa, mask),
                    );
                } else {
                    l.outcome(&format!("bound:{}", e.class()));
                }
            }
            if let Some((key, what)) = bad_key {
                l.violation(&key, &what, || case_json(world, qname_s, qtype, claim, &soa, mask));
            }
        }
    }
}

// ------------------------------------------------------------------------------------------
// the chain the real signer produced vs RFC 4035 2.3

fn check_chain(world: &World, l: &mut Local) {
    // every genuine NSEC: hickory's RDATA octets = the reference encoder's octets
    {
        use hickory_proto::serialize::binary::BinEncodable;
        for (_, owner, nsec, abs) in &world.nsecs {
            let want = dn::nsec_rdata_wire(&abs.next.0, &abs.types);
            match nsec.to_bytes() {
                Ok(got) if got == want => l.outcome("codec:genuine-nsec-emit:as-reference"),
                other => l.violation("codec:genuine-nsec-emit-differs", &format!("{owner} NSEC: emitted {other:02x?}, reference {want:02x?}"), || json!({"level": "chain", "zones": world.specs.iter().map(|s| s.to_json()).collect::<Vec<_>>(), "zone": 0})),
            }
        }
    }
    for (zi, z) in world.zones.iter().enumerate() {
        let want = dn::nsec_chain(&z.rz);
        let mut got: Vec<&NsecRec> = world.nsecs.iter().filter(|n| n.0 == zi).map(|n| &n.3).collect();
        got.sort_by(|a, b| a.owner.cmp(&b.owner));
        let same = want.len() == got.len() && want.iter().zip(got.iter()).all(|(w, g)| w == *g);
        if same {
            l.outcome("chain:as-rfc4035");
            continue;
        }
        let wo: BTreeSet<&Name> = want.iter().map(|r| &r.owner).collect();
        let go: BTreeSet<&Name> = got.iter().map(|r| &r.owner).collect();
        let key = if wo != go {
            let missing = wo.difference(&go).count();
            let extra = go.difference(&wo).count();
            format!("chain:owners-differ:missing={}:extra={}", missing.min(1), extra.min(1))
        } else if want.iter().zip(got.iter()).any(|(w, g)| w.next != g.next) {
            "chain:order-differs".to_string()
        } else {
            let mut kinds = BTreeSet::new();
            for (w, g) in want.iter().zip(got.iter()) {
                for t in w.types.symmetric_difference(&g.types) {
                    kinds.insert(format!("{}{}", if w.types.contains(t) { "-" } else { "+" }, rz::type_name(*t)));
                }
            }
            format!("chain:bitmap-differs:{}", kinds.into_iter().collect::<Vec<_>>().join(","))
        };
        l.violation(&key, "the NSEC chain produced by the real signer differs from RFC 4035 2.3", || {
            json!({"level": "chain", "zones": world.specs.iter().map(|s| s.to_json()).collect::<Vec<_>>(), "zone": zi,
                   "expected": want.iter().map(|r| format!("{} -> {} {:?}", r.owner, r.next, r.types)).collect::<Vec<_>>(),
                   "got": got.iter().map(|r| format!("{} -> {} {:?}", r.owner, r.next, r.types)).collect::<Vec<_>>()})
        });
    }
}

// ------------------------------------------------------------------------------------------
// completeness: the server's own proofs through the real validator

fn ref_class(res_step: &Step, qname: &Name) -> Option<String> {
    match res_step {
        Step::NxDomain { .. } => Some("NXDOMAIN".into()),
        Step::NoData(NoDataKind::OtherData) => Some("NODATA-other".into()),
        Step::NoData(NoDataKind::Ent) => Some("NODATA-ent".into()),
        Step::NoData(NoDataKind::Wildcard { .. }) => Some("NODATA-wild".into()),
        Step::NoData(NoDataKind::WildcardEnt { .. }) => Some("NODATA-wildent".into()),
        Step::Data { source, .. } if source != qname => Some("WILDCARD".into()),
        Step::Cname { source, .. } if source != qname => Some("WILDCARD-CNAME".into()),
        // ordinary positive answers: "for every signed zone and every QUERY ... accepted" - whatever the
        // server attaches to them must not make the validator reject them
        Step::Data { .. } => Some("POSITIVE".into()),
        Step::Cname { .. } => Some("POSITIVE-CNAME".into()),
        _ => None,
    }
}

/// The denial claim a response makes about (qname, qtype), read off its shape: NXDOMAIN / NODATA
/// (empty answer, not a referral) / "the answer RRset owned by qname is the expansion of the
/// wildcard `*.<Labels-suffix of qname>`" (an RRSIG at qname whose Labels field is smaller than
/// the owner's label count). None for ordinary positive answers and referrals.
fn observed_claim(m: &Message, qname: &Name) -> Option<Claim> {
    let hq = vzone::hname(&qname.to_string());
    if m.answers.is_empty() {
        if m.metadata.response_code == ResponseCode::NXDomain {
            return Some(Claim::NxDomain);
        }
        let has_soa = m.authorities.iter().any(|r| r.record_type() == RecordType::SOA);
        let has_ns = m.authorities.iter().any(|r| r.record_type() == RecordType::NS);
        if m.metadata.response_code == ResponseCode::NoError && (has_soa || !has_ns) {
            return Some(Claim::NoData);
        }
        return None;
    }
    for r in &m.answers {
        if r.name != hq {
            continue;
        }
        if let hickory_proto::rr::RData::DNSSEC(hickory_proto::dnssec::rdata::DNSSECRData::RRSIG(s)) = &r.data {
            let labels = s.input().num_labels as usize;
            if labels < qname.num_labels() - qname.is_wildcard() as usize {
                return Some(Claim::Wildcard { source: qname.suffix(labels).wildcard_child(), rtype: s.input().type_covered.into() });
            }
        }
    }
    None
}

fn completeness(world: &World, zi: usize, rt: &tokio::runtime::Runtime, l: &mut Local, only: Option<(&str, u16)>) {
    let z = &world.zones[zi];
    let zone = &z.rz;
    // all server responses of this zone first (the validator may ask for any of them)
    let mut table: HashMap<(HName, RecordType), Message> = HashMap::new();
    let mut todo: Vec<(String, u16, String)> = vec![];
    let mut deviations: Vec<(String, u16)> = vec![];
    for qn in &world.qnames {
        let name = Name::parse(qn);
        if !name.at_or_below(&zone.origin) || dn::authoritative_zone(&world.refs, &name, rz::T_A).map(|a| a.origin != zone.origin).unwrap_or(true) {
            continue;
        }
        for t in QTYPES {
            if let Some((oq, ot)) = only {
                if oq != qn || ot != t {
                    continue;
                }
            }
            let Ok(m) = vzone::ask(rt, &z.built.catalog, qn, t, true) else {
                l.violation("completeness:no-response", "the server gave no single decodable response", || json!({"level": "completeness", "zones": world.specs.iter().map(|s| s.to_json()).collect::<Vec<_>>(), "zone": zi, "qname": qn, "qtype": t}));
                continue;
            };
            let s = rz::step(zone, &name, t);
            let mut handled = false;
            if let Some(class) = ref_class(&s, &name) {
                // only where the server's answer has the shape the reference expects (C10 judges the rest)
                let rcode_ok = match &s {
                    Step::NxDomain { .. } => m.metadata.response_code == ResponseCode::NXDomain && m.answers.is_empty(),
                    Step::NoData(_) => m.metadata.response_code == ResponseCode::NoError && m.answers.is_empty(),
                    Step::Data { rdata, .. } => {
                        m.metadata.response_code == ResponseCode::NoError && {
                            let got: BTreeSet<rz::RData> = m.answers.iter().filter(|r| u16::from(r.record_type()) == t).map(|r| vzone::ref_rr(r).rdata).collect();
                            got == *rdata
                        }
                    }
                    Step::Cname { target, .. } => {
                        m.metadata.response_code == ResponseCode::NoError
                            && m.answers.iter().any(|r| r.name == vzone::hname(qn) && vzone::ref_rr(r).rdata == rz::RData::Cname(target.clone()))
                    }
                    _ => false,
                };
                if rcode_ok {
                    todo.push((qn.clone(), t, class));
                    handled = true;
                } else {
                    l.outcome("completeness:skipped-c10-deviation");
                }
            }
            // any other response that has the SHAPE of a denial / wildcard expansion (also where the
            // reference expects a referral or plain data) is judged as a deviation below
            if !handled && observed_claim(&m, &name).is_some() {
                deviations.push((qn.clone(), t));
            }
            table.insert((vzone::hname(qn), RecordType::from(t)), m);
        }
    }
    let dnskey = dnskey_response(z, &Query::new(z.origin.clone(), RecordType::DNSKEY));
    let origin = z.origin.clone();
    let table = Arc::new(table);
    let t2 = table.clone();
    let up = Upstream::new(move |q: &Query| {
        if q.query_type == RecordType::DNSKEY && q.name == origin {
            return Some(dnskey.clone());
        }
        t2.get(&(q.name.clone(), q.query_type)).cloned().map(through_the_wire)
    });
    let handle = vzone::validator(up, world.anchors(), None);
    // The answers that do NOT have the shape the reference expects (C10's deviations): what does
    // the validator make of them? A response whose own claim (read off its shape) is FALSE in the
    // zone must not come back Secure - server and validator must not agree on a wrong answer.
    for (qn, t) in &deviations {
        let (qn, t) = (qn.clone(), *t);
        let name = Name::parse(&qn);
        let m = &table[&(vzone::hname(&qn), RecordType::from(t))];
        let Some(claim) = observed_claim(m, &name) else {
            l.outcome("deviation:positive-or-referral-shape");
            continue;
        };
        let tr = dn::truth(&world.refs, &name, t, &claim);
        l.eval();
        let e = vzone::validate_with(rt, &handle, Query::new(vzone::hname(&qn), RecordType::from(t)));
        match (&tr, e.is_secure()) {
            (Ok(()), true) => l.outcome(&format!("deviation:true-claim:{}:secure", claim.tag())),
            (Ok(()), false) => l.outcome(&format!("deviation:true-claim:{}:{}", claim.tag(), e.class())),
            (Err(why), false) => l.outcome(&format!("deviation:false-claim:{}:{why}:{}", claim.tag(), e.class())),
            (Err(why), true) => {
                l.violation(
                    &format!("unsound-e2e:server-answer:{}:{why}", claim.tag()),
                    &format!("the server's (wrong) DO=1 answer for {qn} {} claims {} although that is false in the zone ({why}), and the validator accepts it as Secure", rz::type_name(t), claim.tag()),
                    || json!({"level": "completeness", "zones": world.specs.iter().map(|s| s.to_json()).collect::<Vec<_>>(), "world": world.text, "zone": zi, "qname": qn, "qtype": t, "qtype_name": rz::type_name(t), "claim": claim_json(&claim)}),
                );
            }
        }
    }
    for (qn, t, class) in todo {
        l.eval();
        let e = vzone::validate_with(rt, &handle, Query::new(vzone::hname(&qn), RecordType::from(t)));
        // second step: the same query again on the same handle (its validation cache now holds the
        // verdicts of the first pass, of the other queries and of the rejected ones): same verdict
        let again = vzone::validate_with(rt, &handle, Query::new(vzone::hname(&qn), RecordType::from(t)));
        if again.class() != e.class() {
            l.violation(
                &format!("second-validation-differs:{}->{}", e.class(), again.class()),
                &format!("{qn} {}: validating the same server answer a second time on the same DnssecDnsHandle gives another verdict", rz::type_name(t)),
                || json!({"level": "completeness", "zones": world.specs.iter().map(|s| s.to_json()).collect::<Vec<_>>(), "world": world.text, "zone": zi, "qname": qn, "qtype": t}),
            );
        } else {
            l.outcome("second-validation:same-verdict");
        }
        if e.is_secure() {
            l.outcome(&format!("complete:{class}"));
            l.nontrivial(fnv_str(&format!("complete|{}|{qn}|{t}", world.text)));
            continue;
        }
        // scene: is the proof the server attached the proof RFC 4035 5.4 requires (then the
        // validator rejects a valid proof) or not (then the server's proof is insufficient)?
        let m = &table[&(vzone::hname(&qn), RecordType::from(t))];
        let name = Name::parse(&qn);
        if class.starts_with("POSITIVE") {
            let denial = m.authorities.iter().any(|r| r.record_type() == RecordType::NSEC);
            let chained = m.answers.iter().any(|r| r.record_type() != RecordType::RRSIG && r.name != vzone::hname(&qn));
            let key = format!("incomplete:{class}:{}:{}{}", e.class(), if denial { "nsec-attached-to-positive-answer" } else { "no-denial-records" }, if chained { ":chained-answer" } else { "" });
            l.violation(&key, &format!("the server's own DO=1 POSITIVE answer for {qn} {} is not accepted as Secure by the validator: {}", rz::type_name(t), e.class()), || {
                json!({"level": "completeness", "zones": world.specs.iter().map(|s| s.to_json()).collect::<Vec<_>>(), "world": world.text, "zone": zi, "qname": qn, "qtype": t, "qtype_name": rz::type_name(t),
                       "answer": m.answers.iter().filter(|r| r.record_type() != RecordType::RRSIG).map(|r| format!("{} {} {}", r.name, r.record_type(), r.data)).collect::<Vec<_>>(),
                       "authority": m.authorities.iter().filter(|r| r.record_type() != RecordType::RRSIG).map(|r| format!("{} {} {}", r.name, r.record_type(), r.data)).collect::<Vec<_>>()})
            });
            continue;
        }
        let attached: Vec<NsecRec> = m
            .authorities
            .iter()
            .filter_map(|r| match &r.data {
                hickory_proto::rr::RData::DNSSEC(hickory_proto::dnssec::rdata::DNSSECRData::NSEC(n)) => Some(vzone::ref_nsec(&z.origin, &r.name, n)),
                _ => None,
            })
            .collect();
        let attached_refs: Vec<&NsecRec> = attached.iter().collect();
        let has_soa = m.authorities.iter().any(|r| r.record_type() == RecordType::SOA);
        let claim = match rz::step(zone, &name, t) {
            Step::NxDomain { .. } => Claim::NxDomain,
            Step::NoData(_) => Claim::NoData,
            Step::Data { source, rtype, .. } => Claim::Wildcard { source, rtype },
            Step::Cname { source, .. } => Claim::Wildcard { source, rtype: rz::T_CNAME },
            _ => Claim::NoData,
        };
        let valid = dn::nsec_proves(&attached_refs, &name, t, &claim, &|a: &Name| world.has_parent(a));
        let wraps = attached.iter().any(|r| r.next == r.zone && r.covers(&name));
        let star = name.0.iter().any(|l| l.as_slice() == b"*") || attached.iter().any(|r| has_interior_star(&r.owner) || has_interior_star(&r.next));
        // one primary scene flag
        let flag = if !valid {
            // what the known server-side gap looks like: the closest encloser is not the parent of
            // the query name, so the NSEC for `*.<closest encloser>` is not the one the server picks
            if name.strictly_below(&zone.origin) && zone.closest_encloser(&name) == name.parent() {
                ":ce=parent"
            } else {
                ":ce=above-parent"
            }
        } else if let Claim::Wildcard { source, .. } = &claim {
            if name.parent() == source.parent() {
                // expansion to a name directly below the wildcard's parent
                ":one-label-expansion"
            } else if wraps {
                ":last-nsec-covers"
            } else if star {
                ":star"
            } else if m.answers.iter().any(|r| r.record_type() != RecordType::RRSIG && r.name != vzone::hname(&qn)) {
                // the answer is a CNAME chain that continues (possibly through another wildcard):
                // the validator reads every RRSIG of the answer section as an expansion of the QUERY name
                ":chained-answer"
            } else {
                ":plain"
            }
        } else if star {
            ":star"
        } else if wraps && !has_soa {
            ":last-nsec-covers"
        } else {
            ":plain"
        };
        let key = format!(
            "incomplete:{class}:{}:{}{flag}",
            e.class(),
            if valid { "validator-rejects-valid-proof" } else { "server-proof-insufficient" },
        );
        let first = !l.has_violation_key(&key);
        l.violation(&key, &format!("the server's own DO=1 answer for {qn} {} ({class}) is not accepted as Secure by the validator: {}", rz::type_name(t), e.class()), || {
            let _ = first;
            json!({"level": "completeness", "zones": world.specs.iter().map(|s| s.to_json()).collect::<Vec<_>>(), "world": world.text, "zone": zi,
                   "qname": qn, "qtype": t, "qtype_name": rz::type_name(t), "roles": attached.iter().map(|r| role(r, &name)).collect::<Vec<_>>(),
                   "authority": m.authorities.iter().filter(|r| r.record_type() != RecordType::RRSIG).map(|r| format!("{} {} {}", r.name, r.record_type(), r.data)).collect::<Vec<_>>()})
        });
    }
}

// ------------------------------------------------------------------------------------------
// families

fn pair_worlds() -> Vec<Vec<ZoneSpec>> {
    let mut out = vec![];
    let child_names = vzone::universe_under("a.z.", 1);
    let children = vzone::family("a.z.", &child_names, 2, &[Kind::A, Kind::Txt]);
    for deleg in [Kind::NsDs, Kind::Ns] {
        for extra in [None, Some(("b.z.", Kind::A)), Some(("*.z.", Kind::Txt))] {
            let mut owners = vec![("a.z.", deleg)];
            if let Some(e) = extra {
                owners.push(e);
            }
            let parent = ZoneSpec::new("z.", &owners);
            for c in &children {
                out.push(vec![parent.clone(), c.clone()]);
            }
        }
    }
    out
}

/// Response codes other than NOERROR / NXDOMAIN, NXDOMAIN next to a wildcard-expanded answer, and
/// answer RRSIGs that are not themselves Secure: never Secure, whatever NSEC set comes along.
fn rcode_and_proof_variants(world: &World, rt: &tokio::runtime::Runtime, l: &mut Local, cnt: &Counters) {
    let n = world.nsecs.len();
    let rcodes = [ResponseCode::ServFail, ResponseCode::Refused, ResponseCode::FormErr, ResponseCode::NotImp, ResponseCode::YXDomain, ResponseCode::NotAuth, ResponseCode::BADVERS];
    for qn in &world.qnames {
        let qname = Name::parse(qn);
        let hq = vzone::hname(qn);
        for t in [rz::T_A, rz::T_DS] {
            let query = Query::new(hq.clone(), RecordType::from(t));
            for (zi, claim) in world.claims(&qname, t) {
                let secure_answers = world.expanded_answer(zi, &claim, &hq, true);
                let mut variants: Vec<(String, ResponseCode, Vec<Record>)> = rcodes.iter().map(|r| (format!("rcode-{r:?}").to_uppercase(), *r, secure_answers.clone())).collect();
                if matches!(claim, Claim::Wildcard { .. }) {
                    variants.push(("NXDOMAIN-WITH-ANSWER".into(), ResponseCode::NXDomain, secure_answers.clone()));
                    for p in [Proof::Bogus, Proof::Insecure, Proof::Indeterminate] {
                        let mut a = secure_answers.clone();
                        for r in a.iter_mut() {
                            r.proof = p;
                        }
                        variants.push((format!("answer-rrsig-{p:?}").to_lowercase(), ResponseCode::NoError, a));
                    }
                }
                for (tag, rcode, answers) in &variants {
                    for soa in world.soa_variants() {
                        for mask in 1u32..(1 << n) {
                            let sub: Vec<(&HName, &NSEC)> = (0..n).filter(|i| mask >> i & 1 == 1).map(|i| (&world.nsecs[i].1, &world.nsecs[i].2)).collect();
                            l.eval();
                            let v = match vcore::catch(|| verify_nsec(&query, soa.as_ref(), *rcode, answers, &sub)) {
                                Ok(v) => v,
                                Err(p) => {
                                    l.violation(&format!("panic:{}", vcore::short_loc(&p.loc)), &p.msg, || case_json(world, qn, t, &claim, &soa, mask));
                                    continue;
                                }
                            };
                            l.outcome(&format!("variant:{}:{}", if tag.starts_with("RCODE") { "other-rcode" } else { tag.as_str() }, format!("{v:?}").to_lowercase()));
                            if v == Proof::Secure {
                                l.violation(&format!("unsound:{tag}:{}", claim.tag()), &format!("{tag}: a response for {qn} {} with this rcode / answer status is Secure on NSEC records", rz::type_name(t)), || {
                                    let mut j = case_json(world, qn, t, &claim, &soa, mask);
                                    j["level"] = json!("variant");
                                    j["variant"] = json!(tag);
                                    j
                                });
                            }
                        }
                    }
                }
                // one end-to-end replay per (query, claim): rcode SERVFAIL with the full record set must not come back Secure
                if fnv_str(&format!("{}|{qn}|{t}|{claim:?}|variant", world.text)) % 16 == 0 {
                    let e = e2e_case_rcode(world, rt, &query, &Some(world.zones[0].origin.clone()), zi, &claim, (1u32 << n) - 1, Some(ResponseCode::ServFail));
                    cnt.bound.fetch_add(1, Ordering::Relaxed);
                    l.outcome(&format!("variant:e2e-servfail:{}", if e.is_secure() { "secure" } else { "not-secure" }));
                    if e.is_secure() {
                        l.violation(&format!("unsound-e2e:RCODE-SERVFAIL:{}", claim.tag()), "a SERVFAIL response with NSEC records is accepted as Secure end to end", || case_json(world, qn, t, &claim, &None, (1u32 << n) - 1));
                    }
                }
            }
        }
    }
}

/// Codec family (producer independence): NSEC RDATA octets produced by the reference encoder
/// (`vref::denial::nsec_rdata_wire`, RFC 4034 4.1) versus hickory's — hickory must EMIT exactly
/// the reference octets and must DECODE the reference octets (inside a reference-built message)
/// to the same next name (case preserved) and the same type set. Type sets reach into windows
/// 0, 1, 4, 128 and 255 and onto the first/last bit of a window; plus every genuine NSEC of the world.
fn codec_family(l: &mut Local) {
    use hickory_proto::serialize::binary::BinEncodable;
    let alphabet: [u16; 16] = [1, 2, 5, 6, 15, 16, 28, 43, 46, 47, 48, 255, 256, 1234, 32768, 65535];
    let mut sets: Vec<BTreeSet<u16>> = vec![BTreeSet::new()];
    for a in alphabet {
        sets.push([a].into_iter().collect());
        for b in alphabet {
            if a < b {
                sets.push([a, b].into_iter().collect());
            }
        }
    }
    for m in 0u32..256 {
        sets.push((0..8).filter(|i| m >> i & 1 == 1).map(|i| alphabet[i * 2]).collect());
    }
    let nexts = ["z.", "a.z.", "*.a.z.", "A.b.Z.", "."];
    for next in nexts {
        for types in &sets {
            l.eval();
            let labels: Vec<Vec<u8>> = next.trim_end_matches('.').split('.').filter(|x| !x.is_empty()).map(|x| x.as_bytes().to_vec()).collect();
            let want = dn::nsec_rdata_wire(&labels, types);
            let hnext = if next == "." { HName::root() } else { vzone::hname(next) };
            let nsec = NSEC::new(hnext.clone(), types.iter().map(|t| RecordType::from(*t)));
            let case = || json!({"level": "codec", "next": next, "types": types.iter().collect::<Vec<_>>()});
            match nsec.to_bytes() {
                Ok(got) if got == want => l.outcome("codec:nsec-emit:as-reference"),
                Ok(got) => l.violation("codec:nsec-emit-differs", &format!("NSEC RDATA emitted as {got:02x?}, RFC 4034 4.1 gives {want:02x?}"), case),
                Err(e) => l.violation("codec:nsec-emit-fails", &e.to_string(), case),
            }
            let msg = dn::message_with_authority_record(&[b"q".to_vec(), b"z".to_vec()], 1, &[b"o".to_vec(), b"z".to_vec()], rz::T_NSEC, 300, &want);
            match Message::from_vec(&msg) {
                Err(e) => l.violation("codec:nsec-decode-fails", &e.to_string(), case),
                Ok(m) => {
                    let ok = m.authorities.len() == 1
                        && match &m.authorities[0].data {
                            hickory_proto::rr::RData::DNSSEC(hickory_proto::dnssec::rdata::DNSSECRData::NSEC(d)) => {
                                let got: BTreeSet<u16> = d.type_set().iter().map(u16::from).collect();
                                got == *types && d.next_domain_name().eq_case(&hnext) && types.iter().all(|t| d.type_set().contains(RecordType::from(*t)))
                            }
                            _ => false,
                        };
                    if ok {
                        l.outcome("codec:nsec-decode:as-reference");
                    } else {
                        l.violation("codec:nsec-decode-differs", &format!("reference NSEC RDATA {want:02x?} decodes to {:?}", m.authorities.first().map(|r| r.data.to_string())), case);
                    }
                }
            }
        }
    }
}

fn run_world(world: &World, rt: &tokio::runtime::Runtime, l: &mut Local, cnt: &Counters, sample: bool) {
    if world.nsecs.len() > 7 {
        l.outcome("skipped:more-than-7-nsecs");
        return;
    }
    check_chain(world, l);
    for z in &world.refs {
        for sh in z.deep_shapes() {
            l.outcome(sh);
        }
    }
    for qn in &world.qnames {
        for t in QTYPES {
            for (zi, claim) in world.claims(&Name::parse(qn), t) {
                run_claim(world, qn, t, zi, &claim, None, rt, l, cnt);
            }
        }
    }
    for zi in 0..world.zones.len() {
        completeness(world, zi, rt, l, None);
    }
    // other rcodes / NXDOMAIN with answer / non-Secure answer RRSIGs: worlds with <= 1 owner per zone
    // and the parent/child worlds (quick), every world (thorough)
    if cnt.thorough || world.specs.iter().all(|s| s.owners.len() <= 1) {
        rcode_and_proof_variants(world, rt, l, cnt);
    }
    if sample {
        l.sample(json!({"world": world.text, "nsecs": world.nsecs.iter().map(|n| format!("{} -> {}", n.3.owner, n.3.next)).collect::<Vec<_>>(), "qnames": world.qnames.len()}));
    }
}

fn main() {
    // a stack overflow / abort in the code under test must become a verdict, not a dead check
    vcore::supervise("C08");
    vcore::install_log_evaluation(); // logging is part of the environment: log arguments are evaluated as under a real subscriber
    let ctx = Ctx::from_args("C08", "exploration");
    let thorough = !ctx.quick();

    let mut bad = rz::self_test();
    bad.extend(dn::self_test());
    if !bad.is_empty() {
        for b in &bad {
            eprintln!("reference self-test failed: {b}");
        }
        vcore::machinery_exit("vref::zone / vref::denial self-test against the RFC examples failed");
    }
    let cnt = Counters { bound: AtomicU64::new(0), thorough };

    if let Some((_key, case)) = ctx.replay_case() {
        let specs: Vec<ZoneSpec> = case["zones"].as_array().map(|a| a.iter().filter_map(ZoneSpec::from_json).collect()).unwrap_or_default();
        if specs.is_empty() {
            vcore::machinery_exit("replay without zones");
        }
        let rt = vsim::rt();
        let world = build_world(&specs).unwrap_or_else(|e| vcore::machinery_exit(&e));
        ctx.with_local(|l| match case["level"].as_str() {
            Some("ctor") => ctor_paths(&rt, l, None),
            Some("chain") => check_chain(&world, l),
            Some("completeness") => {
                let q = case["qname"].as_str().unwrap_or("z.").to_string();
                completeness(&world, case["zone"].as_u64().unwrap_or(0) as usize, &rt, l, Some((&q, case["qtype"].as_u64().unwrap_or(1) as u16)));
            }
            _ => {
                let claim = claim_from_json(&case["claim"]);
                let qtype = case["qtype"].as_u64().unwrap_or(1) as u16;
                let soa = case["soa"].as_str().map(vzone::hname);
                let zi = world.claims(&Name::parse(case["qname"].as_str().unwrap_or("z.")), qtype).into_iter().find(|(_, c)| *c == claim).map(|(z, _)| z).unwrap_or(0);
                run_claim(&world, case["qname"].as_str().unwrap_or("z."), qtype, zi, &claim, Some((soa, case["mask"].as_u64().unwrap_or(1) as u32)), &rt, l, &cnt);
            }
        });
        ctx.finish(false);
    }

    ctx.set_rule(
        "every NSEC-signed zone of the universe (apex + <=K owners of U(d), labels {a,b,*}; kinds A, TXT, A+TXT, CNAME->{a.z.,a.a.z.}, NS, NS+glue, NS+DS; \
         quick d=2,K<=2; thorough adds d=2,K=3 and d=3,K<=2 over 6 kinds; both tiers: the deep slice over {a.z,a.a.z,a.a.a.z,b.a.a.z,*.a.z,*.a.a.z} with an owner 3 labels down - \
         quick K<=2 over {A,NS,NS+DS} and K=3 of kind A, thorough K=3 over {A,NS,NS+DS}; deep zones are also asked 4 names one label below the branch) and 114 parent/child worlds (z. + child a.z.), chains produced by the real signer; \
         x every qname of {apex, U(3), x.o., names below cuts} x qtype {A,TXT,DS,NS,CNAME} x claim {NXDOMAIN, NODATA, expansion of each published wildcard RRset} \
         x soa_name {each apex, absent} x EVERY non-empty subset of the world's NSEC records -> verify_nsec; oracle: Secure => claim true in the zone \
         (vref::denial::truth) and proven by the subset (nsec_proves). Also (worlds with <=1 owner per zone in quick): rcodes SERVFAIL/REFUSED/FORMERR/NOTIMP/YXDOMAIN/NOTAUTH/BADVERS, NXDOMAIN next to a wildcard answer and \
         answer RRSIGs marked Bogus/Insecure/Indeterminate (never Secure); a codec family (NSEC RDATA octets of the reference encoder vs hickory, emit and decode, type windows 0/1/4/128/255). \
         Completeness: EVERY DO=1 answer of the real server (negative, wildcard, ordinary positive, CNAME chains) through the real DnssecDnsHandle (responses go through the wire codec), each validated twice on the same handle. Non-trivial = distinct (world, qname, qtype) for which some enumerated (claim, soa, subset) has a false claim or a valid proof of >= 2 records, plus each completeness case.",
    );
    ctx.assume("vref::zone + vref::denial (self-tested on every run against RFC 4592 2.2.1/3.3.1, RFC 4034 6.1, RFC 4035 app. A/B, RFC 5155 app. A/B)");
    ctx.assume("the attacker only has genuine signed records of the zone(s) (forged signatures are C06's business); Ed25519 via ring");
    ctx.assume("completeness is judged only where the server's answer has the shape the reference lookup expects (C10 owns the other cases)");

    let kinds8 = [Kind::A, Kind::Txt, Kind::ATxt, Kind::CnameA, Kind::CnameAA, Kind::Ns, Kind::NsGlue, Kind::NsDs];
    let kinds6 = [Kind::A, Kind::ATxt, Kind::CnameA, Kind::Ns, Kind::NsGlue, Kind::NsDs];
    let mut worlds: Vec<Vec<ZoneSpec>> = vzone::family("z.", &vzone::universe(2), 2, &kinds8).into_iter().map(|s| vec![s]).collect();
    if thorough {
        worlds.extend(vzone::family("z.", &vzone::universe(2), 3, &kinds6).into_iter().filter(|s| s.owners.len() == 3).map(|s| vec![s]));
        worlds.extend(
            vzone::family("z.", &vzone::universe(3), 2, &kinds6)
                .into_iter()
                .filter(|s| s.owners.iter().any(|(o, _)| o.matches('.').count() == 4))
                .map(|s| vec![s]),
        );
    }
    // the deep slice (both tiers): one branch three labels deep - empty non-terminals whose first descendant is two
    // or more labels below them, an empty non-terminal above another, wildcards below empty non-terminals.
    // quick: <= 2 owners over {A, NS, NS+DS} and 3 owners of kind A; thorough (which has the <= 2 owner zones in
    // the d=3 family above): 3 owners over {A, NS, NS+DS}
    let deep_kinds = [Kind::A, Kind::Ns, Kind::NsDs];
    let deep = if thorough { vzone::deep_family(&[], Some(&deep_kinds)) } else { vzone::deep_family(&deep_kinds, Some(&[Kind::A])) };
    ctx.set("worlds_deep_slice", json!(deep.len()));
    worlds.extend(deep.into_iter().map(|s| vec![s]));
    let single = worlds.len();
    worlds.extend(pair_worlds());
    ctx.set("worlds_single_zone", json!(single));
    ctx.set("worlds_parent_child", json!(worlds.len() - single));

    let n = worlds.len() as u64;
    let stride = (n / 10).max(1);
    // one "case" of the watchdog is a whole world (up to ~10^5 decisions + end-to-end replays)
    ctx.case_timeout_s.store(600, Ordering::Relaxed);
    ctx.par_run_init(
        n,
        1,
        |_| vsim::rt(),
        |i, l, rt| match build_world(&worlds[i as usize]) {
            Ok(w) => run_world(&w, rt, l, &cnt, i % stride == 0 || i == n - 1),
            Err(e) => l.violation("zone-build-failed", &e, || json!({"zones": worlds[i as usize].iter().map(|s| s.to_json()).collect::<Vec<_>>()})),
        },
    );

    // construction paths (3 zones x 3 from-config paths)
    ctx.par_run_init(CTOR_CASES as u64, 1, |_| vsim::rt(), |i, l, rt| ctor_paths(rt, l, Some(i as usize)));
    ctx.with_local(codec_family);
    if WIRE_FAILURES.load(Ordering::Relaxed) > 0 {
        ctx.with_local(|l| {
            l.violation("codec:response-does-not-survive-the-wire", &format!("{} scripted responses built from genuine records could not be encoded and decoded again by hickory's own codec", WIRE_FAILURES.load(Ordering::Relaxed)), || json!({"level": "codec"}))
        });
    }
    ctx.set("traces_validated_against_impl", json!(cnt.bound.load(Ordering::Relaxed)));
    if ctx.outcome_count("reference-inconsistent") > 0 {
        ctx.machinery_failure("vref::denial is inconsistent: nsec_proves accepted a claim that truth() calls false (see stderr)");
    }
    let mut need: BTreeMap<&str, &str> = BTreeMap::new();
    need.insert("verdict:NXDOMAIN:secure:true-claim", "no true NXDOMAIN was ever accepted");
    need.insert("verdict:NODATA:secure:true-claim", "no true NODATA was ever accepted");
    need.insert("verdict:WILDCARD:secure:true-claim", "no true wildcard expansion was ever accepted");
    need.insert("verdict:NXDOMAIN:bogus:false-claim", "no false NXDOMAIN was ever rejected");
    need.insert("verdict:NODATA:bogus:false-claim", "no false NODATA was ever rejected");
    need.insert("verdict:WILDCARD:bogus:false-claim", "no false wildcard expansion was ever rejected");
    need.insert("complete:NXDOMAIN", "no server NXDOMAIN proof was accepted end to end");
    need.insert("complete:NODATA-other", "no server NODATA proof was accepted end to end");
    need.insert("bound:secure", "no Secure decision was replayed end to end");
    need.insert("chain:as-rfc4035", "no chain matched the reference chain");
    need.insert("variant:other-rcode:bogus", "no response code other than NOERROR/NXDOMAIN was exercised");
    need.insert("variant:NXDOMAIN-WITH-ANSWER:bogus", "NXDOMAIN next to a wildcard answer was never exercised");
    need.insert("variant:answer-rrsig-bogus:bogus", "a non-Secure answer RRSIG was never exercised");
    need.insert("variant:e2e-servfail:not-secure", "no SERVFAIL response was replayed end to end");
    need.insert("codec:nsec-emit:as-reference", "the NSEC codec family did not run");
    need.insert("codec:nsec-decode:as-reference", "the NSEC codec family did not run");
    need.insert("codec:genuine-nsec-emit:as-reference", "no genuine NSEC was compared with the reference octets");
    need.insert("second-validation:same-verdict", "no server answer was validated a second time");
    need.insert("complete:POSITIVE", "no positive server answer was validated end to end");
    need.insert("ctor:chain-compared", "no chain of a zone built through a from-config path was compared with the reference chain");
    need.insert("ctor:completeness-run", "no zone built through a from-config path was validated end to end");
    need.insert("shape:ent-first-descendant-2-below", "no zone had an empty non-terminal whose first descendant is two or more labels below it");
    need.insert("shape:ent-above-ent", "no zone had an empty non-terminal directly above another one");
    need.insert("shape:wildcard-below-ent-chain", "no zone had a wildcard below a chain of two empty non-terminals");
    for (class, why) in need {
        if ctx.outcome_count(class) == 0 {
            ctx.machinery_failure(&format!("vacuous run: {why} ({class})"));
        }
    }
    ctx.finish(true);
}
