//! C16 part (a): `UdpClientStream::send_message` over a scripted `DnsUdpSocket` under the paused
//! tokio clock. Every schedule (sequence of datagram kinds / recv errors / "wait for the next
//! retransmission") of the declared space is executed on the real code; the observed trace is
//! judged by a monitor written from the statement (see `judge`).

use std::collections::VecDeque;
use std::future::Future;
use std::io;
use std::net::SocketAddr;
use std::pin::Pin;
use std::sync::atomic::{AtomicU64, Ordering};
use std::sync::{Arc, Mutex};
use std::task::{Context, Poll};
use std::time::Duration;

use futures_util::StreamExt;
use hickory_net::runtime::{DnsUdpSocket, RuntimeProvider, TokioHandle, TokioRuntimeProvider, TokioTime};
use hickory_net::udp::UdpClientStream;
use hickory_net::xfer::DnsRequestSender;
use hickory_proto::op::{DnsRequest, DnsRequestOptions, Query};
use hickory_proto::rr::{Name, RecordType};
use serde_json::{json, Value};
use vcore::{catch, fnv64, Ctx, Local, PanicInfo};

use crate::wirekit::{self, labels, SrcClass, Q};

/// One client configuration. The default one is explored deepest; every other one varies ONE
/// dimension (server address family, number of questions, receive buffer, retry budget, retry
/// interval, overall timeout).
#[derive(Clone, Debug)]
pub struct UdpCfg {
    pub name: &'static str,
    pub server: &'static str,
    /// questions in the request (2: built with DnsRequest::new, mixed-case names as given)
    pub nq: u8,
    pub max_retries: u8,
    /// DnsRequestOptions::retry_interval
    pub req_interval_ms: u64,
    /// with_retry_interval_floor (None = builder default 333)
    pub floor_ms: Option<u64>,
    pub timeout_ms: u64,
    /// DnsRequestOptions::edns_payload_len (None = default)
    pub edns_payload: Option<u16>,
    /// DnsRequestOptions::use_edns
    pub use_edns: bool,
    /// with_timeout(None): the builder's own default (5 s) instead of an explicit value
    pub timeout_none: bool,
    pub bind: Bind,
    /// avoid_local_ports = every port 1024..=65535 (the port picker gives up and binds port 0)
    pub avoid_all_ports: bool,
    pub os_port: bool,
    pub signer: SignerCfg,
    /// answers of the environment to the first bind_udp calls (afterwards: success)
    pub bind_faults: &'static [BindFault],
    pub send_fault: SendFault,
}

#[derive(Clone, Copy, Debug, PartialEq, Eq)]
pub enum Bind {
    Default,
    /// with_bind_addr(0.0.0.0:port): every transmission of every request leaves from this port
    Fixed(u16),
    /// with_bind_addr(0.0.0.0:0)
    ZeroPort,
}

#[derive(Clone, Copy, Debug, PartialEq, Eq)]
pub enum SignerCfg {
    None,
    /// with_signer(Some(..)) and an ordinary query: the signer must stay unused
    UnusedForPlainQuery,
    /// with_signer(Some(..)) and an IXFR query: the transport signs, replies must verify
    SignedIxfr,
}

#[derive(Clone, Copy, Debug, PartialEq, Eq)]
pub enum BindFault {
    InUse,
    Denied,
    Other,
}

#[derive(Clone, Copy, Debug, PartialEq, Eq)]
pub enum SendFault {
    None,
    /// send_to reports one octet less than it was given
    Short,
    Error,
}

pub const TSIG_SECRET: [u8; 32] = *b"c16-reference-tsig-secret-32-byt";
pub const TSIG_KEY_NAME: &str = "key.example.";

pub fn tsig_key() -> vref::tsig::Key {
    vref::tsig::Key::new(TSIG_KEY_NAME, vref::tsig::Alg::Sha256, &TSIG_SECRET)
}

static ALL_PORTS: std::sync::OnceLock<Arc<std::collections::HashSet<u16>>> = std::sync::OnceLock::new();

impl UdpCfg {
    /// retry interval the client has to use
    pub fn r_ms(&self) -> u64 {
        self.req_interval_ms.max(self.floor_ms.unwrap_or(333))
    }
    /// transmissions the client may make (`max_retries` counts tasks; 0 still transmits once)
    pub fn max_tx(&self) -> usize {
        (self.max_retries as usize).max(1)
    }
    pub fn server(&self) -> SocketAddr {
        self.server.parse().unwrap()
    }
}

const fn base_cfg() -> UdpCfg {
    UdpCfg {
        name: "default",
        server: "192.0.2.53:53",
        nq: 1,
        max_retries: 3,
        req_interval_ms: 333,
        floor_ms: None,
        timeout_ms: 5000,
        edns_payload: None,
        use_edns: true,
        timeout_none: false,
        bind: Bind::Default,
        avoid_all_ports: false,
        os_port: false,
        signer: SignerCfg::None,
        bind_faults: &[],
        send_fault: SendFault::None,
    }
}

pub fn configs() -> Vec<UdpCfg> {
    vec![
        base_cfg(),
        UdpCfg { name: "server-v6", server: "[2001:db8::53]:53", ..base_cfg() },
        UdpCfg { name: "server-v4-mapped", server: "[::ffff:192.0.2.53]:53", ..base_cfg() },
        UdpCfg { name: "two-questions", nq: 2, ..base_cfg() },
        UdpCfg { name: "receive-buffer-512", edns_payload: Some(512), ..base_cfg() },
        UdpCfg { name: "one-transmission", max_retries: 1, ..base_cfg() },
        UdpCfg { name: "five-transmissions-100ms", max_retries: 5, req_interval_ms: 50, floor_ms: Some(100), ..base_cfg() },
        UdpCfg { name: "interval-500-timeout-700", req_interval_ms: 500, timeout_ms: 700, ..base_cfg() },
        // ---- audit round: every remaining knob of the builder / the request options / the
        // environment the transmission path reads (explored over short schedules)
        UdpCfg { name: "no-retries", max_retries: 0, ..base_cfg() },
        UdpCfg { name: "timeout-builder-default", timeout_none: true, ..base_cfg() },
        UdpCfg { name: "no-edns", use_edns: false, ..base_cfg() },
        UdpCfg { name: "edns-payload-65535", edns_payload: Some(65535), ..base_cfg() },
        UdpCfg { name: "bind-fixed-port", bind: Bind::Fixed(40000), ..base_cfg() },
        UdpCfg { name: "bind-port-zero", bind: Bind::ZeroPort, ..base_cfg() },
        UdpCfg { name: "avoid-all-ports", avoid_all_ports: true, ..base_cfg() },
        UdpCfg { name: "os-port-selection", os_port: true, ..base_cfg() },
        UdpCfg { name: "signer-unused", signer: SignerCfg::UnusedForPlainQuery, ..base_cfg() },
        UdpCfg { name: "tsig-ixfr", signer: SignerCfg::SignedIxfr, ..base_cfg() },
        UdpCfg { name: "bind-in-use-once", bind_faults: &[BindFault::InUse], ..base_cfg() },
        UdpCfg { name: "bind-in-use-12-times", bind_faults: &[BindFault::InUse; 12], ..base_cfg() },
        UdpCfg { name: "bind-denied-once", bind_faults: &[BindFault::Denied], ..base_cfg() },
        UdpCfg { name: "bind-other-error", bind_faults: &[BindFault::Other], ..base_cfg() },
        UdpCfg { name: "send-short", send_fault: SendFault::Short, ..base_cfg() },
        UdpCfg { name: "send-error", send_fault: SendFault::Error, ..base_cfg() },
    ]
}

/// Configurations added in the audit round: explored over short schedules.
pub fn is_audit_cfg(cfg: &UdpCfg) -> bool {
    let pos = configs().iter().position(|c| c.name == cfg.name).unwrap_or(0);
    pos >= 8
}

pub fn cfg_by_name(name: &str) -> Option<UdpCfg> {
    configs().into_iter().find(|c| c.name == name)
}

#[derive(Clone, Copy, Debug, PartialEq, Eq, Hash)]
pub enum Kind {
    Genuine,
    WrongIp,
    WrongPort,
    MappedRight,
    WrongIdLow,
    WrongIdHigh,
    OtherName,
    OtherType,
    ExtraQuestion,
    CaseFlipped,
    GarbageRight,
    GarbageRightId,
    GarbageWrongSrc,
    RecvError,
    NoQuestion,
    QueryEcho,
    /// asked name and type, class CH
    OtherClass,
    /// the asked name without its first label (the parent)
    ParentName,
    /// source `::a.b.c.d` (IPv4-compatible, NOT the v4-mapped form) of the queried IPv4 address
    V4CompatSource,
    /// genuine reply followed by a 700-byte record: fits the default buffer, not a 512-byte one
    Oversized,
    /// two-question requests: only the last asked question is echoed
    SubsetLast,
    /// two-question requests: asked questions in reverse order
    Reversed,
    /// two-question requests: name of the first with type of the second question (never asked)
    MixedPair,
    /// a reply from the right source with the right id whose question section is the given
    /// ordered list (2 or 3 entries) of variants of the first asked question, see `Atom`
    Multi([Atom; 3], u8),
    // ---- other permitted layouts / header values of the genuine reply (hand-built)
    /// TC=1
    Tc,
    /// opcode NOTIFY in a response with the asked id and question
    NotifyOpcode,
    /// rcode SERVFAIL
    Servfail,
    /// the answer's owner name is a compression pointer to the question name
    CompressedOwner,
    /// three octets behind the last record
    TrailingOctets,
    /// genuine reply followed by a 4,200-byte record: larger than every receive buffer
    Oversized4200,
    /// two-question requests: the second question's name is written as first label + pointer
    /// into the first question's name
    SecondQCompressed,
    // ---- transport-signed requests only
    /// the genuine reply without a TSIG record
    TsigUnsigned,
    /// correctly shaped TSIG whose MAC has one bit flipped
    TsigBadMac,
    /// TSIG made with another secret under the same key name
    TsigWrongKey,
    /// TSIG computed without the request's MAC in the digest
    TsigUnchained,
    // ---- second-step family
    /// the genuine reply to the FIRST request issued on this client (its id, its question)
    LateToFirst,
}

pub const LAYOUT_KINDS: [Kind; 6] = [Kind::Tc, Kind::NotifyOpcode, Kind::Servfail, Kind::CompressedOwner, Kind::TrailingOctets, Kind::Oversized4200];
pub const TSIG_KINDS: [Kind; 4] = [Kind::TsigUnsigned, Kind::TsigBadMac, Kind::TsigWrongKey, Kind::TsigUnchained];

/// One entry of a composed question section, relative to the first asked question.
#[derive(Clone, Copy, Debug, PartialEq, Eq, Hash)]
pub enum Atom {
    /// exact echo (same bytes, same letter case as transmitted)
    Exact,
    /// copy with the case of the first letter flipped
    Flip1,
    /// copy with the case of the second letter flipped
    Flip2,
    OtherName,
    OtherType,
    OtherClass,
}

pub const ATOMS: [Atom; 6] = [Atom::Exact, Atom::Flip1, Atom::Flip2, Atom::OtherName, Atom::OtherType, Atom::OtherClass];

impl Atom {
    fn tag(self) -> &'static str {
        match self {
            Atom::Exact => "echo",
            Atom::Flip1 => "flip1",
            Atom::Flip2 => "flip2",
            Atom::OtherName => "name",
            Atom::OtherType => "type",
            Atom::OtherClass => "class",
        }
    }
}

/// All ordered pairs over the six atoms and all ordered triples that contain the exact echo.
pub fn multi_kinds() -> Vec<Kind> {
    let mut v = vec![];
    for a in ATOMS {
        for b in ATOMS {
            v.push(Kind::Multi([a, b, Atom::Exact], 2));
        }
    }
    for a in ATOMS {
        for b in ATOMS {
            for c in ATOMS {
                if [a, b, c].contains(&Atom::Exact) {
                    v.push(Kind::Multi([a, b, c], 3));
                }
            }
        }
    }
    v
}

/// Kinds used with single-question requests.
pub const KINDS: [Kind; 20] = [
    Kind::Genuine,
    Kind::WrongIp,
    Kind::WrongPort,
    Kind::MappedRight,
    Kind::WrongIdLow,
    Kind::WrongIdHigh,
    Kind::OtherName,
    Kind::OtherType,
    Kind::ExtraQuestion,
    Kind::CaseFlipped,
    Kind::GarbageRight,
    Kind::GarbageRightId,
    Kind::GarbageWrongSrc,
    Kind::RecvError,
    Kind::NoQuestion,
    Kind::QueryEcho,
    Kind::OtherClass,
    Kind::ParentName,
    Kind::V4CompatSource,
    Kind::Oversized,
];

/// Additional kinds that only make sense when two questions were asked.
pub const KINDS_2Q: [Kind; 3] = [Kind::SubsetLast, Kind::Reversed, Kind::MixedPair];

pub fn kinds_of(cfg: &UdpCfg) -> Vec<Kind> {
    let mut v = KINDS.to_vec();
    if cfg.nq == 2 {
        v.extend(KINDS_2Q);
    }
    if cfg.signer == SignerCfg::SignedIxfr {
        v.extend(TSIG_KINDS);
    }
    v
}

/// Kinds explored in short schedules only (composed question sections, other layouts).
pub fn special_kinds(cfg: &UdpCfg) -> Vec<Kind> {
    let mut v = multi_kinds();
    v.extend(LAYOUT_KINDS);
    if cfg.nq == 2 {
        v.push(Kind::SecondQCompressed);
    }
    v
}

fn all_named_kinds() -> Vec<Kind> {
    let mut v: Vec<Kind> = KINDS.iter().chain(KINDS_2Q.iter()).copied().collect();
    v.extend(multi_kinds());
    v.extend(LAYOUT_KINDS);
    v.push(Kind::SecondQCompressed);
    v.extend(TSIG_KINDS);
    v.push(Kind::LateToFirst);
    v
}

impl Kind {
    /// One byte for the marker of scripted datagrams (diagnostic only).
    pub fn code(self) -> u8 {
        match self {
            Kind::Multi(a, n) => 0x80 | (n << 5) | ((a[0] as u8 * 6 + a[1] as u8) & 0x1f),
            k => KINDS.iter().chain(KINDS_2Q.iter()).chain(LAYOUT_KINDS.iter()).chain(TSIG_KINDS.iter()).position(|x| *x == k).unwrap_or(0x7f) as u8,
        }
    }
    pub fn name(self) -> String {
        if let Kind::Multi(a, n) = self {
            return format!("questions[{}]", a[..n as usize].iter().map(|x| x.tag()).collect::<Vec<_>>().join(","));
        }
        self.base_name().to_string()
    }
    fn base_name(self) -> &'static str {
        match self {
            Kind::Genuine => "genuine",
            Kind::WrongIp => "wrong-ip",
            Kind::WrongPort => "wrong-port",
            Kind::MappedRight => "v4-mapped-right",
            Kind::WrongIdLow => "wrong-id-low-bit",
            Kind::WrongIdHigh => "wrong-id-high-bit",
            Kind::OtherName => "other-name",
            Kind::OtherType => "other-type",
            Kind::ExtraQuestion => "extra-question",
            Kind::CaseFlipped => "case-flipped",
            Kind::GarbageRight => "garbage-right-source",
            Kind::GarbageRightId => "truncated-right-source",
            Kind::GarbageWrongSrc => "garbage-wrong-source",
            Kind::RecvError => "recv-error",
            Kind::NoQuestion => "no-question",
            Kind::QueryEcho => "query-echo",
            Kind::OtherClass => "other-class",
            Kind::ParentName => "parent-name",
            Kind::V4CompatSource => "v4-compatible-source",
            Kind::Oversized => "oversized-700",
            Kind::SubsetLast => "only-last-question",
            Kind::Reversed => "questions-reversed",
            Kind::MixedPair => "name1-with-type2",
            Kind::Multi(..) => "questions[..]",
            Kind::Tc => "tc-set",
            Kind::NotifyOpcode => "notify-opcode",
            Kind::Servfail => "servfail",
            Kind::CompressedOwner => "compressed-answer-owner",
            Kind::TrailingOctets => "trailing-octets",
            Kind::Oversized4200 => "oversized-4200",
            Kind::SecondQCompressed => "second-question-compressed",
            Kind::TsigUnsigned => "tsig-missing",
            Kind::TsigBadMac => "tsig-bad-mac",
            Kind::TsigWrongKey => "tsig-wrong-secret",
            Kind::TsigUnchained => "tsig-without-request-mac",
            Kind::LateToFirst => "late-reply-to-first-request",
        }
    }
    pub fn from_name(s: &str) -> Option<Kind> {
        all_named_kinds().into_iter().find(|k| k.name() == s)
    }
}

#[derive(Clone, Copy, Debug, PartialEq, Eq)]
pub enum Step {
    /// nothing more arrives until the retry timer has fired and the next transmission was made
    Retry,
    /// a datagram (or recv error) for the socket of transmission `latest - back`
    D { kind: Kind, back: u8 },
}

#[derive(Clone, Debug)]
pub struct Case {
    pub cfg: UdpCfg,
    /// 0x20 case randomisation on
    pub rand: bool,
    /// tie family: a datagram for an older socket that directly follows `Retry` arrives in the
    /// very instant the retry timer fires (both `select!` branches ready)
    pub tie: bool,
    pub steps: Vec<Step>,
    /// second-step family: another request was issued on the same client object before
    pub first: Option<First>,
}

#[derive(Clone, Copy, Debug, PartialEq, Eq)]
pub enum FirstMode {
    /// it got its genuine reply
    Completed,
    /// nobody answered, it ran into the overall timeout
    TimedOut,
    /// its response stream was dropped after the first transmission
    Cancelled,
    /// it is still waiting while the judged request runs
    InFlight,
}

#[derive(Clone, Copy, Debug, PartialEq, Eq)]
pub struct First {
    pub mode: FirstMode,
    /// the judged request carries the same message id as the first one
    pub same_id: bool,
    /// ... and the same question
    pub same_q: bool,
}

pub const FIRST_MODES: [FirstMode; 4] = [FirstMode::Completed, FirstMode::TimedOut, FirstMode::Cancelled, FirstMode::InFlight];

impl FirstMode {
    fn name(self) -> &'static str {
        match self {
            FirstMode::Completed => "completed",
            FirstMode::TimedOut => "timed-out",
            FirstMode::Cancelled => "cancelled",
            FirstMode::InFlight => "in-flight",
        }
    }
}

impl Case {
    pub fn to_json(&self) -> Value {
        let steps: Vec<Value> = self
            .steps
            .iter()
            .map(|s| match s {
                Step::Retry => json!("retry"),
                Step::D { kind, back } => json!({"k": kind.name(), "back": back}),
            })
            .collect();
        let mut j = json!({"part": "udp", "cfg": self.cfg.name, "rand": self.rand, "tie": self.tie, "steps": steps});
        if let Some(f) = self.first {
            j["first_request"] = json!({"mode": f.mode.name(), "same_id": f.same_id, "same_question": f.same_q});
        }
        j
    }
    pub fn from_json(v: &Value) -> Option<Case> {
        let mut steps = vec![];
        for s in v["steps"].as_array()? {
            if s.as_str() == Some("retry") {
                steps.push(Step::Retry);
            } else {
                steps.push(Step::D {
                    kind: Kind::from_name(s["k"].as_str()?)?,
                    back: s["back"].as_u64().unwrap_or(0) as u8,
                });
            }
        }
        let cfg = cfg_by_name(v["cfg"].as_str().unwrap_or("default"))?;
        let first = match v.get("first_request") {
            Some(f) if f.is_object() => Some(First {
                mode: FIRST_MODES.iter().copied().find(|m| Some(m.name()) == f["mode"].as_str())?,
                same_id: f["same_id"].as_bool()?,
                same_q: f["same_question"].as_bool()?,
            }),
            _ => None,
        };
        Some(Case { cfg, rand: v["rand"].as_bool()?, tie: v["tie"].as_bool().unwrap_or(false), steps, first })
    }
}

#[derive(Clone, Debug)]
pub struct Planned {
    pub step: usize,
    pub sock: usize,
    pub kind: Kind,
    pub at_ms: u64,
}

/// Is the sequence a prefix of a well-formed schedule (retry budget, sockets addressed exist)?
pub fn plannable(cfg: &UdpCfg, steps: &[Step]) -> bool {
    let mut retries = 0usize;
    for s in steps {
        match *s {
            Step::Retry => {
                if retries + 1 >= cfg.max_tx() {
                    return false;
                }
                retries += 1;
            }
            Step::D { back, .. } => {
                if back as usize > retries {
                    return false;
                }
            }
        }
    }
    true
}

/// Virtual arrival instants. Steps of epoch b (after b `Retry`s) arrive at b*R + 1, +2, ... ms, so
/// no datagram ever coincides with the retry timer (multiples of R) or the 5 s timeout - except
/// the dedicated tie placement. `None` = not a well-formed schedule.
pub fn plan(case: &Case) -> Option<Vec<Planned>> {
    let r_ms = case.cfg.r_ms();
    let max_tx = case.cfg.max_tx();
    let mut retries = 0usize;
    let mut j = 0u64;
    let mut prev_retry = false;
    let mut tie_used = false;
    let mut out = vec![];
    for (i, s) in case.steps.iter().enumerate() {
        match *s {
            Step::Retry => {
                if retries + 1 >= max_tx {
                    return None;
                }
                retries += 1;
                j = 0;
                prev_retry = true;
            }
            Step::D { kind, back } => {
                if back as usize > retries {
                    return None;
                }
                let sock = retries - back as usize;
                let at_ms = if case.tie && prev_retry && back >= 1 {
                    tie_used = true;
                    retries as u64 * r_ms
                } else {
                    j += 1;
                    retries as u64 * r_ms + j
                };
                out.push(Planned { step: i, sock, kind, at_ms });
                prev_retry = false;
            }
        }
    }
    if matches!(case.steps.last(), Some(Step::Retry)) {
        return None;
    }
    if case.tie && !tie_used {
        return None;
    }
    Some(out)
}

// ------------------------------------------------------------------------------------------
// scripted socket

#[derive(Clone, Debug)]
pub struct Delivery {
    pub step: usize,
    pub sock: usize,
    pub kind: Kind,
    pub at_us: u64,
    pub bytes: Vec<u8>,
    pub src: SocketAddr,
    /// datagrams handed to this socket's receiver before this one
    pub examined_before: usize,
    /// the request transmitted on this socket
    pub request: Vec<u8>,
}

struct Sock {
    sent: Vec<Vec<u8>>,
    sent_at_us: u64,
    queue: VecDeque<Planned>,
    examined: usize,
    sleep: Option<Pin<Box<tokio::time::Sleep>>>,
    /// socket of the judged request (false: of the first request of the second-step family)
    judged: bool,
    /// position among the sockets of its request
    ordinal: usize,
    /// instant the arrival times of its queue are relative to
    t0: tokio::time::Instant,
}

struct Shared {
    /// start of the judged request
    t0: tokio::time::Instant,
    server: SocketAddr,
    plan: Vec<Planned>,
    socks: Vec<Sock>,
    deliveries: Vec<Delivery>,
    recv_before_send: bool,
    truncated_by_buffer: usize,
    // ---- environment faults
    bind_faults: &'static [BindFault],
    bind_calls: usize,
    send_fault: SendFault,
    /// local addresses the client asked to bind
    locals: Vec<SocketAddr>,
    // ---- second-step family
    /// datagrams for the sockets of the first request
    first_plan: Vec<Planned>,
    first_t0: tokio::time::Instant,
    /// the first request is being issued right now (sequential modes)
    first_phase: bool,
    /// the first request stays in flight: its sockets are those bound on ITS retry grid
    first_in_flight: bool,
    r_ms: u64,
    first_request: Option<Vec<u8>>,
    first_socks: usize,
    judged_socks: usize,
    /// case randomisation is on in this run
    rand: bool,
}

#[derive(Clone)]
struct SimNet {
    sh: Arc<Mutex<Shared>>,
    inner: TokioRuntimeProvider,
}

struct SimUdp {
    sh: Arc<Mutex<Shared>>,
    idx: usize,
}

fn other_ip_for(server: SocketAddr) -> std::net::IpAddr {
    match server.ip() {
        std::net::IpAddr::V6(a) if a.to_ipv4_mapped().is_none() => "2001:db8::54".parse().unwrap(),
        _ => "203.0.113.9".parse().unwrap(),
    }
}

/// Build the scripted datagram relative to the request observed on the socket.
fn build(kind: Kind, req: &[u8], server: SocketAddr, marker: [u8; 4], first_req: Option<&[u8]>, rand: bool) -> (Vec<u8>, SocketAddr) {
    let (bytes, src) = build_unsigned(kind, req, server, marker, first_req, rand);
    // the transport signed the request: every reply a server would produce is signed by the
    // reference (RFC 8945: digest = request MAC | message | TSIG variables), except the kinds
    // that are about a missing / wrong signature and the ones that are no messages at all
    let Ok(sreq) = vref::tsig::split(req) else { return (bytes, src) };
    let key = tsig_key();
    let kname = vref::tsig::labels_of(TSIG_KEY_NAME);
    let (time, mac) = (sreq.tsig.time, sreq.tsig.mac.clone());
    let signed = |b: &[u8], k: &vref::tsig::Key, chain: bool| vref::tsig::sign(b, k, &kname, time, 300, if chain { Some(&mac[..]) } else { None });
    let walkable = vref::wire::walk(&bytes).map(|w| w.consumed == bytes.len()).unwrap_or(false);
    let out = match kind {
        Kind::TsigUnsigned | Kind::GarbageRight | Kind::GarbageRightId | Kind::GarbageWrongSrc | Kind::QueryEcho | Kind::RecvError | Kind::TrailingOctets => bytes,
        Kind::TsigBadMac => {
            let mut b = signed(&bytes, &key, true);
            // TSIG RDATA ends with MAC | original id (2) | error (2) | other len (2)
            let p = b.len() - 7;
            b[p] ^= 0x01;
            b
        }
        Kind::TsigWrongKey => signed(&bytes, &vref::tsig::Key::new(TSIG_KEY_NAME, vref::tsig::Alg::Sha256, b"another-secret-another-secret-32"), true),
        Kind::TsigUnchained => signed(&bytes, &key, false),
        _ if walkable => signed(&bytes, &key, true),
        _ => bytes,
    };
    (out, src)
}

fn build_unsigned(kind: Kind, req: &[u8], server: SocketAddr, marker: [u8; 4], first_req: Option<&[u8]>, rand: bool) -> (Vec<u8>, SocketAddr) {
    let (id, asked) = wirekit::request_view(req).expect("transmitted request is walkable");
    let q0 = asked.first().cloned().unwrap_or(Q { name: labels("www.example.com"), qtype: 1, qclass: 1 });
    let qlast = asked.last().cloned().unwrap_or(q0.clone());
    let owner = q0.name.clone();
    let evil = Q { name: labels("evil.example.com"), qtype: q0.qtype, qclass: q0.qclass };
    // the genuine reply echoes every asked question
    let genuine = || wirekit::response(id, &asked, &owner, marker);
    // "q0 replaced by x", the other asked questions kept
    let with_q0 = |x: Q| {
        let mut qs = asked.clone();
        if qs.is_empty() {
            qs.push(x);
        } else {
            qs[0] = x;
        }
        qs
    };
    let other_v4 = |a: std::net::Ipv4Addr| -> std::net::IpAddr {
        // ::a.b.c.d - the deprecated "IPv4-compatible" form, which is not the v4-mapped one
        let o = a.octets();
        std::net::IpAddr::V6(std::net::Ipv6Addr::new(0, 0, 0, 0, 0, 0, u16::from_be_bytes([o[0], o[1]]), u16::from_be_bytes([o[2], o[3]])))
    };
    match kind {
        Kind::Genuine => (genuine(), server),
        Kind::WrongIp => (genuine(), SocketAddr::new(other_ip_for(server), server.port())),
        Kind::WrongPort => (genuine(), SocketAddr::new(server.ip(), 5353)),
        Kind::MappedRight => {
            // the "other spelling" of the queried endpoint: v4 <-> v4-mapped v6; for a genuine
            // IPv6 server the same address and port with another scope id / flow label
            let src = match server {
                SocketAddr::V4(a) => SocketAddr::new(std::net::IpAddr::V6(a.ip().to_ipv6_mapped()), a.port()),
                SocketAddr::V6(a) => match a.ip().to_ipv4_mapped() {
                    Some(v4) => SocketAddr::new(std::net::IpAddr::V4(v4), a.port()),
                    None => SocketAddr::V6(std::net::SocketAddrV6::new(*a.ip(), a.port(), 9, 7)),
                },
            };
            (genuine(), src)
        }
        Kind::V4CompatSource => {
            let ip = match server.ip() {
                std::net::IpAddr::V4(a) => other_v4(a),
                std::net::IpAddr::V6(a) => match a.to_ipv4_mapped() {
                    Some(v4) => other_v4(v4),
                    // low 32 bits of the IPv6 address read as an IPv4 address
                    None => {
                        let o = a.octets();
                        std::net::IpAddr::V4(std::net::Ipv4Addr::new(o[12], o[13], o[14], o[15]))
                    }
                },
            };
            (genuine(), SocketAddr::new(ip, server.port()))
        }
        Kind::WrongIdLow => (wirekit::response(id ^ 1, &asked, &owner, marker), server),
        Kind::WrongIdHigh => (wirekit::response(id ^ 0x8000, &asked, &owner, marker), server),
        Kind::OtherName => (wirekit::response(id, &with_q0(evil), &owner, marker), server),
        Kind::OtherType => {
            let q = Q { name: q0.name.clone(), qtype: if q0.qtype == 15 { 16 } else { 15 }, qclass: q0.qclass };
            (wirekit::response(id, &with_q0(q), &owner, marker), server)
        }
        Kind::OtherClass => {
            let q = Q { name: q0.name.clone(), qtype: q0.qtype, qclass: if q0.qclass == 3 { 1 } else { 3 } };
            (wirekit::response(id, &with_q0(q), &owner, marker), server)
        }
        Kind::ParentName => {
            let q = Q { name: q0.name.iter().skip(1).cloned().collect(), qtype: q0.qtype, qclass: q0.qclass };
            (wirekit::response(id, &with_q0(q), &owner, marker), server)
        }
        Kind::ExtraQuestion => {
            let mut qs = asked.clone();
            qs.push(evil);
            (wirekit::response(id, &qs, &owner, marker), server)
        }
        Kind::CaseFlipped => {
            let q = Q { name: wirekit::flip_one_letter(&q0.name), qtype: q0.qtype, qclass: q0.qclass };
            (wirekit::response(id, &with_q0(q), &owner, marker), server)
        }
        Kind::Multi(atoms, n) => {
            let qs: Vec<Q> = atoms[..n as usize]
                .iter()
                .map(|a| match a {
                    Atom::Exact => q0.clone(),
                    Atom::Flip1 => Q { name: wirekit::flip_nth_letter(&q0.name, 0), ..q0.clone() },
                    Atom::Flip2 => Q { name: wirekit::flip_nth_letter(&q0.name, 1), ..q0.clone() },
                    Atom::OtherName => evil.clone(),
                    Atom::OtherType => Q { qtype: if q0.qtype == 15 { 16 } else { 15 }, ..q0.clone() },
                    Atom::OtherClass => Q { qclass: if q0.qclass == 3 { 1 } else { 3 }, ..q0.clone() },
                })
                .collect();
            (wirekit::response(id, &qs, &owner, marker), server)
        }
        Kind::Tc => (wirekit::message(id, 0x8380, &asked, &owner, marker), server),
        Kind::NotifyOpcode => (wirekit::message(id, 0xa180, &asked, &owner, marker), server),
        Kind::Servfail => (wirekit::message(id, 0x8182, &asked, &owner, marker), server),
        Kind::TsigUnsigned | Kind::TsigBadMac | Kind::TsigWrongKey | Kind::TsigUnchained => (genuine(), server),
        Kind::CompressedOwner => {
            // header + questions as in the genuine reply, then the answer with owner = pointer
            // to offset 12 (the first question's name)
            let g = genuine();
            let w = vref::wire::walk(&g).expect("own reply walks");
            let mut b = g[..w.answers[0].start].to_vec();
            b.extend_from_slice(&[0xc0, 12, 0, 1, 0, 1, 0, 0, 0, 60, 0, 4]);
            b.extend_from_slice(&marker);
            (b, server)
        }
        Kind::TrailingOctets => {
            let mut b = genuine();
            b.extend_from_slice(&[0, 0, 0]);
            (b, server)
        }
        Kind::Oversized4200 => {
            let mut b = genuine();
            b[7] = 2;
            vref::wire::emit_name(&owner, &mut b);
            b.extend_from_slice(&[0, 10, 0, 1, 0, 0, 0, 60]);
            b.extend_from_slice(&4200u16.to_be_bytes());
            b.extend(std::iter::repeat(0xcd).take(4200));
            (b, server)
        }
        Kind::SecondQCompressed => {
            // first question literally, the last one as <first label> + pointer to the second
            // label of the first question's name (12 + 1 + len of its first label)
            let mut b = Vec::new();
            b.extend_from_slice(&id.to_be_bytes());
            b.extend_from_slice(&[0x81, 0x80, 0, 2, 0, 1, 0, 0, 0, 0]);
            vref::wire::emit_name(&q0.name, &mut b);
            b.extend_from_slice(&q0.qtype.to_be_bytes());
            b.extend_from_slice(&q0.qclass.to_be_bytes());
            let first = qlast.name.first().cloned().unwrap_or_default();
            b.push(first.len() as u8);
            b.extend_from_slice(&first);
            let ptr = 12 + 1 + q0.name.first().map(|l| l.len()).unwrap_or(0);
            b.extend_from_slice(&[0xc0, ptr as u8]);
            b.extend_from_slice(&qlast.qtype.to_be_bytes());
            b.extend_from_slice(&qlast.qclass.to_be_bytes());
            b.extend_from_slice(&[0xc0, 12, 0, 1, 0, 1, 0, 0, 0, 60, 0, 4]);
            b.extend_from_slice(&marker);
            (b, server)
        }
        Kind::LateToFirst => {
            // what the server sends in answer to the FIRST request: its id, its question(s)
            let fr = first_req.unwrap_or(req);
            let (fid, mut fasked) = wirekit::request_view(fr).expect("first request is walkable");
            // Both requests randomised their letter case independently. With probability 2^-13
            // the two patterns coincide and the late reply would be an exact echo of the judged
            // request; the scenario meant here is "a reply in the FIRST request's pattern, which
            // is another one", so a coincidence is removed (keeps every run a function of its script).
            if let (Some(fq), Some(q)) = (fasked.first_mut(), asked.first()) {
                if rand && fq.name == q.name {
                    fq.name = wirekit::flip_one_letter(&fq.name);
                }
            }
            let fowner = fasked.first().map(|q| q.name.clone()).unwrap_or_default();
            (wirekit::response(fid, &fasked, &fowner, marker), server)
        }
        Kind::SubsetLast => (wirekit::response(id, &[qlast], &owner, marker), server),
        Kind::Reversed => {
            let mut qs = asked.clone();
            qs.reverse();
            (wirekit::response(id, &qs, &owner, marker), server)
        }
        Kind::MixedPair => {
            let q = Q { name: q0.name.clone(), qtype: qlast.qtype, qclass: qlast.qclass };
            (wirekit::response(id, &[q], &owner, marker), server)
        }
        Kind::Oversized => {
            let mut b = genuine();
            // bump ANCOUNT and append `owner TYPE10(NULL) IN 60 <700 bytes>`
            b[7] = 2;
            vref::wire::emit_name(&owner, &mut b);
            b.extend_from_slice(&[0, 10, 0, 1, 0, 0, 0, 60]);
            b.extend_from_slice(&700u16.to_be_bytes());
            b.extend(std::iter::repeat(0xab).take(700));
            (b, server)
        }
        Kind::GarbageRight => (vec![0xff; 7], server),
        Kind::GarbageRightId => (genuine()[..14].to_vec(), server),
        Kind::GarbageWrongSrc => (vec![0xff; 7], SocketAddr::new(other_ip_for(server), 1)),
        Kind::NoQuestion => (wirekit::response(id, &[], &owner, marker), server),
        Kind::QueryEcho => (req.to_vec(), server),
        Kind::RecvError => (vec![], server),
    }
}

impl DnsUdpSocket for SimUdp {
    type Time = TokioTime;

    fn poll_recv_from(&self, cx: &mut Context<'_>, buf: &mut [u8]) -> Poll<io::Result<(usize, SocketAddr)>> {
        let mut g = self.sh.lock().unwrap();
        let g = &mut *g;
        let server = g.server;
        let first_req = g.first_request.clone();
        let sock = &mut g.socks[self.idx];
        let t0 = sock.t0;
        if sock.sent.is_empty() {
            g.recv_before_send = true;
            return Poll::Pending;
        }
        let Some(next) = sock.queue.front().cloned() else {
            // silence: nothing will ever arrive on this socket
            return Poll::Pending;
        };
        let due = t0 + Duration::from_millis(next.at_ms);
        if tokio::time::Instant::now() < due {
            if sock.sleep.is_none() {
                sock.sleep = Some(Box::pin(tokio::time::sleep_until(due)));
            }
            if sock.sleep.as_mut().unwrap().as_mut().poll(cx).is_pending() {
                return Poll::Pending;
            }
        }
        sock.sleep = None;
        sock.queue.pop_front();
        let at_us = (tokio::time::Instant::now() - t0).as_micros() as u64;
        let request = sock.sent.last().cloned().unwrap();
        let marker = [10, self.idx as u8, next.step as u8, next.kind.code()];
        let (bytes, src) = build(next.kind, &request, server, marker, first_req.as_deref(), g.rand);
        let (judged, ordinal) = (sock.judged, sock.ordinal);
        let examined_before = sock.examined;
        if next.kind != Kind::RecvError {
            sock.examined += 1;
        }
        // a datagram larger than the caller's buffer is cut off by the socket
        let n = bytes.len().min(buf.len());
        if n < bytes.len() {
            g.truncated_by_buffer += 1;
        }
        let bytes = bytes[..n].to_vec();
        if !judged {
            // the first request's own traffic is not what is judged
            if next.kind == Kind::RecvError {
                return Poll::Ready(Err(io::Error::other("scripted recv error")));
            }
            buf[..n].copy_from_slice(&bytes[..n]);
            return Poll::Ready(Ok((n, src)));
        }
        g.deliveries.push(Delivery {
            step: next.step,
            sock: ordinal,
            kind: next.kind,
            at_us,
            bytes: bytes.clone(),
            src,
            examined_before,
            request,
        });
        if next.kind == Kind::RecvError {
            return Poll::Ready(Err(io::Error::other("scripted recv error")));
        }
        buf[..n].copy_from_slice(&bytes[..n]);
        Poll::Ready(Ok((n, src)))
    }

    fn poll_send_to(&self, _cx: &mut Context<'_>, buf: &[u8], _target: SocketAddr) -> Poll<io::Result<usize>> {
        let mut g = self.sh.lock().unwrap();
        let g = &mut *g;
        if g.send_fault == SendFault::Error {
            return Poll::Ready(Err(io::Error::other("scripted send error")));
        }
        let sock = &mut g.socks[self.idx];
        let t0 = sock.t0;
        sock.sent.push(buf.to_vec());
        sock.sent_at_us = (tokio::time::Instant::now() - t0).as_micros() as u64;
        if !sock.judged && g.first_request.is_none() {
            g.first_request = Some(buf.to_vec());
        }
        if g.send_fault == SendFault::Short {
            return Poll::Ready(Ok(buf.len() - 1));
        }
        Poll::Ready(Ok(buf.len()))
    }
}

impl RuntimeProvider for SimNet {
    type Handle = TokioHandle;
    type Timer = TokioTime;
    type Udp = SimUdp;
    type Tcp = <TokioRuntimeProvider as RuntimeProvider>::Tcp;

    fn create_handle(&self) -> TokioHandle {
        self.inner.create_handle()
    }
    fn connect_tcp(
        &self,
        a: SocketAddr,
        b: Option<SocketAddr>,
        t: Option<Duration>,
    ) -> Pin<Box<dyn Send + Future<Output = io::Result<Self::Tcp>>>> {
        self.inner.connect_tcp(a, b, t)
    }
    fn bind_udp(&self, local: SocketAddr, _server: SocketAddr) -> Pin<Box<dyn Send + Future<Output = io::Result<SimUdp>>>> {
        let sh = self.sh.clone();
        Box::pin(async move {
            let idx = {
                let mut g = sh.lock().unwrap();
                let g = &mut *g;
                g.locals.push(local);
                let call = g.bind_calls;
                g.bind_calls += 1;
                if let Some(f) = g.bind_faults.get(call) {
                    return Err(match f {
                        BindFault::InUse => io::Error::new(io::ErrorKind::AddrInUse, "scripted: address in use"),
                        BindFault::Denied => io::Error::new(io::ErrorKind::PermissionDenied, "scripted: permission denied"),
                        BindFault::Other => io::Error::other("scripted bind error"),
                    });
                }
                // whose socket is it? (second-step family: the first request's sockets are those
                // bound while it is being issued, or - when it stays in flight - on its retry grid)
                let now = tokio::time::Instant::now();
                let of_first = if g.first_in_flight {
                    (now - g.first_t0).as_millis() as u64 % g.r_ms == 0
                } else {
                    g.first_phase
                };
                let idx = g.socks.len();
                let (ordinal, queue, t0) = if of_first {
                    let o = g.first_socks;
                    g.first_socks += 1;
                    (o, g.first_plan.iter().filter(|p| p.sock == o).cloned().collect(), g.first_t0)
                } else {
                    let o = g.judged_socks;
                    g.judged_socks += 1;
                    (o, g.plan.iter().filter(|p| p.sock == o).cloned().collect(), g.t0)
                };
                g.socks.push(Sock { sent: vec![], sent_at_us: 0, queue, examined: 0, sleep: None, judged: !of_first, ordinal, t0 });
                idx
            };
            Ok(SimUdp { sh, idx })
        })
    }
}

// ------------------------------------------------------------------------------------------
// one execution

#[derive(Clone, Debug)]
pub enum Outcome {
    Ok(Vec<u8>),
    Err(String),
    /// the response stream ended without an item (hickory's rendering of the overall timeout)
    None,
    Panic(PanicInfo),
}

#[derive(Clone, Debug)]
pub struct Obs {
    pub deliveries: Vec<Delivery>,
    pub outcome: Outcome,
    pub end_us: u64,
    pub tx_us: Vec<u64>,
    pub recv_before_send: bool,
    /// local addresses passed to bind_udp (all requests of the run)
    pub locals: Vec<SocketAddr>,
    /// second-step family: how the first request ended
    pub first_outcome: &'static str,
}


fn make_request(cfg: &UdpCfg, rand: bool, qname0: &str, id: Option<u16>) -> DnsRequest {
    let mut opts = DnsRequestOptions::default();
    opts.case_randomization = rand;
    opts.retry_interval = Duration::from_millis(cfg.req_interval_ms);
    opts.use_edns = cfg.use_edns;
    if let Some(p) = cfg.edns_payload {
        opts.edns_payload_len = p;
    }
    let qtype = if cfg.signer == SignerCfg::SignedIxfr { RecordType::IXFR } else { RecordType::A };
    let mut req = if cfg.nq == 1 {
        DnsRequest::from_query(Query::new(Name::from_ascii(qname0).unwrap(), qtype), opts)
    } else {
        // two questions, built by hand: names go out in the letter case given here and
        // (with the option on) replies are held to exactly that case
        let mut m = hickory_proto::op::Message::query();
        m.add_query(Query::new(Name::from_ascii("wWw.eXample.com.").unwrap(), RecordType::A));
        m.add_query(Query::new(Name::from_ascii("Mail.example.COM.").unwrap(), RecordType::AAAA));
        if cfg.use_edns {
            let mut e = hickory_proto::op::Edns::new();
            if let Some(p) = cfg.edns_payload {
                e.set_max_payload(p);
            }
            m.set_edns(e);
        }
        DnsRequest::new(m, opts)
    };
    if let Some(id) = id {
        // the message id is the caller's: second-step cases force it
        req.metadata.id = id;
    }
    req
}

pub fn execute(case: &Case, planned: &[Planned], rt: &mut tokio::runtime::Runtime) -> Obs {
    let holder: Arc<Mutex<Option<Arc<Mutex<Shared>>>>> = Arc::new(Mutex::new(None));
    let h2 = holder.clone();
    let rand = case.rand;
    let cfg = case.cfg.clone();
    let first = case.first;
    let planned_v = planned.to_vec();
    let res = catch(|| {
        rt.block_on(async move {
            let t0 = tokio::time::Instant::now();
            let sh = Arc::new(Mutex::new(Shared {
                t0,
                server: cfg.server(),
                plan: planned_v,
                socks: vec![],
                deliveries: vec![],
                recv_before_send: false,
                truncated_by_buffer: 0,
                bind_faults: cfg.bind_faults,
                bind_calls: 0,
                send_fault: cfg.send_fault,
                locals: vec![],
                first_plan: vec![],
                first_t0: t0,
                first_phase: false,
                first_in_flight: false,
                r_ms: cfg.r_ms(),
                first_request: None,
                first_socks: 0,
                judged_socks: 0,
                rand,
            }));
            *h2.lock().unwrap() = Some(sh.clone());
            let net = SimNet { sh: sh.clone(), inner: TokioRuntimeProvider::new() };
            let mut b = UdpClientStream::builder(cfg.server(), net)
                .with_timeout(if cfg.timeout_none { None } else { Some(Duration::from_millis(cfg.timeout_ms)) })
                .with_max_retries(cfg.max_retries)
                .with_os_port_selection(cfg.os_port);
            if let Some(f) = cfg.floor_ms {
                b = b.with_retry_interval_floor(f);
            }
            match cfg.bind {
                Bind::Default => {}
                Bind::Fixed(p) => b = b.with_bind_addr(Some(SocketAddr::new(std::net::Ipv4Addr::UNSPECIFIED.into(), p))),
                Bind::ZeroPort => b = b.with_bind_addr(Some(SocketAddr::new(std::net::Ipv4Addr::UNSPECIFIED.into(), 0))),
            }
            if cfg.avoid_all_ports {
                b = b.avoid_local_ports(ALL_PORTS.get_or_init(|| Arc::new((1024..=u16::MAX).collect())).clone());
            }
            let mut b = match cfg.signer {
                SignerCfg::None => b.with_signer(None),
                _ => b.with_signer(Some(
                    hickory_proto::rr::TSigner::new(
                        TSIG_SECRET.to_vec(),
                        hickory_proto::rr::rdata::tsig::TsigAlgorithm::HmacSha256,
                        Name::from_ascii(TSIG_KEY_NAME).unwrap(),
                        300,
                    )
                    .unwrap(),
                )),
            };
            let _ = &mut b;
            let mut stream = b.build();

            // ---- second-step family: another request on the same client object first
            let mut first_outcome = "none";
            let mut pending_first = None;
            if let Some(f) = first {
                let req_a = make_request(&cfg, rand, "www.example.com.", Some(0x5a5a));
                {
                    let mut g = sh.lock().unwrap();
                    g.first_t0 = tokio::time::Instant::now();
                    g.first_phase = true;
                    if f.mode == FirstMode::Completed {
                        g.first_plan = vec![Planned { step: 0, sock: 0, kind: Kind::Genuine, at_ms: 1 }];
                    }
                }
                let mut a = stream.send_message(req_a);
                match f.mode {
                    FirstMode::Completed | FirstMode::TimedOut => {
                        first_outcome = match a.next().await {
                            Some(Ok(_)) => "ok",
                            Some(Err(_)) => "error",
                            None => "timeout",
                        };
                    }
                    FirstMode::Cancelled => {
                        // first transmission made, then the caller loses interest
                        let _ = tokio::time::timeout(Duration::from_millis(1), a.next()).await;
                        drop(a);
                        first_outcome = "cancelled";
                    }
                    FirstMode::InFlight => {
                        // transmit, then let the judged request start 7 ms later: the two retry
                        // grids never meet
                        let _ = tokio::time::timeout(Duration::from_millis(7), a.next()).await;
                        sh.lock().unwrap().first_in_flight = true;
                        pending_first = Some(a);
                        first_outcome = "in-flight";
                    }
                }
                sh.lock().unwrap().first_phase = false;
            }

            let t0 = tokio::time::Instant::now();
            sh.lock().unwrap().t0 = t0;
            let req = match first {
                None => make_request(&cfg, rand, "www.example.com.", None),
                Some(f) => make_request(&cfg, rand, if f.same_q { "www.example.com." } else { "ftp.example.com." }, Some(if f.same_id { 0x5a5a } else { 0x5a5b })),
            };
            let mut judged = stream.send_message(req);
            let r = match pending_first.as_mut() {
                None => judged.next().await,
                Some(a) => {
                    let mut a_done = false;
                    loop {
                        tokio::select! {
                            biased;
                            rb = judged.next() => break rb,
                            _ = a.next(), if !a_done => { a_done = true; }
                        }
                    }
                }
            };
            let end_us = (tokio::time::Instant::now() - t0).as_micros() as u64;
            (r, end_us, first_outcome)
        })
    });
    let sh = holder.lock().unwrap().take();
    let (deliveries, tx_us, rbs, locals) = match &sh {
        Some(sh) => {
            let mut g = sh.lock().unwrap();
            // drop pending Sleep objects while the runtime still exists
            for s in g.socks.iter_mut() {
                s.sleep = None;
            }
            (
                g.deliveries.clone(),
                g.socks.iter().filter(|s| s.judged && !s.sent.is_empty()).map(|s| s.sent_at_us).collect::<Vec<_>>(),
                g.recv_before_send,
                g.locals.clone(),
            )
        }
        None => (vec![], vec![], false, vec![]),
    };
    match res {
        Err(p) => {
            // a panic may leave the runtime in an odd state: use a fresh one from here on
            *rt = vsim::rt();
            let end_us = deliveries.last().map(|d| d.at_us).unwrap_or(0);
            Obs { deliveries, outcome: Outcome::Panic(p), end_us, tx_us, recv_before_send: rbs, locals, first_outcome: "panic" }
        }
        Ok((r, end_us, first_outcome)) => {
            let outcome = match r {
                Some(Ok(resp)) => Outcome::Ok(resp.as_buffer().to_vec()),
                Some(Err(e)) => Outcome::Err(e.to_string()),
                None => Outcome::None,
            };
            Obs { deliveries, outcome, end_us, tx_us, recv_before_send: rbs, locals, first_outcome }
        }
    }
}

pub fn err_class(e: &str) -> &'static str {
    if e.contains("receive attempts exceeded") {
        "attempts-exceeded"
    } else if e.contains("scripted recv error") {
        "recv-error"
    } else if e.to_ascii_lowercase().contains("case") {
        "case-mismatch"
    } else if e.contains("protocol error") || e.contains("decod") || e.contains("unexpected end") {
        "decode-error"
    } else if e.contains("timed out") {
        "timeout"
    } else {
        "other-error"
    }
}

impl Obs {
    pub fn outcome_class(&self) -> String {
        match &self.outcome {
            Outcome::Ok(_) => "ok".into(),
            Outcome::Err(e) => format!("err:{}", err_class(e)),
            Outcome::None => "timeout-none".into(),
            Outcome::Panic(_) => "panic".into(),
        }
    }
    /// What has to be identical when the same schedule is executed twice (ids, ports and the
    /// 0x20 pattern are random and therefore excluded; in tie cases the number of transmissions
    /// legitimately depends on the `select!` coin and is excluded too).
    pub fn digest(&self, tie: bool) -> u64 {
        let mut s = String::new();
        for d in &self.deliveries {
            s.push_str(&format!("{}@{}:{};", d.step, d.sock, d.at_us));
        }
        s.push_str(&self.outcome_class());
        if let Outcome::Ok(b) = &self.outcome {
            let who = self.deliveries.iter().find(|d| &d.bytes == b).map(|d| d.step as i64).unwrap_or(-1);
            s.push_str(&format!("acc{who}"));
        }
        s.push_str(&format!("end{}", self.end_us));
        if !tie {
            s.push_str(&format!("tx{:?}", self.tx_us));
        }
        fnv64(s.as_bytes())
    }
}

// ------------------------------------------------------------------------------------------
// the monitor (oracle)

#[derive(Clone, Copy, Debug, PartialEq, Eq)]
enum Class {
    /// the scripted genuine reply, satisfying every clause of the predicate: has to complete the query
    MustAccept,
    /// satisfies the predicate as stated but is not the genuine reply (v4-mapped source, empty
    /// question section, other letter case while randomisation is off): accepting or skipping
    /// are both within the statement
    MayAccept,
    /// fails the predicate: has to be skipped (and counted)
    MustSkip,
    /// fails the predicate, but ending the query with an error is the designed reaction
    /// (case mismatch under randomisation) / the statement says nothing (recv error, QR=0 echo)
    NoAcceptAbortOk,
}

fn classify(d: &Delivery, case: &Case) -> (Class, wirekit::Verdict) {
    let rand = case.rand;
    let mut v = wirekit::judge_datagram(&d.bytes, d.src, case.cfg.server(), &d.request);
    if let Ok(sreq) = vref::tsig::split(&d.request) {
        // the transport signed the request: the reply has to verify (reference verifier)
        v.tsig_ok = Some(vref::tsig::verify_response(&d.bytes, &tsig_key(), sreq.tsig.time, &sreq.tsig.mac).is_ok());
    }
    if d.kind == Kind::RecvError {
        return (Class::NoAcceptAbortOk, v);
    }
    let c = if v.matches(rand) {
        if !v.is_response {
            Class::NoAcceptAbortOk
        } else if d.kind == Kind::Genuine && v.src == SrcClass::Right {
            Class::MustAccept
        } else {
            Class::MayAccept
        }
    } else if matches!(v.first_failing(rand), "case-mismatch" | "bad-tsig") {
        Class::NoAcceptAbortOk
    } else {
        Class::MustSkip
    };
    (c, v)
}

pub struct Finding {
    pub key: String,
    pub what: String,
}

/// Judge one observed trace against the statement. Returns the first violated clause.
pub fn judge(case: &Case, planned: &[Planned], o: &Obs, l: &mut Local) -> Option<Finding> {
    if let Outcome::Panic(p) = &o.outcome {
        return Some(Finding { key: format!("panic:{}", vcore::short_loc(&p.loc)), what: format!("UDP client panicked: {}", p.msg) });
    }
    // at most three datagrams are examined per transmission
    let nsock = o.tx_us.len().max(o.deliveries.iter().map(|d| d.sock + 1).max().unwrap_or(0));
    for s in 0..nsock {
        let n = o.deliveries.iter().filter(|d| d.sock == s && d.kind != Kind::RecvError).count();
        if n > 3 {
            return Some(Finding {
                key: "udp-more-than-3-examined".into(),
                what: format!("{n} datagrams were received on the socket of transmission {s}"),
            });
        }
    }
    // completes only with a matching datagram
    let mut accepted_step: Option<usize> = None;
    if let Outcome::Ok(bytes) = &o.outcome {
        let Some(d) = o.deliveries.iter().find(|d| d.kind != Kind::RecvError && &d.bytes == bytes) else {
            return Some(Finding {
                key: "udp-accepted:unscripted-bytes".into(),
                what: "the query completed with bytes that no scripted datagram carried".into(),
            });
        };
        accepted_step = Some(d.step);
        let (_, v) = classify(d, case);
        if !v.matches(case.rand) {
            return Some(Finding {
                key: format!("udp-accepted:{}", v.first_failing(case.rand)),
                what: format!(
                    "query completed with the {} datagram (src {}) which fails the acceptance predicate: {}",
                    d.kind.name(),
                    d.src,
                    v.first_failing(case.rand)
                ),
            });
        }
        if d.examined_before >= 3 {
            return Some(Finding {
                key: "udp-accepted:beyond-3-datagrams".into(),
                what: format!("accepted datagram was number {} on its socket", d.examined_before + 1),
            });
        }
        if !v.is_response {
            l.outcome("obs:udp-accepted-qr0-message");
        }
        match d.kind {
            Kind::MappedRight => l.outcome("obs:udp-other-spelling-of-queried-endpoint-accepted"),
            Kind::NoQuestion => l.outcome("obs:udp-empty-question-section-accepted"),
            Kind::CaseFlipped => l.outcome("obs:udp-other-case-accepted-randomisation-off"),
            Kind::Oversized => l.outcome("obs:udp-reply-with-extra-700-byte-record-accepted"),
            Kind::SubsetLast => l.outcome("obs:udp-reply-echoing-only-one-of-two-questions-accepted"),
            Kind::Reversed => l.outcome("obs:udp-reply-with-reversed-questions-accepted"),
            Kind::Multi(..) => l.outcome(if case.rand { "obs:udp-reply-repeating-the-exact-question-accepted" } else { "obs:udp-reply-repeating-the-question-in-any-case-accepted-randomisation-off" }),
            _ => {}
        }
    }
    // other datagrams are skipped; the genuine reply completes the query
    let n = o.deliveries.len();
    for (i, d) in o.deliveries.iter().enumerate() {
        let last = i + 1 == n;
        let (class, _) = classify(d, case);
        let accepted_this = accepted_step == Some(d.step);
        match class {
            Class::MustAccept if d.examined_before < 3 && !accepted_this => {
                // lenient: another predicate-satisfying datagram consumed at the same instant? no:
                // each step has its own instant, so the genuine reply was passed over
                let how = if !last {
                    "skipped".to_string()
                } else {
                    match &o.outcome {
                        Outcome::Ok(_) => "other-accepted".to_string(),
                        Outcome::Err(e) => err_class(e).to_string(),
                        Outcome::None => "timeout".to_string(),
                        Outcome::Panic(_) => unreachable!(),
                    }
                };
                return Some(Finding {
                    key: format!("udp-genuine-not-accepted:{how}"),
                    what: format!(
                        "the genuine reply was datagram {} on its socket, everything before it was skipped, but the query did not complete with it ({})",
                        d.examined_before + 1,
                        o.outcome_class()
                    ),
                });
            }
            Class::MustSkip if last && d.examined_before < 2 && accepted_step.is_none() && o.end_us == d.at_us => {
                let e = match &o.outcome {
                    Outcome::Err(e) => e.clone(),
                    _ => o.outcome_class(),
                };
                let key = match d.kind {
                    Kind::GarbageRight | Kind::GarbageRightId => "udp-garbage-from-right-source-aborts".to_string(),
                    k => format!("udp-not-skipped:{}", k.name()),
                };
                return Some(Finding {
                    key,
                    what: format!(
                        "a non-matching datagram ({}, number {} on its socket) ended the query with '{}' instead of being skipped",
                        d.kind.name(),
                        d.examined_before + 1,
                        e
                    ),
                });
            }
            Class::NoAcceptAbortOk if last && accepted_step.is_none() && o.end_us == d.at_us => {
                l.outcome(match d.kind {
                    Kind::RecvError => "obs:udp-recv-error-ends-query",
                    Kind::QueryEcho => "obs:udp-query-echo-ends-query",
                    Kind::TsigUnsigned | Kind::TsigBadMac | Kind::TsigWrongKey | Kind::TsigUnchained => "obs:udp-reply-failing-tsig-verification-ends-query",
                    _ if case.cfg.signer == SignerCfg::SignedIxfr && !case.rand => "obs:udp-reply-failing-tsig-verification-ends-query",
                    _ => "obs:udp-case-mismatch-ends-query",
                });
            }
            _ => {}
        }
    }
    // a genuine reply that was due while the query was still running on a live socket
    for p in planned {
        if p.kind != Kind::Genuine || o.deliveries.iter().any(|d| d.step == p.step) {
            continue;
        }
        let due_us = p.at_ms * 1000;
        if due_us >= o.end_us || p.sock >= o.tx_us.len() {
            continue;
        }
        let on_sock: Vec<&Delivery> = o.deliveries.iter().filter(|d| d.sock == p.sock).collect();
        let examined = on_sock.iter().filter(|d| d.kind != Kind::RecvError).count();
        let abort_ok = on_sock.iter().any(|d| classify(d, case).0 == Class::NoAcceptAbortOk);
        let earlier_pending = planned.iter().any(|q| q.sock == p.sock && q.step < p.step && !o.deliveries.iter().any(|d| d.step == q.step));
        if examined < 3 && !abort_ok && !earlier_pending {
            return Some(Finding {
                key: "udp-genuine-not-accepted:not-examined".into(),
                what: format!("the genuine reply due at {} ms on a live socket was never received although the query ran until {} us", p.at_ms, o.end_us),
            });
        }
    }
    None
}

// ------------------------------------------------------------------------------------------
// enumeration

/// The symbols of a configuration: wait-for-retransmission + every kind addressed to the newest
/// socket (back 0) or to one of the two previous ones (late replies, back 1 / 2).
pub fn symbols(cfg: &UdpCfg) -> Vec<Step> {
    let mut v = vec![Step::Retry];
    for back in 0..3u8 {
        v.extend(kinds_of(cfg).into_iter().map(move |k| Step::D { kind: k, back }));
    }
    v
}

/// Depth-first enumeration of every well-formed schedule that extends `prefix` up to `max_len`
/// steps (the prefix itself included). Only plannable prefixes are extended, so nothing is
/// generated and thrown away.
fn extend(cfg: &UdpCfg, syms: &[Step], seq: &mut Vec<Step>, max_len: usize, f: &mut dyn FnMut(&[Step])) {
    if !matches!(seq.last(), Some(Step::Retry)) {
        f(seq);
    }
    if seq.len() == max_len {
        return;
    }
    for s in syms {
        seq.push(*s);
        if plannable(cfg, seq) {
            extend(cfg, syms, seq, max_len, f);
        }
        seq.pop();
    }
}

fn has_tie_spot(steps: &[Step]) -> bool {
    steps.windows(2).any(|w| matches!((w[0], w[1]), (Step::Retry, Step::D { back, .. }) if back >= 1))
}

pub struct Totals {
    pub tie: AtomicU64,
    pub executed: AtomicU64,
    pub consumed_steps: AtomicU64,
    pub fully_consumed: AtomicU64,
}

/// Execute and judge one case; on a violation replay it (identical observations required) and
/// minimise it by dropping steps while the same clause keeps failing.
pub fn run_case(ctx: &Ctx, case: &Case, rt: &mut tokio::runtime::Runtime, l: &mut Local, totals: Option<&Totals>, selftest: bool) {
    let Some(planned) = plan(case) else {
        return;
    };
    l.eval();
    let o = execute(case, &planned, rt);
    if o.recv_before_send {
        ctx.machinery_failure("SimUdp: recv_from polled before anything was sent on the socket");
    }
    // the scripted instants assume transmissions at 0, R, 2R
    for (i, t) in o.tx_us.iter().enumerate() {
        if *t != i as u64 * case.cfg.r_ms() * 1000 || i >= case.cfg.max_tx() {
            ctx.machinery_failure(&format!(
                "config {}: transmission {i} happened at {t} us, the schedule grid assumes {} ms and at most {} transmissions",
                case.cfg.name,
                i as u64 * case.cfg.r_ms(),
                case.cfg.max_tx()
            ));
        }
    }
    if let Some(t) = totals {
        t.executed.fetch_add(1, Ordering::Relaxed);
        if case.tie {
            t.tie.fetch_add(1, Ordering::Relaxed);
        }
        t.consumed_steps.fetch_add(o.deliveries.len() as u64, Ordering::Relaxed);
        if o.deliveries.len() == planned.len() {
            t.fully_consumed.fetch_add(1, Ordering::Relaxed);
        }
    }
    let class = format!("udp:{}", o.outcome_class());
    l.outcome_sample(&class, || case.to_json());
    if case.cfg.name != "default" {
        l.outcome(&format!("udp:cfg:{}:{}", case.cfg.name, o.outcome_class()));
    }
    if let Some(f) = case.first {
        l.outcome(&format!("udp:second-step:first-{}:{}:then:{}", f.mode.name(), o.first_outcome, o.outcome_class()));
    }
    if is_audit_cfg(&case.cfg) {
        // which local ports the client asked for (the numbers themselves are random)
        let fixed = matches!(case.cfg.bind, Bind::Fixed(_));
        let class = |a: &SocketAddr| match a.port() {
            0 => "zero",
            p if fixed && Bind::Fixed(p) == case.cfg.bind => "the-fixed-port",
            1024..=u16::MAX => "picked-1024-65535",
            _ => "below-1024",
        };
        let mut seen: Vec<&str> = o.locals.iter().map(class).collect();
        seen.sort();
        seen.dedup();
        l.outcome(&format!("udp:local-ports:{}:{}", case.cfg.name, seen.join("+")));
        l.outcome(&format!("udp:bind-calls:{}:{}", case.cfg.name, o.locals.len().min(13)));
    }
    if case.steps.iter().any(|s| matches!(s, Step::D { kind: Kind::Multi(..), .. })) {
        l.outcome(&format!("udp:composed-question-section:rand-{}:{}", if case.rand { "on" } else { "off" }, o.outcome_class()));
    }
    l.outcome(&format!("udp:transmissions={}", o.tx_us.len()));
    // non-trivial: a non-matching datagram was consumed before the genuine one was consumed
    if let Some(gi) = o.deliveries.iter().position(|d| d.kind == Kind::Genuine) {
        if o.deliveries[..gi].iter().any(|d| d.kind != Kind::Genuine) {
            l.nontrivial(fnv64(format!("{:?}", case).as_bytes()));
        }
    }
    if selftest {
        let o2 = execute(case, &planned, rt);
        if o2.digest(case.tie) != o.digest(case.tie) {
            ctx.machinery_failure(&format!("nondeterminism: schedule {} gave two different observations", case.to_json()));
        }
    }
    if let Some(f) = judge(case, &planned, &o, l) {
        // replay: identical observations required before anything is reported
        let o2 = execute(case, &planned, rt);
        if o2.digest(case.tie) != o.digest(case.tie) {
            ctx.machinery_failure(&format!("nondeterminism: failing schedule {} did not reproduce identically", case.to_json()));
            return;
        }
        let first = !l.has_violation_key(&f.key);
        let mut min = case.clone();
        if first {
            // greedy minimisation
            let mut progress = true;
            while progress {
                progress = false;
                for i in 0..min.steps.len() {
                    let mut c = min.clone();
                    c.steps.remove(i);
                    let Some(pl) = plan(&c) else { continue };
                    let oc = execute(&c, &pl, rt);
                    let mut scratch = Local::default();
                    if judge(&c, &pl, &oc, &mut scratch).map(|g| g.key == f.key).unwrap_or(false) {
                        min = c;
                        progress = true;
                        break;
                    }
                }
            }
        }
        l.violation(&f.key, &f.what, || {
            let pl = plan(&min).unwrap();
            let om = execute(&min, &pl, rt);
            let mut j = min.to_json();
            j["observed"] = json!({
                "outcome": om.outcome_class(),
                "detail": match &om.outcome { Outcome::Err(e) => e.clone(), Outcome::Panic(p) => p.msg.clone(), _ => String::new() },
                "end_us": om.end_us,
                "transmissions_at_us": om.tx_us,
                "received": om.deliveries.iter().map(|d| json!({"step": d.step, "socket": d.sock, "kind": d.kind.name(), "at_us": d.at_us, "src": d.src.to_string()})).collect::<Vec<_>>(),
            });
            j
        });
    }
}

pub fn run(ctx: &Ctx) {
    let thorough = !ctx.quick();
    let totals = Totals { tie: AtomicU64::new(0), executed: AtomicU64::new(0), consumed_steps: AtomicU64::new(0), fully_consumed: AtomicU64::new(0) };
    let mut per_cfg = serde_json::Map::new();
    for cfg in configs() {
        // the default configuration is explored deepest
        let max_len: usize = match (cfg.name == "default", thorough) {
            (true, false) => 4,
            (true, true) => 5,
            // configurations of the audit round: short schedules
            (false, false) if is_audit_cfg(&cfg) => 2,
            (false, true) if is_audit_cfg(&cfg) => 3,
            (false, false) => 3,
            (false, true) => 4,
        };
        let syms = symbols(&cfg);
        // work units: every plannable prefix of length p = max_len - 2 (a unit then runs at most
        // |symbols|^2 schedules); all shorter schedules go with unit 0
        let p = max_len.saturating_sub(2).max(1);
        let mut units: Vec<Vec<Step>> = vec![vec![]];
        {
            let mut seq = vec![];
            fn prefixes(cfg: &UdpCfg, syms: &[Step], seq: &mut Vec<Step>, p: usize, out: &mut Vec<Vec<Step>>) {
                if seq.len() == p {
                    out.push(seq.clone());
                    return;
                }
                for s in syms {
                    seq.push(*s);
                    if plannable(cfg, seq) {
                        prefixes(cfg, syms, seq, p, out);
                    }
                    seq.pop();
                }
            }
            prefixes(&cfg, &syms, &mut seq, p, &mut units);
        }
        let before = totals.executed.load(Ordering::SeqCst);
        ctx.par_run_init(
            units.len() as u64,
            1,
            |_| vsim::rt(),
            |u, l, rt| {
                let mut run_seq = |steps: &[Step]| {
                    let selftest = fnv64(format!("{steps:?}").as_bytes()) % 8 == 0;
                    for rand in [false, true] {
                        let case = Case { cfg: cfg.clone(), rand, tie: false, steps: steps.to_vec(), first: None };
                        run_case(ctx, &case, rt, l, Some(&totals), selftest);
                        // the tie placement is explored up to length 4
                        if has_tie_spot(steps) && steps.len() <= 4 {
                            let case = Case { cfg: cfg.clone(), rand, tie: true, steps: steps.to_vec(), first: None };
                            run_case(ctx, &case, rt, l, Some(&totals), selftest);
                        }
                    }
                };
                if u == 0 {
                    // everything shorter than a unit prefix
                    let mut seq = vec![];
                    extend(&cfg, &syms, &mut seq, p - 1, &mut run_seq);
                } else {
                    let mut seq = units[u as usize].clone();
                    extend(&cfg, &syms, &mut seq, max_len, &mut run_seq);
                }
            },
        );
        let done = totals.executed.load(Ordering::SeqCst) - before;
        per_cfg.insert(cfg.name.to_string(), json!({"schedules": done, "max_len": max_len, "symbols": syms.len(), "retry_ms": cfg.r_ms(), "max_transmissions": cfg.max_tx()}));
    }
    // ---- composed question sections: a reply from the right source with the right id whose
    // question section is an ordered pair / triple over {exact echo, two differently case-flipped
    // copies, other name, other type, other class}. Family: every schedule of length <= 2 with at
    // least one such datagram, and (thorough) every schedule of length 3 with exactly one, over
    // all kinds addressed to the newest socket + wait; default and two-question configuration,
    // randomisation on and off.
    // The same family carries the other permitted layouts of the genuine reply (TC, NOTIFY opcode,
    // SERVFAIL, compressed answer owner, trailing octets, a reply larger than any buffer, second
    // question compressed against the first) and runs in the signed configuration as well.
    for cfg in configs().into_iter().filter(|c| matches!(c.name, "default" | "two-questions" | "tsig-ixfr" | "no-edns")) {
        let specials = special_kinds(&cfg);
        let mut syms = vec![Step::Retry];
        syms.extend(kinds_of(&cfg).into_iter().chain(specials.iter().copied()).map(|k| Step::D { kind: k, back: 0 }));
        let max_len: usize = if thorough { 3 } else { 2 };
        let before = totals.executed.load(Ordering::SeqCst);
        ctx.par_run_init(
            syms.len() as u64 + 1,
            1,
            |_| vsim::rt(),
            |u, l, rt| {
                let mut run_seq = |steps: &[Step]| {
                    let multis = steps.iter().filter(|s| matches!(s, Step::D { kind, .. } if specials.contains(kind))).count();
                    if multis == 0 || (steps.len() == 3 && multis != 1) {
                        return;
                    }
                    let selftest = fnv64(format!("{steps:?}").as_bytes()) % 8 == 0;
                    for rand in [false, true] {
                        let case = Case { cfg: cfg.clone(), rand, tie: false, steps: steps.to_vec(), first: None };
                        run_case(ctx, &case, rt, l, Some(&totals), selftest);
                    }
                };
                if u == 0 {
                    return;
                }
                let mut seq = vec![syms[u as usize - 1]];
                if plannable(&cfg, &seq) {
                    extend(&cfg, &syms, &mut seq, max_len, &mut run_seq);
                }
            },
        );
        let done = totals.executed.load(Ordering::SeqCst) - before;
        per_cfg.insert(format!("{}+composed-question-sections", cfg.name), json!({"schedules": done, "max_len": max_len, "symbols": syms.len(), "composed_kinds": multi_kinds().len(), "special_kinds": specials.len()}));
    }
    // ---- second step: the judged request is issued on a client object that has already served
    // another request (completed / timed out / cancelled / still in flight), from the same fixed
    // local port, with the same or another message id and question; the late genuine reply to the
    // FIRST request is one of the datagram kinds. Every schedule of length <= 2 (thorough 3) that
    // contains it, over all kinds + wait, randomisation on and off.
    {
        let cfg = cfg_by_name("bind-fixed-port").unwrap();
        let mut syms = vec![Step::Retry, Step::D { kind: Kind::LateToFirst, back: 0 }];
        syms.extend(kinds_of(&cfg).into_iter().map(|k| Step::D { kind: k, back: 0 }));
        let max_len: usize = if thorough { 3 } else { 2 };
        let mut variants = vec![];
        for mode in FIRST_MODES {
            for same_id in [true, false] {
                for same_q in [true, false] {
                    variants.push(First { mode, same_id, same_q });
                }
            }
        }
        let before = totals.executed.load(Ordering::SeqCst);
        ctx.par_run_init(
            (variants.len() * syms.len()) as u64,
            1,
            |_| vsim::rt(),
            |u, l, rt| {
                let first = variants[u as usize / syms.len()];
                let mut run_seq = |steps: &[Step]| {
                    if !steps.iter().any(|s| matches!(s, Step::D { kind: Kind::LateToFirst, .. })) {
                        return;
                    }
                    let selftest = fnv64(format!("{steps:?}").as_bytes()) % 8 == 0;
                    for rand in [false, true] {
                        let case = Case { cfg: cfg.clone(), rand, tie: false, steps: steps.to_vec(), first: Some(first) };
                        run_case(ctx, &case, rt, l, Some(&totals), selftest);
                    }
                };
                let mut seq = vec![syms[u as usize % syms.len()]];
                if plannable(&cfg, &seq) {
                    extend(&cfg, &syms, &mut seq, max_len, &mut run_seq);
                }
            },
        );
        let done = totals.executed.load(Ordering::SeqCst) - before;
        per_cfg.insert("second-request-on-the-same-client".to_string(), json!({"schedules": done, "max_len": max_len, "first_request_variants": variants.len()}));
    }
    ctx.set("udp_configs", Value::Object(per_cfg));
    ctx.set("udp_schedules", json!(totals.executed.load(Ordering::SeqCst)));
    ctx.set("udp_tie_schedules", json!(totals.tie.load(Ordering::SeqCst)));
    ctx.set("udp_steps_consumed", json!(totals.consumed_steps.load(Ordering::SeqCst)));
    ctx.states.fetch_add(totals.fully_consumed.load(Ordering::SeqCst), Ordering::SeqCst);
    ctx.transitions.fetch_add(totals.consumed_steps.load(Ordering::SeqCst), Ordering::SeqCst);
    ctx.traces_validated.fetch_add(totals.executed.load(Ordering::SeqCst), Ordering::SeqCst);
}
