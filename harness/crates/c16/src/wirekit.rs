//! Hand-built DNS messages (no hickory encoder involved) and the reference acceptance predicate
//! of the C16 statement, evaluated on raw bytes with the independent walker `vref::wire`.

use std::net::{IpAddr, SocketAddr};
use vref::wire::{self, Labels};

/// One question as raw labels (case preserved), type, class.
#[derive(Clone, Debug, PartialEq, Eq)]
pub struct Q {
    pub name: Labels,
    pub qtype: u16,
    pub qclass: u16,
}

pub fn labels(s: &str) -> Labels {
    s.trim_end_matches('.').split('.').filter(|l| !l.is_empty()).map(|l| l.as_bytes().to_vec()).collect()
}

/// A response message: header (QR|RD|RA, NOERROR), the given questions (uncompressed), one answer
/// `owner A 60 <marker>` whose rdata is a 4-byte marker identifying the scripted message.
pub fn response(id: u16, questions: &[Q], owner: &Labels, marker: [u8; 4]) -> Vec<u8> {
    message(id, 0x8180, questions, owner, marker)
}

/// As `response` with an arbitrary flags word (QR, opcode, TC, rcode, ...).
pub fn message(id: u16, flags: u16, questions: &[Q], owner: &Labels, marker: [u8; 4]) -> Vec<u8> {
    let mut b = Vec::with_capacity(96);
    b.extend_from_slice(&id.to_be_bytes());
    b.extend_from_slice(&flags.to_be_bytes());
    b.extend_from_slice(&(questions.len() as u16).to_be_bytes());
    b.extend_from_slice(&1u16.to_be_bytes());
    b.extend_from_slice(&[0, 0, 0, 0]);
    for q in questions {
        wire::emit_name(&q.name, &mut b);
        b.extend_from_slice(&q.qtype.to_be_bytes());
        b.extend_from_slice(&q.qclass.to_be_bytes());
    }
    wire::emit_name(owner, &mut b);
    b.extend_from_slice(&1u16.to_be_bytes()); // A
    b.extend_from_slice(&1u16.to_be_bytes()); // IN
    b.extend_from_slice(&60u32.to_be_bytes());
    b.extend_from_slice(&4u16.to_be_bytes());
    b.extend_from_slice(&marker);
    b
}

/// The questions of a transmitted request, read with the independent walker.
pub fn request_view(req: &[u8]) -> Option<(u16, Vec<Q>)> {
    let w = wire::walk(req).ok()?;
    Some((
        w.header.id,
        w.questions.iter().map(|q| Q { name: q.name.clone(), qtype: q.qtype, qclass: q.qclass }).collect(),
    ))
}

/// Flip the case of exactly one ASCII letter (the first one found) of a name.
pub fn flip_one_letter(name: &Labels) -> Labels {
    flip_nth_letter(name, 0)
}

/// Flip the case of the n-th ASCII letter of a name (n counted from 0; the last letter if the
/// name has fewer).
pub fn flip_nth_letter(name: &Labels, n: usize) -> Labels {
    let mut out = name.clone();
    let letters = out.iter().flat_map(|l| l.iter()).filter(|c| c.is_ascii_alphabetic()).count();
    if letters == 0 {
        return out;
    }
    let target = n.min(letters - 1);
    let mut seen = 0;
    'outer: for l in out.iter_mut() {
        for c in l.iter_mut() {
            if c.is_ascii_alphabetic() {
                if seen == target {
                    *c ^= 0x20;
                    break 'outer;
                }
                seen += 1;
            }
        }
    }
    out
}

#[derive(Clone, Copy, Debug, PartialEq, Eq)]
pub enum SrcClass {
    /// exactly the queried ip:port
    Right,
    /// the IPv4-mapped IPv6 form of the queried IPv4 address (or vice versa), right port
    MappedRight,
    WrongIp,
    WrongPort,
}

pub fn classify_src(src: SocketAddr, queried: SocketAddr) -> SrcClass {
    if src.ip() == queried.ip() {
        return if src.port() == queried.port() { SrcClass::Right } else { SrcClass::WrongPort };
    }
    let same_host = match (src.ip(), queried.ip()) {
        (IpAddr::V6(a), IpAddr::V4(b)) => a.to_ipv4_mapped() == Some(b),
        (IpAddr::V4(a), IpAddr::V6(b)) => b.to_ipv4_mapped() == Some(a),
        _ => false,
    };
    if same_host {
        if src.port() == queried.port() { SrcClass::MappedRight } else { SrcClass::WrongPort }
    } else {
        SrcClass::WrongIp
    }
}

/// The clauses of the statement's acceptance predicate, evaluated on raw bytes.
#[derive(Clone, Debug)]
pub struct Verdict {
    pub src: SrcClass,
    pub decodable: bool,
    pub is_response: bool,
    pub id_ok: bool,
    /// every question of the datagram was asked (names compared case-insensitively)
    pub q_subset: bool,
    /// every question of the datagram was asked with byte-identical letter case
    pub case_exact: bool,
    /// the request was TSIG-signed by the transport: does the datagram verify against the
    /// reference (RFC 8945, chained to the request's MAC)? None = request was not signed
    pub tsig_ok: Option<bool>,
}

impl Verdict {
    /// "came from the queried address and port, carries the query's ID, names only questions
    /// that were asked (identical case when randomisation is on)".
    pub fn matches(&self, case_randomisation: bool) -> bool {
        matches!(self.src, SrcClass::Right | SrcClass::MappedRight)
            && self.decodable
            && self.id_ok
            && self.q_subset
            && (!case_randomisation || self.case_exact)
            && self.tsig_ok != Some(false)
    }
    /// Name of the first clause that fails (for keys).
    pub fn first_failing(&self, case_randomisation: bool) -> &'static str {
        match self.src {
            SrcClass::WrongIp => return "wrong-source-ip",
            SrcClass::WrongPort => return "wrong-source-port",
            _ => {}
        }
        if !self.decodable {
            "undecodable"
        } else if !self.id_ok {
            "wrong-id"
        } else if !self.q_subset {
            "foreign-question"
        } else if case_randomisation && !self.case_exact {
            "case-mismatch"
        } else if self.tsig_ok == Some(false) {
            "bad-tsig"
        } else {
            "none"
        }
    }
}

pub fn judge_datagram(bytes: &[u8], src: SocketAddr, queried: SocketAddr, request: &[u8]) -> Verdict {
    let srcc = classify_src(src, queried);
    let (rid, asked) = request_view(request).unwrap_or((0, vec![]));
    match wire::walk(bytes) {
        Err(_) => Verdict { src: srcc, decodable: false, is_response: false, id_ok: false, q_subset: false, case_exact: false, tsig_ok: None },
        Ok(w) => {
            let mut subset = true;
            let mut exact = true;
            for q in &w.questions {
                let ci = asked
                    .iter()
                    .any(|a| wire::lower(&a.name) == wire::lower(&q.name) && a.qtype == q.qtype && a.qclass == q.qclass);
                let cs = asked.iter().any(|a| a.name == q.name && a.qtype == q.qtype && a.qclass == q.qclass);
                subset &= ci;
                exact &= cs;
            }
            Verdict {
                src: srcc,
                decodable: true,
                is_response: w.header.qr(),
                id_ok: w.header.id == rid,
                q_subset: subset,
                case_exact: exact,
                tsig_ok: None,
            }
        }
    }
}

/// The 4-byte marker of a scripted response (rdata of its first answer), if it has one.
pub fn marker_of(bytes: &[u8]) -> Option<[u8; 4]> {
    let w = wire::walk(bytes).ok()?;
    let a = w.answers.first()?;
    if a.rdata_end - a.rdata_start != 4 {
        return None;
    }
    let mut m = [0u8; 4];
    m.copy_from_slice(&bytes[a.rdata_start..a.rdata_end]);
    Some(m)
}
