//! C16 — only the queried server's matching reply completes a query.
//!
//! (a) UDP: the real `UdpClientStream::send_message` over a scripted `DnsUdpSocket` under the
//!     paused tokio clock; exhaustive enumeration of arrival schedules (`udp.rs`).
//! (b) stream: the real `DnsMultiplexer` over a scripted `DnsClientStream`, polled by hand, all
//!     event interleavings by breadth-first search with state matching (`mux.rs`).
//!
//! (c) exchange: `DnsExchange` + `DnsExchangeBackground` on top of that multiplexer (`ex.rs`).
//!
//! Both oracles are written from the statement in /verif/properties.jsonl and read raw bytes
//! with the independent walker `vref::wire`; scripted messages are assembled by hand
//! (`wirekit.rs`), never by hickory's encoder.

mod ex;
mod mux;
mod udp;
mod wirekit;

use vcore::Ctx;

fn main() {
    // a stack overflow / abort in the code under test must become a verdict, not a dead check
    vcore::supervise("C16");
    vcore::install_log_evaluation(); // logging is part of the environment: log arguments are evaluated as under a real subscriber
    let ctx = Ctx::from_args("C16", "model_checking");

    if let Some((_key, case)) = ctx.replay_case() {
        match case["part"].as_str() {
            Some("udp") => {
                let Some(c) = udp::Case::from_json(&case) else { vcore::machinery_exit("bad udp replay case") };
                let mut rt = vsim::rt();
                ctx.with_local(|l| udp::run_case(&ctx, &c, &mut rt, l, None, true));
            }
            Some("mux") => {
                let Some((cfg, hist)) = mux::case_from_json(&case) else { vcore::machinery_exit("bad mux replay case") };
                ctx.with_local(|l| {
                    l.eval();
                    match mux::replay(cfg, &hist, Some(l)) {
                        Err((_, f)) if f.key == mux::NOT_ENABLED => {
                            eprintln!("[C16] replay: {} - the recorded history is not executable on this tree, nothing to judge", f.what)
                        }
                        Err((step, f)) => mux::report(&ctx, l, cfg, &hist, step, f),
                        Ok(_) => {}
                    }
                });
            }
            Some("exchange") => {
                let Some((cfg, hist)) = ex::case_from_json(&case) else { vcore::machinery_exit("bad exchange replay case") };
                ctx.with_local(|l| {
                    l.eval();
                    match ex::replay(cfg, &hist, Some(l)) {
                        Err((_, f)) if f.key == ex::NOT_ENABLED => {
                            eprintln!("[C16] replay: {} - the recorded history is not executable on this tree, nothing to judge", f.what)
                        }
                        Err((step, f)) => ex::report(&ctx, l, cfg, &hist, step, f),
                        Ok(_) => {}
                    }
                });
            }
            _ if mux::replay_other(&ctx, &case) => {}
            _ => vcore::machinery_exit("replay case has no 'part'"),
        }
        ctx.finish(false);
    }

    ctx.set_rule(
        "(a) UDP, real UdpClientStream over a scripted socket, virtual time: EVERY schedule = sequence over \
         {16 datagram kinds: genuine, wrong ip, wrong port, v4-mapped form of the right address, id^1, id^0x8000, other name, \
         other type, extra second question, one letter case-flipped, 7 garbage bytes from the right source, reply truncated \
         after 14 bytes from the right source, garbage from a wrong source, recv error, empty question section, QR=0 echo of \
         the query} u {wait for the next retransmission}; silence until retry / until the 5 s timeout = end of an epoch / of \
         the sequence. Every datagram is addressed to the socket of the newest transmission or, as a late reply, to one of the \
         two previous sockets (3 x 16 + 1 = 49 symbols). ALL sequences of length <= 4 (thorough 5) over the 49 symbols (run as \
         family 'latest-socket' = newest socket only, plus family 'any-socket' = the rest); every sequence in which a late reply \
         directly follows a wait is additionally run with that datagram arriving in the very instant of the retry timer \
         (tie family, both select! outcomes accepted). All x case randomisation on/off; genuine present/absent arises from the \
         alphabet. Datagrams are built from the transmitted bytes (id, 0x20 case). Monitor: Ok(bytes) only for a scripted datagram \
         from the queried ip:port with the transmitted id whose questions were all asked (byte-identical case under \
         randomisation), which was among the first 3 datagrams of its socket; <= 3 datagrams received per socket; a consumed \
         genuine reply among the first 3 completes the query with exactly its bytes; a non-matching datagram that is not the \
         third must not end the query (case mismatch under randomisation, recv errors and QR=0 echoes may end it: not judged); \
         no panic. (b) stream, real DnsMultiplexer over a scripted DnsClientStream with hand-fired timeout futures, manual polls: \
         BFS with state matching over events send / deliver(response with the id of request i, live or already removed) / \
         byte-identical duplicate / unknown id / undecodable (3 bytes; header with a live id + cut question) / drop receiver i / \
         timer i fires / stream error / stream end / shutdown / poll, k <= 3 requests, depth 9 (thorough 11), \
         max_active_requests in {32, 2, 1}, at most qmax = 3 (thorough up to 5) unread inbound messages. Reference routing table keyed by the ids seen \
         on the wire: each response read while a request with its id is pending appears exactly once, in order, on that \
         request's receiver and nowhere else; ids of pending requests pairwise distinct; unknown/undecodable/late messages \
         change nothing; after stream error/end every pending request's receiver yields an error and no request stays pending \
         on a closed connection; a request is refused with Busy only while max_active_requests requests are pending \
         (timed-out, cancelled and failed ones are removed); no panic. WAKE-DRIVEN families (same multiplexer, the scripted stream keeps the waker of its last Pending answer \
         and wakes it when the next inbound item becomes available, timers likewise, the multiplexer's waker only records): \
         (b2) the same BFS (k <= 2 depth 10; thorough k <= 3 depth 12) in which poll is enabled ONLY while a wake-up is pending \
         (initially, after a recorded wake-up, after send_message); (b3) burst family: send, settle, then n in {98..101, 150, \
         199..201, 248 (thorough 15 sizes)} unknown-id / undecodable messages made available at once, followed by a response, \
         a stream error or a stream end (and optionally one more response after everything went quiet), driven by a \
         wake-driven executor. Clauses: poll_next returned Pending while an inbound item is available, no read waker is \
         registered and no self-wake was recorded => stream-lost-wakeup:<what was read last>; a response for a pending \
         request (or the close) is available while no poll is due and nobody is registered => \
         stream-response-not-delivered:wake-driven / stream-closed-connection-request-not-failed:wake-driven. Extra wake-ups \
         and self-wakes are always allowed; in these families the reference follows what was actually read. EXTENSIONS. (a) 23 datagram kinds (added: other class, parent of the asked name, IPv4-compatible ::a.b.c.d source, \
         reply with an extra 700-byte record; two-question requests: only the last question, questions reversed, name of the \
         first with type of the second) and 8 client configurations that each vary one dimension (IPv6 server with same \
         address/other scope id as 'other spelling'; server given as v4-mapped address answered from plain IPv4; two questions \
         sent in mixed case by DnsRequest::new; 512-byte receive buffer - the socket cuts longer datagrams, the cut bytes are \
         what is judged; max_retries 1 and 5; retry interval 100/500 ms via floor and request option; 700 ms timeout): default \
         configuration all schedules of length <= 4 (thorough 5) over 61 symbols, every other one length <= 3 (thorough 4), \
         enumerated depth-first over well-formed prefixes; plus composed question sections: 127 further kinds = a reply from \
         the right source with the right id whose question section is an ordered pair, or an ordered triple containing the \
         exact echo, over {exact echo, copy with the 1st letter's case flipped, copy with the 2nd letter's case flipped, other \
         name, other type, other class}, default and two-question configuration, randomisation on/off: every schedule of \
         length <= 2 with at least one of them and (thorough) of length 3 with exactly one, over all kinds + wait; the \
         predicate stays literal - under randomisation a case-flipped copy is not an asked question (never Ok; ending the \
         query with the case error is not judged), with randomisation off case-insensitive repeats are admissible and not \
         judged (tie placements for schedules of length <= 4). (b) messages with a pending id and TC / SERVFAIL / NOTIFY / UPDATE \
         opcode / a foreign question must reach the request like any response (routing is by id), a QR=0 message with a \
         pending id may be dropped or delivered but reaches nobody else. (c) DnsExchange + DnsExchangeBackground over the \
         same multiplexer and scripted stream: events request (through the handle) / drop handle / drop response stream i / \
         deliver / unknown id / undecodable / stream error / stream end / timer i / poll-background, classic and wake-driven \
         (the request channel, the stream and the timers wake the background future; it is dropped when it completes): \
         same routing reference; once the connection is closed or the background future is gone no submitted request - \
         including those still waiting in the exchange's channel - stays pending; wake-driven: a submitted request, an \
         available response or the close are never left behind without a pending wake-up. AUDIT ROUND. (a) 16 further client configurations over short schedules (length <= 2, thorough 3, 61 symbols): \
         max_retries 0, with_timeout(None), use_edns off (512-byte buffer), EDNS payload 65535 (buffer capped at 4096), fixed \
         local port, explicit port 0, avoid_local_ports = all ports, os_port_selection, signer present but unused, signer \
         used (IXFR query: the transport signs, EVERY scripted reply is signed by the reference vref::tsig chained to the \
         request MAC, plus replies with missing / bit-flipped / wrong-secret / unchained TSIG: never Ok), bind_udp failing \
         (in use once / 12 times / denied / other), send_to short / failing; further layouts of the genuine reply in the \
         short-schedule family (TC, NOTIFY opcode, SERVFAIL, compressed answer owner, trailing octets, 4,200-byte reply, \
         second question compressed); second step: the judged request issued on a client object that already served a \
         request (completed / timed out / cancelled / still in flight) from the same fixed port with the same or another \
         caller-chosen id and question, the late genuine reply to the FIRST request being a datagram kind (a reply that \
         matches id, question and source of the judged request is indistinguishable and admissible). (b) shutdown() is an \
         event of both BFS families; max_active_requests 0; id-space saturation: 65,536 (and 65,535) requests in flight so \
         that every draw of the id generator collides, 20 further sends refused, half of them cancelled / timed out, refill \
         (every new id is a just-released one), late replies to released ids reach the CURRENT holder only, close fails all; \
         multiplexer with a signer: 2 signed requests x all sequences of <= 3 (thorough 4) messages over {signed, bad MAC, \
         unsigned, signed for the other request} x id: only reference-valid messages arrive as Ok, one item per message, \
         nothing on the other receiver. (c) outbound handle with a 0-message buffer (a second request forwarded in one poll \
         is lost at the handle and fails), max_active 0. states/transitions/traces_validated_against_impl are sums over both parts: \
         (b) BFS states and transitions (every transition = one replay of the history on a fresh real multiplexer compared \
         with the reference) + (a) schedules consumed to their end (distinct environment histories reached) / datagrams consumed \
         / schedules executed. Non-trivial = (a) schedules in which a non-matching datagram was consumed before the genuine \
         one, (b) states with >= 2 requests in flight.",
    );
    ctx.assume("vref::wire walker (RFC 1035 4.1) decides 'decodable', id and question section of every datagram; scripted messages are hand-assembled");
    ctx.assume("tokio paused clock: timers fire at their exact virtual deadline; the check verifies that transmissions happen at 0, 333, 666 ms");
    ctx.assume("a v4-mapped source of the queried IPv4 address, an empty question section and (randomisation off) another letter case satisfy the stated predicate: accepting or skipping them is not judged");
    ctx.assume("canonical-key argument (b): requests are sent in index order, keys use indices instead of ids; a run in which a new request draws the id of an earlier, no longer pending one is re-executed");

    // one sample history of part (b) up front (part (a) fills the remaining sample slots)
    ctx.with_local(|l| {
        use mux::Ev::*;
        let (cfgs, _) = mux::configs(!ctx.quick());
        l.sample(mux::case_json(&cfgs[0], &[Send, Send, Deliver(1), Unknown, Timer(0), Poll, Deliver(0), StreamEnd, Poll]));
    });
    udp::run(&ctx);
    mux::run(&ctx);
    ex::run(&ctx);

    // vacuity guards
    for class in [
        "udp:ok",
        "udp:err:attempts-exceeded",
        "udp:timeout-none",
        "udp:transmissions=3",
        "mux:response-delivered",
        "mux:pending-failed-on-close",
        "mux:timed-out-request-ended",
        "mux:send-refused:busy",
        "mux:ref-drops-late-response",
        "mux:ref-drops-unknown-id",
        "mux:ref-drops-undecodable",
        "mux:wake-driven-poll",
        "mux:wd-pending-with-read-waker",
        "mux:burst-responses-received=1",
        "mux:deliver-odd:tc",
        "udp:cfg:server-v6:ok",
        "udp:cfg:two-questions:ok",
        "udp:cfg:receive-buffer-512:err:attempts-exceeded",
        "udp:transmissions=5",
        "udp:composed-question-section:rand-on:ok",
        "udp:cfg:tsig-ixfr:ok",
        "obs:udp-reply-failing-tsig-verification-ends-query",
        "udp:cfg:no-edns:ok",
        "udp:cfg:bind-in-use-12-times:err:other-error",
        "udp:cfg:send-short:err:other-error",
        "udp:local-ports:avoid-all-ports:zero",
        "udp:local-ports:bind-fixed-port:the-fixed-port",
        "udp:second-step:first-timed-out:timeout:then:ok",
        "udp:second-step:first-in-flight:in-flight:then:ok",
        "mux:saturation:65536-ids-in-flight",
        "mux:saturation:send-refused-when-full",
        "mux:saturation:late-reply-reaches-new-holder-of-the-id",
        "mux:saturation:all-pending-failed-on-close",
        "mux:tsig:valid-first-response-delivered",
        "mux:tsig:unverifiable-message-reported-as-error",
        "mux:shutdown-with-pending-requests",
        "ex:request-failed-at-the-outbound-handle",
        "udp:composed-question-section:rand-on:err:case-mismatch",
        "udp:composed-question-section:rand-off:ok",
        "ex:response-delivered",
        "ex:pending-failed-on-close",
        "ex:request-refused-busy",
        "ex:request-rejected-after-task-ended",
        "ex:task-ended-after-shutdown",
        "ex:wake-driven-poll",
    ] {
        if ctx.outcome_count(class) == 0 {
            ctx.machinery_failure(&format!("vacuous run: outcome class '{class}' was never exercised"));
        }
    }
    ctx.finish(true);
}
