//! C16 part (b): `DnsMultiplexer` over a scripted `DnsClientStream`, polled manually (no runtime;
//! the per-request timeout futures come from a hand-fired `Time` implementation).
//!
//! E-STATE: breadth-first search over event histories with state matching. Every transition is
//! executed on a fresh real multiplexer (history replayed from scratch) and compared with a
//! reference routing table keyed by the ids the multiplexer actually put on the wire.
//!
//! Two ways of driving the multiplexer are explored: the *classic* family polls it whenever the
//! schedule says so (poll is an always-enabled event); the *wake-driven* family polls it ONLY
//! when a wake-up has been recorded since its last poll (plus the initial poll and after each
//! `send_message`, as `DnsExchangeBackground` does). There the scripted stream keeps the waker it
//! was handed when it answered Pending and wakes it when the script makes the next inbound item
//! available; the hand-fired timers do the same. A multiplexer that returns Pending while input
//! is available, nobody is registered and it did not wake itself has lost a wake-up.

use std::cell::RefCell;
use std::collections::VecDeque;
use std::future::Future;
use std::io;
use std::net::SocketAddr;
use std::pin::Pin;
use std::sync::atomic::{AtomicUsize, Ordering};
use std::sync::{Arc, Mutex};
use std::task::{Context, Poll, Waker};
use std::time::Duration;

use futures_util::{Stream, StreamExt};
use hickory_net::runtime::Time;
use hickory_net::xfer::{DnsClientStream, DnsMultiplexer, DnsRequestSender, DnsResponseStream, StreamReceiver};
use hickory_net::{BufDnsStreamHandle, NetError};
use hickory_proto::op::{DnsRequest, DnsRequestOptions, Query, SerialMessage};
use hickory_proto::rr::{Name, RecordType};
use serde_json::{json, Value};
use vcore::{catch, fnv64, Ctx, Local};

use crate::wirekit::{self, labels, Q};

// ------------------------------------------------------------------------------------------
// hand-fired timers

#[derive(Default)]
struct TimerSlot {
    fired: bool,
    /// the waker of the task that polled the pending timer last
    waker: Option<Waker>,
}

thread_local! {
    static TIMERS: RefCell<Vec<TimerSlot>> = const { RefCell::new(Vec::new()) };
    /// further findings of the step that just failed (same step, other clause)
    static ALSO: RefCell<Vec<Finding>> = const { RefCell::new(Vec::new()) };
}

pub(crate) fn timers_reset() {
    TIMERS.with(|t| t.borrow_mut().clear());
}
pub(crate) fn timers_len() -> usize {
    TIMERS.with(|t| t.borrow().len())
}
pub(crate) fn timer_fire(i: usize) {
    let w = TIMERS.with(|t| {
        t.borrow_mut().get_mut(i).and_then(|s| {
            s.fired = true;
            s.waker.take()
        })
    });
    if let Some(w) = w {
        w.wake();
    }
}
pub(crate) fn timer_registered(i: usize) -> bool {
    TIMERS.with(|t| t.borrow().get(i).map(|s| s.waker.is_some()).unwrap_or(false))
}

struct ManualTimer(usize);

impl Future for ManualTimer {
    type Output = ();
    fn poll(self: Pin<&mut Self>, cx: &mut Context<'_>) -> Poll<()> {
        TIMERS.with(|t| {
            let mut t = t.borrow_mut();
            match t.get_mut(self.0) {
                Some(s) if s.fired => Poll::Ready(()),
                Some(s) => {
                    s.waker = Some(cx.waker().clone());
                    Poll::Pending
                }
                None => Poll::Pending,
            }
        })
    }
}

/// Waker that only counts: the harness polls the multiplexer itself and looks at the count.
#[derive(Default)]
pub(crate) struct WakeRec {
    pub(crate) n: AtomicUsize,
}

impl std::task::Wake for WakeRec {
    fn wake(self: Arc<Self>) {
        self.n.fetch_add(1, Ordering::SeqCst);
    }
    fn wake_by_ref(self: &Arc<Self>) {
        self.n.fetch_add(1, Ordering::SeqCst);
    }
}

/// `Time` whose delays complete when the harness says so ("timer i fires" is an event of the
/// exploration). The timer is registered when `delay_for` is *called* (i.e. inside
/// `send_message`), so timer n belongs to the n-th accepted request.
#[derive(Clone, Copy, Debug)]
pub struct ManualTime;

#[async_trait::async_trait]
impl Time for ManualTime {
    fn delay_for<'async_trait>(_d: Duration) -> Pin<Box<dyn Future<Output = ()> + Send + 'async_trait>> {
        let idx = TIMERS.with(|t| {
            let mut t = t.borrow_mut();
            t.push(TimerSlot::default());
            t.len() - 1
        });
        Box::pin(ManualTimer(idx))
    }
    async fn timeout<F: 'static + Future + Send>(_d: Duration, f: F) -> Result<F::Output, io::Error> {
        Ok(f.await)
    }
    fn current_time() -> u64 {
        1_700_000_000
    }
}

// ------------------------------------------------------------------------------------------
// scripted stream

pub(crate) enum Inb {
    Bytes(Vec<u8>),
    /// a well-formed response whose id is chosen when the multiplexer reads it: an id that no
    /// request of this run has ever carried
    Unknown { marker: [u8; 4] },
    Error,
    End,
}

#[derive(Default)]
pub(crate) struct StreamShared {
    pub(crate) q: VecDeque<Inb>,
    pub(crate) ids: Vec<u16>,
    pub(crate) ended: bool,
    /// the waker handed over with the last poll that was answered Pending; consumed by the
    /// wake-up the next inbound item causes
    pub(crate) registered: Option<Waker>,
    /// items handed to the multiplexer so far
    pub(crate) popped: usize,
}

pub(crate) struct SimStream {
    pub(crate) sh: Arc<Mutex<StreamShared>>,
    pub(crate) addr: SocketAddr,
}

fn unknown_question() -> Q {
    Q { name: labels("u.example"), qtype: 1, qclass: 1 }
}

impl Stream for SimStream {
    type Item = Result<SerialMessage, NetError>;
    fn poll_next(self: Pin<&mut Self>, cx: &mut Context<'_>) -> Poll<Option<Self::Item>> {
        let mut g = self.sh.lock().unwrap();
        if g.ended {
            return Poll::Ready(None);
        }
        let item = g.q.pop_front();
        if item.is_some() {
            g.popped += 1;
        }
        match item {
            None => {
                g.registered = Some(cx.waker().clone());
                Poll::Pending
            }
            Some(Inb::Bytes(b)) => Poll::Ready(Some(Ok(SerialMessage::new(b, self.addr)))),
            Some(Inb::Unknown { marker }) => {
                let mut id = 0x4242u16;
                while g.ids.contains(&id) {
                    id = id.wrapping_add(1);
                }
                let q = unknown_question();
                let b = wirekit::response(id, &[q.clone()], &q.name, marker);
                Poll::Ready(Some(Ok(SerialMessage::new(b, self.addr))))
            }
            Some(Inb::Error) => Poll::Ready(Some(Err(NetError::from("scripted stream error")))),
            Some(Inb::End) => {
                g.ended = true;
                Poll::Ready(None)
            }
        }
    }
}

impl DnsClientStream for SimStream {
    type Time = ManualTime;
    fn name_server_addr(&self) -> SocketAddr {
        self.addr
    }
}

// ------------------------------------------------------------------------------------------
// events, configuration

#[derive(Clone, Copy, Debug, PartialEq, Eq, Hash)]
pub enum Ev {
    Send,
    Deliver(u8),
    /// a message carrying the id of request i that is unusual in one respect (see `ODD`)
    DeliverOdd(u8, u8),
    Dup,
    Unknown,
    GarbageShort,
    GarbageHdr,
    Cancel(u8),
    Timer(u8),
    StreamError,
    StreamEnd,
    /// the owner calls DnsRequestSender::shutdown(): no new requests, pending ones are served
    Shutdown,
    Poll,
}

impl Ev {
    pub fn name(self) -> String {
        match self {
            Ev::Send => "send".into(),
            Ev::Deliver(i) => format!("deliver:{i}"),
            Ev::DeliverOdd(i, f) => format!("deliver-{}:{i}", ODD[f as usize].0),
            Ev::Dup => "duplicate".into(),
            Ev::Unknown => "unknown-id".into(),
            Ev::GarbageShort => "undecodable-short".into(),
            Ev::GarbageHdr => "undecodable-with-live-id".into(),
            Ev::Cancel(i) => format!("cancel:{i}"),
            Ev::Timer(i) => format!("timer:{i}"),
            Ev::StreamError => "stream-error".into(),
            Ev::StreamEnd => "stream-end".into(),
            Ev::Shutdown => "shutdown".into(),
            Ev::Poll => "poll".into(),
        }
    }
    pub fn from_name(s: &str) -> Option<Ev> {
        let (a, b) = match s.split_once(':') {
            Some((a, b)) => (a, b.parse::<u8>().ok()),
            None => (s, None),
        };
        Some(match (a, b) {
            ("send", None) => Ev::Send,
            ("deliver", Some(i)) => Ev::Deliver(i),
            (x, Some(i)) if x.starts_with("deliver-") && ODD.iter().any(|o| o.0 == &x[8..]) => {
                Ev::DeliverOdd(i, ODD.iter().position(|o| o.0 == &x[8..]).unwrap() as u8)
            }
            ("duplicate", None) => Ev::Dup,
            ("unknown-id", None) => Ev::Unknown,
            ("undecodable-short", None) => Ev::GarbageShort,
            ("undecodable-with-live-id", None) => Ev::GarbageHdr,
            ("cancel", Some(i)) => Ev::Cancel(i),
            ("timer", Some(i)) => Ev::Timer(i),
            ("stream-error", None) => Ev::StreamError,
            ("stream-end", None) => Ev::StreamEnd,
            ("shutdown", None) => Ev::Shutdown,
            ("poll", None) => Ev::Poll,
            _ => return None,
        })
    }
}

/// Unusual messages carrying a pending request's id: (name, flags word, foreign question?).
/// The statement routes by id alone, so the first five must reach the request like any other
/// response; a QR=0 message is not a response - delivering or dropping it is not judged, but it
/// must not reach anybody else.
pub const ODD: [(&str, u16, bool); 6] = [
    ("tc", 0x8380, false),
    ("servfail", 0x8182, false),
    ("notify-opcode", 0xa180, false),
    ("update-opcode", 0xa980, false),
    ("other-question", 0x8180, true),
    ("qr0", 0x0100, false),
];
const ODD_QR0: u8 = 5;

#[derive(Clone, Copy, Debug, PartialEq, Eq, Hash)]
pub struct Cfg {
    /// number of send attempts
    pub k: u8,
    pub max_active: u8,
    /// bound on not-yet-read inbound messages
    pub qmax: u8,
    /// wake-driven family: the multiplexer is polled only when a wake-up is pending
    pub wd: bool,
    /// unusual messages with a pending id (TC, rcode, other opcodes, foreign question, QR=0) are
    /// part of the alphabet
    pub odd: bool,
}

#[derive(Clone, Debug)]
pub struct Node {
    pub cfg: Cfg,
    pub hist: Vec<Ev>,
}

pub fn case_json(cfg: &Cfg, hist: &[Ev]) -> Value {
    json!({"part": "mux", "k": cfg.k, "max_active": cfg.max_active, "qmax": cfg.qmax, "wake_driven": cfg.wd, "odd": cfg.odd,
           "events": hist.iter().map(|e| e.name()).collect::<Vec<_>>()})
}

pub fn case_from_json(v: &Value) -> Option<(Cfg, Vec<Ev>)> {
    let cfg = Cfg { k: v["k"].as_u64()? as u8, max_active: v["max_active"].as_u64()? as u8, qmax: v["qmax"].as_u64()? as u8, wd: v["wake_driven"].as_bool().unwrap_or(false), odd: v["odd"].as_bool().unwrap_or(false) };
    let mut h = vec![];
    for e in v["events"].as_array()? {
        h.push(Ev::from_name(e.as_str()?)?);
    }
    Some((cfg, h))
}

// ------------------------------------------------------------------------------------------
// system under test + reference routing table

#[derive(Clone, Copy, Debug, PartialEq, Eq)]
enum RState {
    /// in the reference routing table
    Live,
    TimedOut,
    Cancelled,
    /// failed because the connection closed
    Failed,
    /// send_message did not put anything on the wire (Busy, ...)
    Refused,
}

struct Req {
    accepted: bool,
    id: u16,
    rx: Option<DnsResponseStream>,
    timer: Option<usize>,
    state: RState,
    /// receiver dropped by the caller (takes effect in the reference at the next poll)
    cancelled: bool,
    /// timeout future completed (takes effect at the next poll)
    fired: bool,
    /// the receiver yielded an error or ended
    terminated: bool,
    got: u32,
}

#[derive(Clone, Debug)]
#[allow(dead_code)]
enum MItem {
    Resp { id: u16, marker: [u8; 4], target: u8, bytes: Vec<u8>, optional: bool, flavour: u8 },
    Unknown { marker: [u8; 4] },
    Garbage(u8),
    Error,
    End,
}

pub struct Finding {
    pub key: String,
    pub what: String,
}

enum StepErr {
    /// a fresh request drew the id of an earlier, no longer pending request of the same run
    /// (legal, probability 2^-16): re-run the history so that keys by request index stay exact
    Restart,
    Finding(Finding),
}

pub struct Sys {
    cfg: Cfg,
    mux: DnsMultiplexer<SimStream>,
    sh: Arc<Mutex<StreamShared>>,
    outbound: StreamReceiver,
    reqs: Vec<Req>,
    mq: VecDeque<MItem>,
    /// marker -> the request it was addressed to (None = unknown id), for scenes in keys
    log: Vec<([u8; 4], Option<usize>)>,
    closed: bool,
    err_used: bool,
    end_used: bool,
    seq: u8,
    /// records the wake-ups the multiplexer's task receives
    wake: Arc<WakeRec>,
    /// wake-driven family: a poll is due (initially, after a wake-up, after send_message)
    due: bool,
    /// what the last poll read last (scene of the wake-driven keys)
    last_scene: &'static str,
}

pub(crate) fn addr() -> SocketAddr {
    "192.0.2.53:53".parse().unwrap()
}

pub(crate) fn req_question(i: usize) -> Q {
    Q { name: labels(&format!("r{i}.example")), qtype: 1, qclass: 1 }
}

impl Sys {
    pub fn new(cfg: Cfg) -> Sys {
        timers_reset();
        let sh = Arc::new(Mutex::new(StreamShared::default()));
        let (handle, outbound) = BufDnsStreamHandle::new(addr());
        let stream = SimStream { sh: sh.clone(), addr: addr() };
        let mux = DnsMultiplexer::new(stream, handle).with_max_active_requests(cfg.max_active as usize);
        Sys {
            cfg,
            mux,
            sh,
            outbound,
            reqs: vec![],
            mq: VecDeque::new(),
            log: vec![],
            closed: false,
            err_used: false,
            end_used: false,
            seq: 0,
            wake: Arc::new(WakeRec::default()),
            due: true,
            last_scene: "never-polled",
        }
    }

    fn live(&self, i: usize) -> bool {
        self.reqs[i].accepted && self.reqs[i].state == RState::Live
    }

    pub fn enabled(&self) -> Vec<Ev> {
        let mut v = vec![];
        let n = self.reqs.len();
        let any_live = (0..n).any(|i| self.live(i));
        let can_send = n < self.cfg.k as usize && !self.mux.is_shutdown();
        if self.closed && !any_live {
            // the connection is closed and every request is settled: the state can only change
            // if the implementation still takes requests
            if can_send {
                v.push(Ev::Send);
            }
            if !self.cfg.wd || self.due {
                v.push(Ev::Poll);
            }
            return v;
        }
        if can_send {
            v.push(Ev::Send);
        }
        if self.mq.len() < self.cfg.qmax as usize {
            for i in 0..n {
                if self.reqs[i].accepted {
                    v.push(Ev::Deliver(i as u8));
                }
            }
            if self.cfg.odd {
                for i in 0..n {
                    if self.live(i) {
                        for f in 0..ODD.len() {
                            v.push(Ev::DeliverOdd(i as u8, f as u8));
                        }
                    }
                }
            }
            if matches!(self.mq.back(), Some(MItem::Resp { .. })) {
                v.push(Ev::Dup);
            }
            v.push(Ev::Unknown);
            v.push(Ev::GarbageShort);
            v.push(Ev::GarbageHdr);
            if !self.err_used {
                v.push(Ev::StreamError);
            }
            if !self.end_used {
                v.push(Ev::StreamEnd);
            }
        }
        if !self.mux.is_shutdown() {
            v.push(Ev::Shutdown);
        }
        for i in 0..n {
            if self.live(i) && !self.reqs[i].cancelled {
                v.push(Ev::Cancel(i as u8));
            }
        }
        for i in 0..n {
            if self.live(i) && !self.reqs[i].fired && self.reqs[i].timer.is_some() {
                v.push(Ev::Timer(i as u8));
            }
        }
        if !self.cfg.wd || self.due {
            v.push(Ev::Poll);
        }
        v
    }

    /// Canonical key: requests by index (ids never appear), flags, unread inbound kinds.
    pub fn key(&self) -> Vec<u8> {
        let mut k = vec![self.cfg.k, self.cfg.max_active, self.cfg.qmax];
        if self.cfg.wd {
            // who would be woken by what: part of the state in the wake-driven family
            let reg = self.sh.lock().unwrap().registered.is_some();
            let mut b = 0x80 | self.due as u8 | (reg as u8) << 1;
            for (i, r) in self.reqs.iter().enumerate() {
                if r.timer.map(timer_registered).unwrap_or(false) {
                    b |= 1 << (2 + i.min(4));
                }
            }
            k.push(b);
        }
        k.push(self.closed as u8 | (self.err_used as u8) << 1 | (self.end_used as u8) << 2 | (self.mux.is_shutdown() as u8) << 3);
        for r in &self.reqs {
            let s = match r.state {
                RState::Live => 1,
                RState::TimedOut => 2,
                RState::Cancelled => 3,
                RState::Failed => 4,
                RState::Refused => 5,
            };
            k.push(s | (r.cancelled as u8) << 3 | (r.fired as u8) << 4 | (r.terminated as u8) << 5);
        }
        k.push(0xff);
        let any_live = (0..self.reqs.len()).any(|i| self.live(i));
        if !(self.closed && !any_live) {
            for m in &self.mq {
                k.push(match m {
                    // unread messages of different flavours are different states: what the
                    // multiplexer does with them is only seen at a later poll
                    MItem::Resp { target, flavour: 0, .. } => 0x10 | *target,
                    MItem::Resp { target, flavour, .. } => 0x80 | (*flavour << 2) | (*target & 3),
                    MItem::Unknown { .. } => 0x20,
                    MItem::Garbage(v) => 0x30 | *v,
                    MItem::Error => 0x40,
                    MItem::End => 0x50,
                });
            }
        }
        k
    }

    pub fn live_count(&self) -> usize {
        (0..self.reqs.len()).filter(|i| self.live(*i)).count()
    }

    fn next_marker(&mut self, a: u8, b: u8) -> [u8; 4] {
        self.seq = self.seq.wrapping_add(1);
        [11, a, b, self.seq]
    }

    fn push_inbound(&mut self, inb: Inb, m: MItem) {
        let w = {
            let mut g = self.sh.lock().unwrap();
            g.q.push_back(inb);
            if g.ended {
                None
            } else {
                g.registered.take()
            }
        };
        self.mq.push_back(m);
        // the next inbound item wakes whoever was told "Pending" last
        if let Some(w) = w {
            w.wake();
        }
    }

    /// Input the reference would act upon is available, but no poll is due and nobody will be
    /// woken by it: a response for a pending request (or the close of the connection while a
    /// request is pending) that wake-driven polling alone never delivers.
    fn stuck_input(&self) -> Option<Finding> {
        if !self.cfg.wd || self.due || self.closed {
            return None;
        }
        {
            let g = self.sh.lock().unwrap();
            if g.ended || g.q.is_empty() || g.registered.is_some() {
                return None;
            }
        }
        let waiting = |i: usize| self.live(i) && !self.reqs[i].cancelled && !self.reqs[i].fired && self.reqs[i].rx.is_some() && !self.reqs[i].terminated;
        for m in &self.mq {
            match m {
                MItem::Resp { optional: true, .. } => {}
                MItem::Resp { id, .. } => {
                    if let Some(i) = (0..self.reqs.len()).find(|i| waiting(*i) && self.reqs[*i].id == *id) {
                        return Some(Finding {
                            key: format!("stream-response-not-delivered:wake-driven:{}", self.last_scene),
                            what: format!(
                                "a response for pending request {i} is available on the connection, but the multiplexer returned Pending from its last poll ({}) without a registered read waker and without waking itself: polled only when woken, it never delivers it",
                                self.last_scene
                            ),
                        });
                    }
                }
                MItem::Error | MItem::End => {
                    if let Some(i) = (0..self.reqs.len()).find(|i| waiting(*i)) {
                        return Some(Finding {
                            key: format!("stream-closed-connection-request-not-failed:wake-driven:{}", self.last_scene),
                            what: format!(
                                "the connection closed while request {i} is pending, but the multiplexer returned Pending from its last poll ({}) without a registered read waker: polled only when woken, it never fails the request",
                                self.last_scene
                            ),
                        });
                    }
                    break;
                }
                _ => {}
            }
        }
        None
    }

    fn apply(&mut self, ev: Ev, l: Option<&mut Local>) -> Result<(), StepErr> {
        ALSO.with(|a| a.borrow_mut().clear());
        let r = self.apply_inner(ev, l);
        if self.wake.n.swap(0, Ordering::SeqCst) > 0 {
            self.due = true;
        }
        if ev == Ev::Send {
            // send_message is called from the task that drives the multiplexer, which polls it
            // again afterwards (DnsExchangeBackground loops)
            self.due = true;
        }
        r?;
        if ev != Ev::Poll {
            if let Some(f) = self.stuck_input() {
                return Err(StepErr::Finding(f));
            }
        }
        Ok(())
    }

    fn apply_inner(&mut self, ev: Ev, mut l: Option<&mut Local>) -> Result<(), StepErr> {
        let mut cx = Context::from_waker(Waker::noop());
        match ev {
            Ev::Send => {
                let i = self.reqs.len();
                let req = DnsRequest::from_query(
                    Query::new(Name::from_ascii(format!("r{i}.example.")).unwrap(), RecordType::A),
                    DnsRequestOptions::default(),
                );
                let t_before = timers_len();
                let mux = &mut self.mux;
                let rs = match catch(|| mux.send_message(req)) {
                    Ok(rs) => rs,
                    Err(p) => {
                        return Err(StepErr::Finding(Finding {
                            key: format!("panic:{}", vcore::short_loc(&p.loc)),
                            what: format!("send_message panicked: {}", p.msg),
                        }))
                    }
                };
                let t_after = timers_len();
                let mut out = vec![];
                while let Poll::Ready(Some(m)) = self.outbound.poll_next_unpin(&mut cx) {
                    out.push(m);
                }
                let accepted = out.len() == 1;
                let mut id = 0u16;
                let mut rx = Some(rs);
                let mut terminated = false;
                if accepted {
                    id = vref::wire::read_header(out[0].bytes()).map(|h| h.id).unwrap_or(0);
                    for j in 0..i {
                        if self.reqs[j].accepted && self.reqs[j].id == id {
                            if self.live(j) {
                                return Err(StepErr::Finding(Finding {
                                    key: "stream-inflight-id-collision".into(),
                                    what: format!("request {i} was sent with id {id:#06x} while request {j} with the same id is in flight"),
                                }));
                            }
                            return Err(StepErr::Restart);
                        }
                    }
                    self.sh.lock().unwrap().ids.push(id);
                    if let Some(l) = l.as_deref_mut() {
                        l.outcome(if self.closed { "mux:send-accepted-after-close" } else { "mux:send-accepted" });
                    }
                } else {
                    // nothing on the wire: the returned stream is expected to say why
                    let first = rx.as_mut().unwrap().poll_next_unpin(&mut cx);
                    let class = match first {
                        Poll::Ready(Some(Err(NetError::Busy))) => "mux:send-refused:busy".to_string(),
                        Poll::Ready(Some(Err(_))) => "mux:send-refused:other-error".to_string(),
                        Poll::Ready(Some(Ok(_))) => "obs:mux-send-without-wire-message-yields-response".to_string(),
                        Poll::Ready(None) => "mux:send-refused:ended".to_string(),
                        Poll::Pending => format!("obs:mux-send-emitted-{}-messages-and-pends", out.len()),
                    };
                    if let Some(l) = l.as_deref_mut() {
                        l.outcome(&class);
                    }
                    // timed-out / cancelled / failed requests are removed: only requests the
                    // reference still routes to (incl. removals not yet seen by a poll) occupy slots
                    let occupying = (0..i).filter(|j| self.live(*j)).count();
                    if class == "mux:send-refused:busy" && occupying < self.cfg.max_active as usize {
                        // The statement does not speak about back-pressure: a multiplexer that
                        // frees the slot of a cancelled / timed-out request lazily still routes
                        // every response correctly. Logged as an observation, never judged
                        // (lead review: the builder's first version reported this as
                        // `stream-removed-request-still-occupies-slot`).
                        if let Some(l) = l.as_deref_mut() {
                            l.outcome("obs:mux-busy-although-a-removed-request-could-free-a-slot");
                        }
                    }
                    terminated = true;
                    rx = None;
                }
                self.reqs.push(Req {
                    accepted,
                    id,
                    rx,
                    timer: if t_after > t_before { Some(t_after - 1) } else { None },
                    state: if accepted { RState::Live } else { RState::Refused },
                    cancelled: false,
                    fired: false,
                    terminated,
                    got: 0,
                });
            }
            Ev::Deliver(i) => {
                let i = i as usize;
                let id = self.reqs[i].id;
                let marker = self.next_marker(i as u8, 0);
                let q = req_question(i);
                let bytes = wirekit::response(id, &[q.clone()], &q.name, marker);
                self.log.push((marker, Some(i)));
                if let Some(l) = l.as_deref_mut() {
                    l.outcome(if self.live(i) { "mux:deliver-for-live" } else { "mux:deliver-late" });
                }
                self.push_inbound(Inb::Bytes(bytes.clone()), MItem::Resp { id, marker, target: i as u8, bytes, optional: false, flavour: 0 });
            }
            Ev::DeliverOdd(i, f) => {
                let i = i as usize;
                let (_, flags, foreign_q) = ODD[f as usize];
                let id = self.reqs[i].id;
                let marker = self.next_marker(i as u8, 1 + f);
                let q = if foreign_q { Q { name: labels("zz.other"), qtype: 16, qclass: 3 } } else { req_question(i) };
                let bytes = wirekit::message(id, flags, &[q.clone()], &q.name, marker);
                self.log.push((marker, Some(i)));
                if let Some(l) = l.as_deref_mut() {
                    l.outcome(&format!("mux:deliver-odd:{}", ODD[f as usize].0));
                }
                self.push_inbound(Inb::Bytes(bytes.clone()), MItem::Resp { id, marker, target: i as u8, bytes, optional: f == ODD_QR0, flavour: 1 + f });
            }
            Ev::Dup => {
                if let Some(MItem::Resp { id, marker, target, bytes, optional, flavour }) = self.mq.back().cloned() {
                    self.push_inbound(Inb::Bytes(bytes.clone()), MItem::Resp { id, marker, target, bytes, optional, flavour });
                }
            }
            Ev::Unknown => {
                let marker = self.next_marker(0xee, 0);
                self.log.push((marker, None));
                self.push_inbound(Inb::Unknown { marker }, MItem::Unknown { marker });
            }
            Ev::GarbageShort => {
                self.push_inbound(Inb::Bytes(vec![0xff; 3]), MItem::Garbage(0));
            }
            Ev::GarbageHdr => {
                // a header carrying the id of the oldest in-flight request, claiming one question
                // that is cut off inside its first label
                let id = (0..self.reqs.len()).find(|i| self.live(*i)).map(|i| self.reqs[i].id).unwrap_or(0xffff);
                let mut b = id.to_be_bytes().to_vec();
                b.extend_from_slice(&[0x81, 0x80, 0, 1, 0, 0, 0, 0, 0, 0, 3, b'a']);
                self.push_inbound(Inb::Bytes(b), MItem::Garbage(1));
            }
            Ev::Cancel(i) => {
                let r = &mut self.reqs[i as usize];
                r.rx = None;
                r.cancelled = true;
            }
            Ev::Timer(i) => {
                let r = &mut self.reqs[i as usize];
                if let Some(t) = r.timer {
                    timer_fire(t);
                }
                r.fired = true;
            }
            Ev::StreamError => {
                self.err_used = true;
                self.push_inbound(Inb::Error, MItem::Error);
            }
            Ev::StreamEnd => {
                self.end_used = true;
                self.push_inbound(Inb::End, MItem::End);
            }
            Ev::Shutdown => {
                self.mux.shutdown();
                if let Some(l) = l.as_deref_mut() {
                    l.outcome(if self.live_count() > 0 { "mux:shutdown-with-pending-requests" } else { "mux:shutdown-idle" });
                }
            }
            Ev::Poll => return self.poll(l),
        }
        Ok(())
    }

    fn poll(&mut self, mut l: Option<&mut Local>) -> Result<(), StepErr> {
        let n = self.reqs.len();
        let mux_waker = Waker::from(self.wake.clone());
        let mut mux_cx = Context::from_waker(&mux_waker);
        let popped_before = self.sh.lock().unwrap().popped;
        self.wake.n.store(0, Ordering::SeqCst);
        self.due = false;
        let mux = &mut self.mux;
        let pr = match catch(|| mux.poll_next_unpin(&mut mux_cx)) {
            Ok(p) => p,
            Err(p) => {
                return Err(StepErr::Finding(Finding {
                    key: format!("panic:{}", vcore::short_loc(&p.loc)),
                    what: format!("poll_next panicked: {}", p.msg),
                }))
            }
        };
        if let Some(l) = l.as_deref_mut() {
            l.outcome(match &pr {
                Poll::Pending => "mux:poll:pending",
                Poll::Ready(None) => "mux:poll:ended",
                Poll::Ready(Some(Ok(()))) => "mux:poll:ready",
                Poll::Ready(Some(Err(_))) => "mux:poll:error",
            });
        }
        let mut cx = Context::from_waker(Waker::noop());
        let self_woken = self.wake.n.load(Ordering::SeqCst) > 0;
        let consumed = self.sh.lock().unwrap().popped - popped_before;
        if matches!(pr, Poll::Ready(Some(_))) {
            // a driver loops while the stream says "ready"
            self.due = true;
        }
        // classic family: the reference reads everything up to a close in one poll (the bound on
        // unread messages is far below the implementation's batch size); wake-driven family: it
        // follows what was actually read, the rest is the business of the lost-wake-up clauses
        let mut budget = if self.cfg.wd { consumed } else { usize::MAX };
        let mut last_kind: &'static str = "nothing-read";

        // ---- reference routing table
        let mut exp: Vec<Vec<[u8; 4]>> = vec![vec![]; n];
        let mut exp_err = vec![false; n];
        let mut strict = vec![false; n];
        let mut fired_now = vec![false; n];
        let mut offered: Vec<Vec<[u8; 4]>> = vec![vec![]; n]; // everything queued under the request's id
        let mut opt: Vec<[u8; 4]> = vec![]; // messages whose delivery is not judged (QR=0 with a pending id)
        if !self.closed {
            for i in 0..n {
                if self.live(i) {
                    if self.reqs[i].cancelled {
                        self.reqs[i].state = RState::Cancelled;
                    } else if self.reqs[i].fired {
                        self.reqs[i].state = RState::TimedOut;
                        fired_now[i] = true;
                    } else {
                        strict[i] = true;
                    }
                }
            }
            while budget > 0 {
                let Some(item) = self.mq.pop_front() else { break };
                budget -= 1;
                match item {
                    MItem::Resp { id, marker, optional, .. } => {
                        if optional {
                            opt.push(marker);
                        }
                        for i in 0..n {
                            if self.reqs[i].accepted && self.reqs[i].id == id {
                                offered[i].push(marker);
                            }
                        }
                        match (0..n).find(|i| self.live(*i) && self.reqs[*i].id == id) {
                            Some(i) => {
                                if !optional {
                                    exp[i].push(marker);
                                }
                                last_kind = "after-response";
                                if let Some(l) = l.as_deref_mut() {
                                    l.outcome("mux:ref-routes-response");
                                }
                            }
                            None => {
                                last_kind = "after-late-response";
                                if let Some(l) = l.as_deref_mut() {
                                    l.outcome("mux:ref-drops-late-response");
                                }
                            }
                        }
                    }
                    MItem::Unknown { .. } => {
                        last_kind = "after-unknown-id";
                        if let Some(l) = l.as_deref_mut() {
                            l.outcome("mux:ref-drops-unknown-id");
                        }
                    }
                    MItem::Garbage(_) => {
                        last_kind = "after-undecodable";
                        if let Some(l) = l.as_deref_mut() {
                            l.outcome("mux:ref-drops-undecodable");
                        }
                    }
                    MItem::Error | MItem::End => {
                        for i in 0..n {
                            if self.live(i) {
                                exp_err[i] = true;
                                self.reqs[i].state = RState::Failed;
                                if let Some(l) = l.as_deref_mut() {
                                    l.outcome("mux:ref-fails-pending-on-close");
                                }
                            }
                        }
                        self.closed = true;
                        break;
                    }
                }
            }
        }
        if self.cfg.wd {
            // keep the reference queue in step with the real one
            let real = self.sh.lock().unwrap().q.len();
            while self.mq.len() > real {
                self.mq.pop_front();
            }
        }
        self.last_scene = if consumed >= 100 { "after-100-messages-in-one-poll" } else { last_kind };

        // ---- observe every receiver the caller still holds
        for i in 0..n {
            if self.reqs[i].rx.is_none() || self.reqs[i].terminated {
                continue;
            }
            let mut got: Vec<(u16, Option<[u8; 4]>)> = vec![];
            let mut err: Option<String> = None;
            let mut ended = false;
            for _ in 0..64 {
                match self.reqs[i].rx.as_mut().unwrap().poll_next_unpin(&mut cx) {
                    Poll::Ready(Some(Ok(resp))) => {
                        let b = resp.as_buffer();
                        let id = vref::wire::read_header(b).map(|h| h.id).unwrap_or(0);
                        got.push((id, wirekit::marker_of(b)));
                    }
                    Poll::Ready(Some(Err(e))) => {
                        err = Some(e.to_string());
                    }
                    Poll::Ready(None) => {
                        ended = true;
                        break;
                    }
                    Poll::Pending => break,
                }
            }
            let my_id = self.reqs[i].id;
            // soundness: only responses carrying this request's id
            for (id, m) in &got {
                if *id != my_id {
                    // whose response was it (judged at the time the multiplexer read it)?
                    let scene = match m.and_then(|m| self.log.iter().find(|e| e.0 == m).map(|e| e.1)) {
                        None => "unscripted",
                        Some(None) => "unknown-id",
                        Some(Some(j)) if self.live(j) || exp_err[j] => "other-pending-request",
                        Some(Some(_)) => "late-response",
                    };
                    return Err(StepErr::Finding(Finding {
                        key: format!("stream-misrouted-response:{scene}"),
                        what: format!("request {i} (id {my_id:#06x}) received a response carrying id {id:#06x}"),
                    }));
                }
            }
            let markers: Vec<[u8; 4]> = got.iter().filter_map(|g| g.1).collect();
            if markers.len() != got.len() {
                return Err(StepErr::Finding(Finding {
                    key: "stream-unscripted-response".into(),
                    what: format!("request {i} received a response that no scripted message carried"),
                }));
            }
            if strict[i] {
                let judged: Vec<[u8; 4]> = markers.iter().copied().filter(|m| !opt.contains(m)).collect();
                if judged.len() != markers.len() {
                    if let Some(l) = l.as_deref_mut() {
                        l.outcome("obs:mux-qr0-message-with-pending-id-delivered");
                    }
                }
                let markers = judged;
                if markers != exp[i] {
                    // which kind of message got lost (marker byte 2 = flavour, 0 = plain response)
                    let lost = exp[i].iter().find(|m| !markers.contains(m)).map(|m| m[2]).unwrap_or(0);
                    let nd_key = if lost == 0 { "stream-response-not-delivered".to_string() } else { format!("stream-response-not-delivered:{}", ODD[(lost as usize - 1).min(ODD.len() - 1)].0) };
                    let (key, what) = if markers.len() < exp[i].len() {
                        (nd_key.as_str(), format!("request {i} is pending, {} response(s) with its id were read from the connection, {} reached it", exp[i].len(), markers.len()))
                    } else {
                        ("stream-unexpected-response", format!("request {i} received {} response(s), the connection carried {} for it", markers.len(), exp[i].len()))
                    };
                    return Err(StepErr::Finding(Finding { key: key.into(), what }));
                }
                if exp_err[i] && err.is_none() {
                    return Err(StepErr::Finding(Finding {
                        key: "stream-closed-connection-request-not-failed".into(),
                        what: format!("the connection closed while request {i} was pending, its receiver yielded no error (ended={ended})"),
                    }));
                }
                if !exp_err[i] && (err.is_some() || ended) {
                    return Err(StepErr::Finding(Finding {
                        key: "stream-pending-request-terminated".into(),
                        what: format!("request {i} is pending on an open connection but its receiver yielded {:?} / ended={ended}", err),
                    }));
                }
                if !markers.is_empty() {
                    if let Some(l) = l.as_deref_mut() {
                        l.outcome("mux:response-delivered");
                    }
                }
                if exp_err[i] {
                    if let Some(l) = l.as_deref_mut() {
                        l.outcome("mux:pending-failed-on-close");
                    }
                }
            } else if fired_now[i] {
                // the timeout fired before this poll: whether queued responses still reach the
                // caller is not fixed by the statement; they must at least be its own
                let mut pool = offered[i].clone();
                for m in &markers {
                    match pool.iter().position(|p| p == m) {
                        Some(p) => {
                            pool.remove(p);
                        }
                        None => {
                            return Err(StepErr::Finding(Finding {
                                key: "stream-unexpected-response".into(),
                                what: format!("timed-out request {i} received a response the connection did not carry for it"),
                            }))
                        }
                    }
                }
                if let Some(l) = l.as_deref_mut() {
                    l.outcome(if err.is_some() || ended { "mux:timed-out-request-ended" } else { "obs:mux-timed-out-request-still-pending" });
                }
            } else if !markers.is_empty() && !self.live(i) {
                return Err(StepErr::Finding(Finding {
                    key: "stream-response-after-removal".into(),
                    what: format!("request {i} is no longer pending but received {} response(s)", markers.len()),
                }));
            }
            self.reqs[i].got += markers.len() as u32;
            if err.is_some() || ended {
                self.reqs[i].terminated = true;
            }
        }

        // ---- a closed connection fails every pending request
        if self.closed {
            for i in 0..n {
                let r = &self.reqs[i];
                if r.accepted && r.rx.is_some() && !r.terminated {
                    return Err(StepErr::Finding(Finding {
                        key: "stream-closed-connection-keeps-request-pending".into(),
                        what: format!("the connection is closed (is_shutdown()={}) but request {i} is still pending after a poll", self.mux.is_shutdown()),
                    }));
                }
            }
            if let Some(l) = l.as_deref_mut() {
                if !matches!(pr, Poll::Ready(None)) {
                    l.outcome("obs:mux-poll-after-close-not-ended");
                }
            }
        }

        // ---- wake-driven family: Pending with input available, nobody registered, no self-wake
        if self_woken {
            self.due = true;
            if let Some(l) = l.as_deref_mut() {
                l.outcome("mux:self-wake");
            }
        }
        if self.cfg.wd && matches!(pr, Poll::Pending) && !self.due {
            let (avail, reg) = {
                let g = self.sh.lock().unwrap();
                (!g.ended && !g.q.is_empty(), g.registered.is_some())
            };
            if avail && !reg {
                let lost = Finding {
                    key: format!("stream-lost-wakeup:{}", self.last_scene),
                    what: format!(
                        "poll_next returned Pending ({}; {consumed} message(s) read) while {} inbound item(s) are available, the stream was not polled to Pending (no read waker registered) and the multiplexer did not wake itself",
                        self.last_scene,
                        self.sh.lock().unwrap().q.len()
                    ),
                };
                if let Some(stuck) = self.stuck_input() {
                    ALSO.with(|a| a.borrow_mut().push(stuck));
                }
                return Err(StepErr::Finding(lost));
            }
            if let Some(l) = l.as_deref_mut() {
                l.outcome(if reg { "mux:wd-pending-with-read-waker" } else { "obs:mux-wd-pending-without-read-waker-no-input" });
            }
        }
        Ok(())
    }
}

/// Execute a history on a fresh multiplexer. The oracle's finding (if any) is returned with the
/// index of the step it occurred at; outcome classes are recorded for the last step only.
pub fn replay(cfg: Cfg, hist: &[Ev], mut l: Option<&mut Local>) -> Result<Sys, (usize, Finding)> {
    'attempt: for _ in 0..16 {
        let mut sys = Sys::new(cfg);
        for (n, ev) in hist.iter().enumerate() {
            let ll = if n + 1 == hist.len() { l.as_deref_mut() } else { None };
            if !sys.enabled().contains(ev) {
                // e.g. `send` while is_shutdown(): the caller contract forbids it (it panics by design)
                return Err((n, Finding { key: NOT_ENABLED.into(), what: format!("event {} is not enabled at step {n}", ev.name()) }));
            }
            match sys.apply(*ev, ll) {
                Ok(()) => {}
                Err(StepErr::Restart) => continue 'attempt,
                Err(StepErr::Finding(f)) => return Err((n, f)),
            }
        }
        return Ok(sys);
    }
    Err((0, Finding { key: "stream-id-reuse-storm".into(), what: "16 consecutive runs drew an already used id".into() }))
}

/// Pseudo-key: the history cannot be executed on this tree (not an oracle verdict).
pub const NOT_ENABLED: &str = "history-not-executable";

pub fn configs(thorough: bool) -> (Vec<Cfg>, usize) {
    let c = |k, max_active, qmax| Cfg { k, max_active, qmax, wd: false, odd: false };
    let o = |k, max_active, qmax| Cfg { k, max_active, qmax, wd: false, odd: true };
    if thorough {
        (vec![c(3, 32, 4), c(3, 2, 3), c(3, 1, 3), c(2, 32, 5), c(2, 1, 4), o(2, 32, 3), o(3, 32, 2), c(2, 0, 2)], 11)
    } else {
        (vec![c(2, 32, 3), c(2, 1, 3), c(3, 32, 3), c(3, 2, 2), o(2, 32, 2), c(2, 0, 2)], 9)
    }
}

/// The wake-driven family: same events, the multiplexer is polled only when a wake-up is due.
pub fn wd_configs(thorough: bool) -> (Vec<Cfg>, usize) {
    let c = |k, max_active, qmax| Cfg { k, max_active, qmax, wd: true, odd: false };
    let o = |k, max_active, qmax| Cfg { k, max_active, qmax, wd: true, odd: true };
    if thorough {
        (vec![c(3, 32, 3), c(3, 2, 3), c(2, 32, 4), c(2, 1, 3), o(2, 32, 3)], 12)
    } else {
        (vec![c(2, 32, 3), c(2, 1, 3), o(2, 32, 2)], 10)
    }
}

pub fn report(ctx: &Ctx, l: &mut Local, cfg: Cfg, hist: &[Ev], step: usize, f: Finding) {
    // replay: the same clause has to fail again at the same step
    match replay(cfg, hist, None) {
        Err((s2, f2)) if s2 == step && f2.key == f.key => {}
        _ => {
            ctx.machinery_failure(&format!("nondeterminism: failing history {} did not reproduce", case_json(&cfg, hist)));
            return;
        }
    }
    let also: Vec<Finding> = ALSO.with(|a| a.borrow_mut().drain(..).collect());
    for g in std::iter::once(f).chain(also) {
        l.violation(&g.key, &g.what, || {
            let mut j = case_json(&cfg, &hist[..=step]);
            j["failed_at_step"] = json!(step);
            j
        });
    }
}

fn explore(ctx: &Ctx, cfgs: &[Cfg], depth: usize) -> vcore::BfsStats {
    let roots: Vec<(Node, Vec<u8>)> = cfgs
        .iter()
        .map(|c| {
            let s = Sys::new(*c);
            (Node { cfg: *c, hist: vec![] }, s.key())
        })
        .collect();
    vcore::bfs(ctx, roots, depth, |node, l| {
        let parent = match replay(node.cfg, &node.hist, None) {
            Ok(s) => s,
            Err(_) => {
                ctx.machinery_failure(&format!("nondeterminism: history {} failed only when re-executed as a prefix", case_json(&node.cfg, &node.hist)));
                return vec![];
            }
        };
        let evs = parent.enabled();
        let pkey = parent.key();
        drop(parent);
        let mut out = vec![];
        for ev in evs {
            let mut h = node.hist.clone();
            h.push(ev);
            l.eval();
            match replay(node.cfg, &h, Some(l)) {
                Ok(sys) => {
                    let key = sys.key();
                    if sys.live_count() >= 2 {
                        l.nontrivial(fnv64(&key));
                    }
                    // determinism self-test on a fixed slice
                    if fnv64(format!("{h:?}").as_bytes()) % 8 == 0 {
                        match replay(node.cfg, &h, None) {
                            Ok(s2) if s2.key() == key => {}
                            _ => ctx.machinery_failure(&format!("nondeterminism: history {} gave two different states", case_json(&node.cfg, &h))),
                        }
                    }
                    if ev == Ev::Poll && key == pkey {
                        l.outcome("mux:idempotent-poll");
                    }
                    if node.cfg.wd && ev == Ev::Poll {
                        l.outcome("mux:wake-driven-poll");
                    }
                    out.push((Node { cfg: node.cfg, hist: h }, key));
                }
                Err((step, f)) => {
                    let last = h.len() - 1;
                    if step != last || f.key == NOT_ENABLED {
                        ctx.machinery_failure(&format!("nondeterminism: history {} failed at prefix step {step}", case_json(&node.cfg, &h)));
                    } else {
                        report(ctx, l, node.cfg, &h, step, f);
                    }
                }
            }
        }
        out
    })
}

fn cfgs_json(cfgs: &[Cfg]) -> Value {
    json!(cfgs.iter().map(|c| json!({"k": c.k, "max_active": c.max_active, "qmax": c.qmax, "wake_driven": c.wd, "odd": c.odd})).collect::<Vec<_>>())
}

// ------------------------------------------------------------------------------------------
// burst family: the batch boundary of the receive loop, wake-driven

/// Drive a script with a wake-driven executor: after every scripted event marked `settle`, the
/// multiplexer is polled as long as (and only if) a poll is due. Returns the full history
/// (scripted events + the polls that happened) and the first finding.
fn drive(cfg: Cfg, script: &[(Ev, bool)], mut l: Option<&mut Local>) -> (Vec<Ev>, Option<(usize, Finding)>) {
    'attempt: for _ in 0..16 {
        let mut sys = Sys::new(cfg);
        let mut hist: Vec<Ev> = vec![];
        let mut polls_in_a_row = 0;
        let mut todo: VecDeque<(Ev, bool)> = script.iter().copied().collect();
        let mut settle = true; // the initial poll
        loop {
            let ev = if settle && sys.due && polls_in_a_row < 32 {
                polls_in_a_row += 1;
                Ev::Poll
            } else if let Some((ev, s)) = todo.pop_front() {
                settle = s;
                polls_in_a_row = 0;
                ev
            } else {
                break;
            };
            if !sys.enabled().contains(&ev) {
                return (hist, Some((0, Finding { key: NOT_ENABLED.into(), what: format!("event {} not enabled", ev.name()) })));
            }
            hist.push(ev);
            match sys.apply(ev, l.as_deref_mut()) {
                Ok(()) => {}
                Err(StepErr::Restart) => continue 'attempt,
                Err(StepErr::Finding(f)) => return (hist.clone(), Some((hist.len() - 1, f))),
            }
        }
        if let Some(l) = l.as_deref_mut() {
            l.outcome(if polls_in_a_row >= 32 { "obs:mux-burst-still-self-waking-after-32-polls" } else { "mux:burst-settled" });
            // everything the script made available for request 0 while it was pending arrived?
            l.outcome(&format!("mux:burst-responses-received={}", sys.reqs.first().map(|r| r.got).unwrap_or(0).min(3)));
        }
        return (hist, None);
    }
    (vec![], None)
}

pub fn burst_scripts(thorough: bool) -> Vec<(Cfg, Vec<(Ev, bool)>)> {
    let cfg = Cfg { k: 1, max_active: 32, qmax: 255, wd: true, odd: false };
    let sizes: Vec<usize> = if thorough {
        vec![1, 50, 97, 98, 99, 100, 101, 102, 149, 150, 198, 199, 200, 201, 248]
    } else {
        vec![98, 99, 100, 101, 150, 199, 200, 248]
    };
    let junk_sets: Vec<Vec<Ev>> = if thorough {
        vec![
            vec![Ev::Unknown],
            vec![Ev::GarbageShort],
            vec![Ev::GarbageHdr],
            vec![Ev::Unknown, Ev::GarbageHdr],
            vec![Ev::GarbageShort, Ev::Unknown, Ev::GarbageHdr],
        ]
    } else {
        vec![vec![Ev::Unknown], vec![Ev::GarbageShort], vec![Ev::GarbageHdr]]
    };
    let tails = [Ev::Deliver(0), Ev::StreamError, Ev::StreamEnd];
    let mut out = vec![];
    for n in &sizes {
        for js in &junk_sets {
            for tail in tails {
                for late in [false, true] {
                    if late && tail != Ev::Deliver(0) {
                        continue;
                    }
                    // send, let the multiplexer settle (it registers with the stream), then the
                    // whole burst becomes available before the woken task gets to run
                    let mut sc: Vec<(Ev, bool)> = vec![(Ev::Send, true)];
                    for i in 0..*n {
                        sc.push((js[i % js.len()], false));
                    }
                    sc.push((tail, true));
                    if late {
                        // one more response after everything has gone quiet
                        sc.push((Ev::Deliver(0), true));
                    }
                    out.push((cfg, sc));
                }
            }
        }
    }
    out
}

fn run_burst(ctx: &Ctx) {
    let scripts = burst_scripts(!ctx.quick());
    ctx.set("mux_burst_cases", json!(scripts.len()));
    let executed = std::sync::atomic::AtomicU64::new(0);
    ctx.par_run(scripts.len() as u64, 1, |i, l| {
        let (cfg, sc) = &scripts[i as usize];
        l.eval();
        let (hist, res) = drive(*cfg, sc, Some(l));
        executed.fetch_add(hist.len() as u64, Ordering::Relaxed);
        match res {
            None => {}
            Some((_, f)) if f.key == NOT_ENABLED => ctx.machinery_failure(&format!("burst script not executable: {}", f.what)),
            Some((step, f)) => report(ctx, l, *cfg, &hist, step, f),
        }
        if i == 0 {
            let mut j = case_json(cfg, &hist);
            j["note"] = json!("burst family: the listed polls are the only ones that were due");
            l.sample(j);
        }
    });
    let n = executed.load(Ordering::SeqCst);
    ctx.transitions.fetch_add(n, Ordering::SeqCst);
    ctx.traces_validated.fetch_add(scripts.len() as u64, Ordering::SeqCst);
    ctx.set("mux_burst_steps", json!(n));
}

pub fn run(ctx: &Ctx) {
    let thorough = !ctx.quick();
    let (cfgs, depth) = configs(thorough);
    let stats = explore(ctx, &cfgs, depth);
    ctx.traces_validated.fetch_add(stats.transitions, Ordering::SeqCst);
    ctx.set("mux_states", json!(stats.states));
    ctx.set("mux_transitions", json!(stats.transitions));
    ctx.set("mux_depth", json!(stats.depth_completed));
    ctx.set("mux_fixpoint", json!(stats.fixpoint));
    ctx.set("mux_states_per_depth", json!(stats.per_depth));
    ctx.set("mux_configs", cfgs_json(&cfgs));

    let (wcfgs, wdepth) = wd_configs(thorough);
    let w = explore(ctx, &wcfgs, wdepth);
    ctx.traces_validated.fetch_add(w.transitions, Ordering::SeqCst);
    ctx.set("mux_wd_states", json!(w.states));
    ctx.set("mux_wd_transitions", json!(w.transitions));
    ctx.set("mux_wd_depth", json!(w.depth_completed));
    ctx.set("mux_wd_fixpoint", json!(w.fixpoint));
    ctx.set("mux_wd_states_per_depth", json!(w.per_depth));
    ctx.set("mux_wd_configs", cfgs_json(&wcfgs));

    run_burst(ctx);
    run_saturation(ctx);
    run_tsig(ctx);
}

// ------------------------------------------------------------------------------------------
// id-space saturation: forcing the id generator to collide

/// Fill the multiplexer until all 65,536 ids are in flight (every draw of the id generator then
/// collides with an active id: the retry loop and its "exhausted" exit are exercised for real),
/// remove half of the requests (cancel / timeout), refill (every new id is necessarily the id of
/// a just-removed request), then deliver late replies to removed requests and replies to current
/// ones: a response goes to the request that holds its id NOW and to nobody else (a late reply
/// whose id was re-issued is indistinguishable for a multiplexer that routes by id: allowed),
/// ids in flight stay pairwise distinct throughout, a closed connection fails all of them.
fn saturation_case(max_active: usize, l: &mut Local) -> Option<Finding> {
    const IDS: usize = 65_536;
    timers_reset();
    let sh = Arc::new(Mutex::new(StreamShared::default()));
    let (handle, mut wire) = BufDnsStreamHandle::new(addr());
    let mut mux = DnsMultiplexer::new(SimStream { sh: sh.clone(), addr: addr() }, handle).with_max_active_requests(max_active);
    let mut cx = Context::from_waker(Waker::noop());
    struct R {
        id: u16,
        rx: Option<DnsResponseStream>,
        timer: Option<usize>,
        live: bool,
    }
    let mut reqs: Vec<R> = Vec::with_capacity(110_000);
    let mut holder: Vec<Option<usize>> = vec![None; IDS];
    let mut in_flight = 0usize;
    let mut refused = 0usize;
    let limit = max_active.min(IDS);

    // one send; Ok(true) = accepted
    let mut send = |mux: &mut DnsMultiplexer<SimStream>, reqs: &mut Vec<R>, holder: &mut Vec<Option<usize>>, in_flight: &mut usize| -> Result<bool, Finding> {
        let i = reqs.len();
        let mut cx = Context::from_waker(Waker::noop());
        let req = DnsRequest::from_query(Query::new(Name::from_ascii("s.example.").unwrap(), RecordType::A), DnsRequestOptions::default());
        let t_before = timers_len();
        let mut rs = match catch(|| mux.send_message(req)) {
            Ok(rs) => rs,
            Err(p) => return Err(Finding { key: format!("panic:{}", vcore::short_loc(&p.loc)), what: format!("send_message panicked with {} requests in flight: {}", *in_flight, p.msg) }),
        };
        let t_after = timers_len();
        let mut out = vec![];
        while let Poll::Ready(Some(m)) = wire.poll_next_unpin(&mut cx) {
            out.push(m);
        }
        if out.len() == 1 {
            let id = vref::wire::read_header(out[0].bytes()).map(|h| h.id).unwrap_or(0);
            if let Some(j) = holder[id as usize] {
                return Err(Finding {
                    key: "stream-inflight-id-collision".into(),
                    what: format!("request {i} was sent with id {id:#06x} while request {j} with the same id is in flight ({} requests in flight)", *in_flight),
                });
            }
            holder[id as usize] = Some(i);
            *in_flight += 1;
            reqs.push(R { id, rx: Some(rs), timer: if t_after > t_before { Some(t_after - 1) } else { None }, live: true });
            Ok(true)
        } else {
            // refused: the stream has to say so at once
            match rs.poll_next_unpin(&mut cx) {
                Poll::Ready(Some(Err(_))) | Poll::Ready(None) => {}
                _ => return Err(Finding { key: "stream-refused-request-stays-pending".into(), what: format!("request {i} put nothing on the wire and its stream does not fail ({} in flight)", *in_flight) }),
            }
            reqs.push(R { id: 0, rx: None, timer: None, live: false });
            Ok(false)
        }
    };

    // ---- phase 1: fill up
    let mut sends = 0usize;
    while in_flight < limit && sends < 400_000 {
        sends += 1;
        match send(&mut mux, &mut reqs, &mut holder, &mut in_flight) {
            Ok(true) => {}
            Ok(false) => refused += 1,
            Err(f) => return Some(f),
        }
    }
    if in_flight < limit {
        return Some(Finding { key: "stream-id-space-not-fillable".into(), what: format!("only {in_flight} of {limit} requests could be put in flight with {sends} sends") });
    }
    l.outcome(&format!("mux:saturation:{}-ids-in-flight", in_flight));
    let _ = refused;
    // ---- phase 2: the id space / the request limit is exhausted: nothing more may be accepted
    for _ in 0..20 {
        match send(&mut mux, &mut reqs, &mut holder, &mut in_flight) {
            // more than max_active_requests in flight is back-pressure, not routing: observation
            // (with all 65,536 ids taken an acceptance is an id collision and was reported above)
            Ok(true) => l.outcome("obs:mux-saturation-request-accepted-beyond-max-active"),
            Ok(false) => l.outcome("mux:saturation:send-refused-when-full"),
            Err(f) => return Some(f),
        }
    }
    // ---- phase 3: second step - remove half of them, one way or the other, and refill
    let mut removed_ids: Vec<u16> = vec![];
    for (i, r) in reqs.iter_mut().enumerate() {
        if !r.live {
            continue;
        }
        match i % 4 {
            1 => {
                r.rx = None; // cancelled
            }
            2 => {
                if let Some(t) = r.timer {
                    timer_fire(t);
                }
            }
            _ => continue,
        }
        r.live = false;
        holder[r.id as usize] = None;
        in_flight -= 1;
        removed_ids.push(r.id);
    }
    let first_gen = reqs.len();
    let _ = mux.poll_next_unpin(&mut cx);
    // timed-out callers see the end of their streams
    for r in reqs.iter_mut() {
        if !r.live {
            if let Some(rx) = r.rx.as_mut() {
                match rx.poll_next_unpin(&mut cx) {
                    Poll::Ready(Some(Ok(_))) => return Some(Finding { key: "stream-unexpected-response".into(), what: "a timed-out request received a response nobody sent".into() }),
                    _ => {}
                }
                r.rx = None;
            }
        }
    }
    let mut sends = 0usize;
    while in_flight < limit && sends < 400_000 {
        sends += 1;
        if let Err(f) = send(&mut mux, &mut reqs, &mut holder, &mut in_flight) {
            return Some(f);
        }
    }
    if in_flight < limit {
        // released requests still occupy their ids / slots: back-pressure, which the statement
        // does not speak about (lead review of m9) - observation only
        l.outcome("obs:mux-saturation-released-ids-not-reusable");
    } else {
        l.outcome("mux:saturation:refilled-with-reused-ids");
    }
    // ---- phase 4: late replies to removed requests (their ids now belong to others) and
    // replies to current holders; expected receiver = whoever holds the id now
    let mut expect: Vec<Vec<[u8; 4]>> = vec![];
    expect.resize(reqs.len(), vec![]);
    let mut seq = 0u32;
    let mut push = |id: u16, tag: u8| {
        seq += 1;
        let marker = [tag, (seq >> 16) as u8, (seq >> 8) as u8, seq as u8];
        let q = Q { name: labels("s.example"), qtype: 1, qclass: 1 };
        sh.lock().unwrap().q.push_back(Inb::Bytes(wirekit::response(id, &[q.clone()], &q.name, marker)));
        marker
    };
    let mut reissued_seen = false;
    for (n, id) in removed_ids.iter().enumerate() {
        if n % 53 == 0 {
            let m = push(*id, 20);
            if let Some(h) = holder[*id as usize] {
                expect[h].push(m);
                reissued_seen |= h >= first_gen;
            }
        }
    }
    if reissued_seen {
        l.outcome("mux:saturation:late-reply-reaches-new-holder-of-the-id");
    }
    for id in (0..IDS).step_by(97) {
        if let Some(h) = holder[id] {
            let m = push(id as u16, 21);
            expect[h].push(m);
        }
    }
    // the multiplexer reads 100 messages per poll and wakes itself: poll until it has read all
    for _ in 0..200 {
        let _ = mux.poll_next_unpin(&mut cx);
        if sh.lock().unwrap().q.is_empty() {
            break;
        }
    }
    let _ = mux.poll_next_unpin(&mut cx);
    for (i, r) in reqs.iter_mut().enumerate() {
        let Some(rx) = r.rx.as_mut() else { continue };
        let mut got = vec![];
        for _ in 0..16 {
            match rx.poll_next_unpin(&mut cx) {
                Poll::Ready(Some(Ok(resp))) => {
                    let b = resp.as_buffer();
                    let id = vref::wire::read_header(b).map(|h| h.id).unwrap_or(0);
                    if id != r.id {
                        return Some(Finding { key: "stream-misrouted-response:saturated".into(), what: format!("request {i} (id {:#06x}) received a response carrying id {id:#06x}", r.id) });
                    }
                    got.push(wirekit::marker_of(b).unwrap_or_default());
                }
                Poll::Ready(Some(Err(e))) => return Some(Finding { key: "stream-pending-request-terminated".into(), what: format!("request {i} failed on an open connection: {e}") }),
                _ => break,
            }
        }
        if got != expect[i] {
            return Some(Finding {
                key: if got.len() < expect[i].len() { "stream-response-not-delivered".into() } else { "stream-unexpected-response".into() },
                what: format!("request {i} (id {:#06x}, live {}): {} response(s) reached it, the connection carried {} for the holder of its id", r.id, r.live, got.len(), expect[i].len()),
            });
        }
    }
    // ---- phase 5: the connection ends
    sh.lock().unwrap().q.push_back(Inb::End);
    let _ = mux.poll_next_unpin(&mut cx);
    for (i, r) in reqs.iter_mut().enumerate() {
        let Some(rx) = r.rx.as_mut() else { continue };
        match rx.poll_next_unpin(&mut cx) {
            Poll::Ready(Some(Err(_))) => {}
            other => {
                return Some(Finding {
                    key: "stream-closed-connection-request-not-failed".into(),
                    what: format!("the connection closed with {in_flight} requests pending, request {i} saw {:?}", other.map(|o| o.map(|r| r.is_ok()))),
                })
            }
        }
    }
    l.outcome("mux:saturation:all-pending-failed-on-close");
    None
}

/// `--replay` of a saturation / signed-multiplexer case.
pub fn replay_other(ctx: &Ctx, case: &Value) -> bool {
    match case["part"].as_str() {
        Some("mux-saturation") => {
            let max_active = case["max_active"].as_u64().unwrap_or(70_000) as usize;
            ctx.with_local(|l| {
                l.eval();
                if let Some(f) = saturation_case(max_active, l) {
                    l.violation(&f.key, &f.what, || case.clone());
                }
            });
            true
        }
        Some("mux-tsig") => {
            let seq: Vec<(usize, usize)> = case["messages"]
                .as_array()
                .map(|a| {
                    a.iter()
                        .filter_map(|m| m.as_str())
                        .filter_map(|m| m.rsplit_once(':'))
                        .filter_map(|(k, t)| Some((TSIG_ITEMS.iter().position(|x| *x == k)?, t.parse::<usize>().ok()?)))
                        .collect()
                })
                .unwrap_or_default();
            ctx.with_local(|l| {
                l.eval();
                if let Some(f) = tsig_case(&seq, l) {
                    l.violation(&f.key, &f.what, || case.clone());
                }
            });
            true
        }
        _ => false,
    }
}

fn run_saturation(ctx: &Ctx) {
    // id space is the limit / request limit = id space / request limit just below
    let limits = [70_000usize, 65_536, 65_535];
    ctx.set("mux_saturation_limits", json!(limits));
    ctx.par_run(limits.len() as u64, 1, |i, l| {
        l.eval();
        if let Some(f) = saturation_case(limits[i as usize], l) {
            l.violation(&f.key, &f.what, || json!({"part": "mux-saturation", "max_active": limits[i as usize]}));
        }
    });
    ctx.traces_validated.fetch_add(limits.len() as u64, Ordering::SeqCst);
}

// ------------------------------------------------------------------------------------------
// multiplexer with a TSIG signer: responses are routed by id AND have to verify

pub const TSIG_ITEMS: [&str; 4] = ["signed", "bad-mac", "unsigned", "signed-for-the-other-request"];

/// Two signed (IXFR) requests in flight; every sequence of <= n messages over
/// {correctly signed, MAC bit flipped, unsigned, signed against the OTHER request's MAC} x
/// {id of request 0, id of request 1}, read in one poll. Reference signer/verifier: vref::tsig.
fn tsig_case(seq: &[(usize, usize)], l: &mut Local) -> Option<Finding> {
    timers_reset();
    let sh = Arc::new(Mutex::new(StreamShared::default()));
    let (handle, mut wire) = BufDnsStreamHandle::new(addr());
    let signer = hickory_proto::rr::TSigner::new(
        crate::udp::TSIG_SECRET.to_vec(),
        hickory_proto::rr::rdata::tsig::TsigAlgorithm::HmacSha256,
        Name::from_ascii(crate::udp::TSIG_KEY_NAME).unwrap(),
        300,
    )
    .unwrap();
    let mut mux = DnsMultiplexer::new(SimStream { sh: sh.clone(), addr: addr() }, handle).with_signer(signer);
    let mut cx = Context::from_waker(Waker::noop());
    let key = crate::udp::tsig_key();
    let kname = vref::tsig::labels_of(crate::udp::TSIG_KEY_NAME);
    let mut rx = vec![];
    let mut wire_reqs: Vec<Vec<u8>> = vec![];
    for i in 0..2 {
        let req = DnsRequest::from_query(Query::new(Name::from_ascii(format!("r{i}.example.")).unwrap(), RecordType::IXFR), DnsRequestOptions::default());
        rx.push(mux.send_message(req));
        match wire.poll_next_unpin(&mut cx) {
            Poll::Ready(Some(m)) => wire_reqs.push(m.bytes().to_vec()),
            _ => return Some(Finding { key: "stream-signed-request-not-sent".into(), what: format!("request {i} did not go on the wire") }),
        }
    }
    let signed: Vec<vref::tsig::Signed> = match wire_reqs.iter().map(|b| vref::tsig::split(b)).collect::<Result<Vec<_>, _>>() {
        Ok(s) => s,
        Err(e) => return Some(Finding { key: "stream-request-not-signed".into(), what: format!("a request that has to be signed carries no valid trailing TSIG: {e:?}") }),
    };
    let ids: Vec<u16> = wire_reqs.iter().map(|b| u16::from_be_bytes([b[0], b[1]])).collect();
    // expected per request: (marker, kind index, first message for this request?)
    let mut expect: Vec<Vec<([u8; 4], usize, bool)>> = vec![vec![], vec![]];
    for (n, (kind, target)) in seq.iter().enumerate() {
        let marker = [30, *kind as u8, *target as u8, n as u8];
        let q = req_question(*target);
        let q = Q { qtype: 251, ..q };
        let plain = wirekit::response(ids[*target], &[q.clone()], &q.name, marker);
        let (time, own, other) = (signed[*target].tsig.time, &signed[*target].tsig.mac, &signed[1 - *target].tsig.mac);
        let bytes = match *kind {
            0 => vref::tsig::sign(&plain, &key, &kname, time, 300, Some(own)),
            1 => {
                let mut b = vref::tsig::sign(&plain, &key, &kname, time, 300, Some(own));
                let p = b.len() - 7;
                b[p] ^= 1;
                b
            }
            2 => plain,
            _ => vref::tsig::sign(&plain, &key, &kname, time, 300, Some(other)),
        };
        let first = expect[*target].is_empty();
        expect[*target].push((marker, *kind, first));
        sh.lock().unwrap().q.push_back(Inb::Bytes(bytes));
    }
    if let Err(p) = catch(|| mux.poll_next_unpin(&mut cx)) {
        return Some(Finding { key: format!("panic:{}", vcore::short_loc(&p.loc)), what: format!("poll_next panicked: {}", p.msg) });
    }
    for i in 0..2 {
        let mut items: Vec<Result<[u8; 4], String>> = vec![];
        for _ in 0..16 {
            match rx[i].poll_next_unpin(&mut cx) {
                Poll::Ready(Some(Ok(resp))) => {
                    let b = resp.as_buffer();
                    if u16::from_be_bytes([b[0], b[1]]) != ids[i] {
                        return Some(Finding { key: "stream-misrouted-response:signed".into(), what: format!("request {i} received a response with another id") });
                    }
                    items.push(Ok(wirekit::marker_of(b).unwrap_or_default()));
                }
                Poll::Ready(Some(Err(e))) => items.push(Err(e.to_string())),
                _ => break,
            }
        }
        // every Ok item is a message addressed to this request that the reference accepts
        for it in &items {
            if let Ok(m) = it {
                match expect[i].iter().find(|e| e.0 == *m) {
                    None => return Some(Finding { key: "stream-misrouted-response:signed".into(), what: format!("request {i} received a message addressed to the other request") }),
                    Some((_, kind, _)) if *kind != 0 => {
                        return Some(Finding {
                            key: format!("stream-delivered-bad-tsig:{}", TSIG_ITEMS[*kind]),
                            what: format!("request {i} (signed by the multiplexer) received as a valid response a message that is {}", TSIG_ITEMS[*kind]),
                        })
                    }
                    _ => {}
                }
            }
        }
        // one item per message with this id; the first message, if correctly signed, arrives as Ok
        if items.len() != expect[i].len() {
            return Some(Finding {
                key: if items.len() < expect[i].len() { "stream-response-not-delivered:signed".into() } else { "stream-unexpected-response".into() },
                what: format!("request {i}: the connection carried {} message(s) with its id, its receiver yielded {} item(s)", expect[i].len(), items.len()),
            });
        }
        if let (Some((m, 0, true)), Some(first)) = (expect[i].first(), items.first()) {
            if first.as_ref().ok() != Some(m) {
                return Some(Finding {
                    key: "stream-valid-signed-response-rejected".into(),
                    what: format!("request {i}: the first message with its id is correctly signed (reference signer) but reached the caller as {first:?}"),
                });
            }
            l.outcome("mux:tsig:valid-first-response-delivered");
        }
        if items.iter().any(|x| x.is_err()) {
            l.outcome("mux:tsig:unverifiable-message-reported-as-error");
        }
    }
    None
}

fn run_tsig(ctx: &Ctx) {
    let max_len = if ctx.quick() { 3 } else { 4 };
    let syms: Vec<(usize, usize)> = (0..4).flat_map(|k| (0..2).map(move |t| (k, t))).collect();
    let mut seqs: Vec<Vec<(usize, usize)>> = vec![vec![]];
    let mut last = seqs.clone();
    for _ in 0..max_len {
        let mut next = vec![];
        for s in &last {
            for x in &syms {
                let mut t = s.clone();
                t.push(*x);
                next.push(t);
            }
        }
        seqs.extend(next.iter().cloned());
        last = next;
    }
    ctx.set("mux_tsig_sequences", json!(seqs.len()));
    ctx.par_run(seqs.len() as u64, 16, |i, l| {
        l.eval();
        let seq = &seqs[i as usize];
        if let Some(f) = tsig_case(seq, l) {
            l.violation(&f.key, &f.what, || {
                json!({"part": "mux-tsig", "messages": seq.iter().map(|(k, t)| format!("{}:{}", TSIG_ITEMS[*k], t)).collect::<Vec<_>>()})
            });
        }
    });
    ctx.traces_validated.fetch_add(seqs.len() as u64, Ordering::SeqCst);
}
