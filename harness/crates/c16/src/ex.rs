//! C16 part (c): `DnsExchange` + `DnsExchangeBackground` on top of the real `DnsMultiplexer` over
//! the scripted stream of `mux.rs` - the way a TCP/TLS connection is really used: callers submit
//! requests through a cloneable handle into a channel, one background future forwards them to the
//! multiplexer and drives it.
//!
//! E-STATE (BFS over event histories with state matching, every transition a replay on fresh real
//! objects), in two families like part (b): `poll-background` enabled always (classic) or ONLY
//! while a wake-up of the background future is pending (wake-driven; the request channel, the
//! scripted stream and the hand-fired timers wake it, the harness never polls it otherwise).
//! When the background future completes it is dropped, as a runtime does with a finished task.
//!
//! Oracle (statement: each response reaches the pending request with the same id and no other,
//! pending ids distinct, unknown ids dropped, a closed connection fails every pending request -
//! here "pending" includes requests still waiting in the exchange's channel): the reference
//! routing table of part (b) keyed by the ids seen on the wire, plus: once the connection is
//! closed / the background future is gone no submitted request may stay pending (none hangs);
//! wake-driven: a submitted request, an available response for a pending request or the close of
//! the connection must not be left behind while no wake-up is pending.

use std::collections::VecDeque;
use std::future::Future;
use std::pin::Pin;
use std::sync::atomic::Ordering;
use std::sync::{Arc, Mutex};
use std::task::{Context, Poll, Waker};

use futures_util::StreamExt;
use hickory_net::runtime::RuntimeProvider;
use hickory_net::xfer::{DnsExchange, DnsExchangeBackground, DnsExchangeSend, DnsHandle, DnsMultiplexer, StreamReceiver};
use hickory_net::BufDnsStreamHandle;
use hickory_proto::op::{DnsRequest, DnsRequestOptions, Query};
use hickory_proto::rr::{Name, RecordType};
use serde_json::{json, Value};
use vcore::{catch, fnv64, Ctx, Local};

use crate::mux::{addr, req_question, timer_fire, timer_registered, timers_len, timers_reset, Finding, Inb, SimStream, StreamShared, WakeRec};
use crate::wirekit;

/// Only a type parameter of the exchange (it names the timer type of the background future).
type P = vsim::SimProvider;
type Bg = DnsExchangeBackground<DnsMultiplexer<SimStream>, <P as RuntimeProvider>::Timer>;

#[derive(Clone, Copy, Debug, PartialEq, Eq, Hash)]
pub enum XEv {
    /// a caller submits the next request through the handle
    Req,
    /// the caller drops its `DnsExchange` handle
    DropHandle,
    /// the caller drops the response stream of request i
    DropResp(u8),
    Deliver(u8),
    Unknown,
    Garbage,
    StreamError,
    StreamEnd,
    Timer(u8),
    PollBg,
}

impl XEv {
    pub fn name(self) -> String {
        match self {
            XEv::Req => "request".into(),
            XEv::DropHandle => "drop-handle".into(),
            XEv::DropResp(i) => format!("drop-response-stream:{i}"),
            XEv::Deliver(i) => format!("deliver:{i}"),
            XEv::Unknown => "unknown-id".into(),
            XEv::Garbage => "undecodable".into(),
            XEv::StreamError => "stream-error".into(),
            XEv::StreamEnd => "stream-end".into(),
            XEv::Timer(i) => format!("timer:{i}"),
            XEv::PollBg => "poll-background".into(),
        }
    }
    pub fn from_name(s: &str) -> Option<XEv> {
        let (a, b) = match s.split_once(':') {
            Some((a, b)) => (a, b.parse::<u8>().ok()),
            None => (s, None),
        };
        Some(match (a, b) {
            ("request", None) => XEv::Req,
            ("drop-handle", None) => XEv::DropHandle,
            ("drop-response-stream", Some(i)) => XEv::DropResp(i),
            ("deliver", Some(i)) => XEv::Deliver(i),
            ("unknown-id", None) => XEv::Unknown,
            ("undecodable", None) => XEv::Garbage,
            ("stream-error", None) => XEv::StreamError,
            ("stream-end", None) => XEv::StreamEnd,
            ("timer", Some(i)) => XEv::Timer(i),
            ("poll-background", None) => XEv::PollBg,
            _ => return None,
        })
    }
}

#[derive(Clone, Copy, Debug, PartialEq, Eq, Hash)]
pub struct XCfg {
    pub k: u8,
    pub max_active: u8,
    pub qmax: u8,
    pub wd: bool,
    /// the multiplexer's outbound handle has a buffer of 0 messages (BufDnsStreamHandle::
    /// with_buffer_size): a second request forwarded before the wire was drained cannot be sent
    pub wire0: bool,
}

#[derive(Clone, Debug)]
pub struct XNode {
    pub cfg: XCfg,
    pub hist: Vec<XEv>,
}

pub fn case_json(cfg: &XCfg, hist: &[XEv]) -> Value {
    json!({"part": "exchange", "k": cfg.k, "max_active": cfg.max_active, "qmax": cfg.qmax, "wake_driven": cfg.wd, "wire_buffer_0": cfg.wire0,
           "events": hist.iter().map(|e| e.name()).collect::<Vec<_>>()})
}

pub fn case_from_json(v: &Value) -> Option<(XCfg, Vec<XEv>)> {
    let cfg = XCfg {
        k: v["k"].as_u64()? as u8,
        max_active: v["max_active"].as_u64()? as u8,
        qmax: v["qmax"].as_u64()? as u8,
        wd: v["wake_driven"].as_bool().unwrap_or(false),
        wire0: v["wire_buffer_0"].as_bool().unwrap_or(false),
    };
    let mut h = vec![];
    for e in v["events"].as_array()? {
        h.push(XEv::from_name(e.as_str()?)?);
    }
    Some((cfg, h))
}

#[derive(Clone, Copy, Debug, PartialEq, Eq)]
enum XState {
    /// accepted by the handle, waiting in the exchange's channel
    Submitted,
    /// the handle refused it (its stream said so at once)
    Rejected,
    /// on the wire: in the reference routing table
    Live,
    /// the background took it but nothing went on the wire and its stream failed (Busy)
    Refused,
    TimedOut,
    Cancelled,
    Failed,
}

struct XReq {
    rx: Option<DnsExchangeSend<P>>,
    state: XState,
    id: u16,
    timer: Option<usize>,
    cancelled: bool,
    fired: bool,
    terminated: bool,
    got: u32,
}

#[derive(Clone, Debug)]
enum XItem {
    Resp { id: u16, marker: [u8; 4], target: u8 },
    Unknown,
    Garbage,
    Error,
    End,
}

enum StepErr {
    Restart,
    Finding(Finding),
}

pub struct ExSys {
    cfg: XCfg,
    handle: Option<DnsExchange<P>>,
    bg: Option<Pin<Box<Bg>>>,
    sh: Arc<Mutex<StreamShared>>,
    wire: StreamReceiver,
    reqs: Vec<XReq>,
    mq: VecDeque<XItem>,
    log: Vec<([u8; 4], Option<usize>)>,
    closed: bool,
    err_used: bool,
    end_used: bool,
    seq: u8,
    wake: Arc<WakeRec>,
    due: bool,
    last_scene: &'static str,
}

fn fnd(key: String, what: String) -> StepErr {
    StepErr::Finding(Finding { key, what })
}

impl ExSys {
    pub fn new(cfg: XCfg) -> ExSys {
        timers_reset();
        let sh = Arc::new(Mutex::new(StreamShared::default()));
        let (h, wire) = if cfg.wire0 { BufDnsStreamHandle::with_buffer_size(addr(), 0) } else { BufDnsStreamHandle::new(addr()) };
        let stream = SimStream { sh: sh.clone(), addr: addr() };
        let mux = DnsMultiplexer::new(stream, h).with_max_active_requests(cfg.max_active as usize);
        let (handle, bg) = DnsExchange::<P>::from_stream(mux);
        ExSys {
            cfg,
            handle: Some(handle),
            bg: Some(Box::pin(bg)),
            sh,
            wire,
            reqs: vec![],
            mq: VecDeque::new(),
            log: vec![],
            closed: false,
            err_used: false,
            end_used: false,
            seq: 0,
            wake: Arc::new(WakeRec::default()),
            due: true,
            last_scene: "never-polled",
        }
    }

    fn live(&self, i: usize) -> bool {
        self.reqs[i].state == XState::Live
    }
    /// a caller is still waiting on this request
    fn waiting(&self, i: usize) -> bool {
        let r = &self.reqs[i];
        r.rx.is_some() && !r.terminated && !r.cancelled && !r.fired && matches!(r.state, XState::Live | XState::Submitted)
    }
    pub fn live_count(&self) -> usize {
        (0..self.reqs.len()).filter(|i| self.live(*i)).count()
    }

    pub fn enabled(&self) -> Vec<XEv> {
        let mut v = vec![];
        let n = self.reqs.len();
        if n < self.cfg.k as usize && self.handle.is_some() {
            v.push(XEv::Req);
        }
        if self.bg.is_none() {
            // the connection task is gone: only new submissions can still show anything
            return v;
        }
        if self.handle.is_some() {
            v.push(XEv::DropHandle);
        }
        for i in 0..n {
            if self.reqs[i].rx.is_some() {
                v.push(XEv::DropResp(i as u8));
            }
        }
        if !self.closed && self.mq.len() < self.cfg.qmax as usize {
            for i in 0..n {
                // on the wire (its id is known): pending, or already removed (late response)
                if self.reqs[i].timer.is_some() {
                    v.push(XEv::Deliver(i as u8));
                }
            }
            v.push(XEv::Unknown);
            v.push(XEv::Garbage);
            if !self.err_used {
                v.push(XEv::StreamError);
            }
            if !self.end_used {
                v.push(XEv::StreamEnd);
            }
        }
        for i in 0..n {
            if self.live(i) && !self.reqs[i].fired && self.reqs[i].timer.is_some() {
                v.push(XEv::Timer(i as u8));
            }
        }
        if !self.cfg.wd || self.due {
            v.push(XEv::PollBg);
        }
        v
    }

    pub fn key(&self) -> Vec<u8> {
        let mut k = vec![self.cfg.k, self.cfg.max_active, self.cfg.qmax, self.cfg.wd as u8 | (self.cfg.wire0 as u8) << 1];
        let reg = self.sh.lock().unwrap().registered.is_some();
        k.push(
            self.closed as u8
                | (self.err_used as u8) << 1
                | (self.end_used as u8) << 2
                | (self.handle.is_some() as u8) << 3
                | (self.bg.is_some() as u8) << 4
                | ((self.cfg.wd && self.due) as u8) << 5
                | ((self.cfg.wd && reg) as u8) << 6,
        );
        for r in &self.reqs {
            let s = match r.state {
                XState::Submitted => 1,
                XState::Rejected => 2,
                XState::Live => 3,
                XState::Refused => 4,
                XState::TimedOut => 5,
                XState::Cancelled => 6,
                XState::Failed => 7,
            };
            let treg = self.cfg.wd && r.timer.map(timer_registered).unwrap_or(false);
            k.push(s | (r.cancelled as u8) << 3 | (r.fired as u8) << 4 | (r.terminated as u8) << 5 | (r.rx.is_some() as u8) << 6 | (treg as u8) << 7);
        }
        k.push(0xff);
        if self.bg.is_some() && !self.closed {
            for m in &self.mq {
                k.push(match m {
                    XItem::Resp { target, .. } => 0x10 | *target,
                    XItem::Unknown => 0x20,
                    XItem::Garbage => 0x30,
                    XItem::Error => 0x40,
                    XItem::End => 0x50,
                });
            }
        }
        k
    }

    fn push_inbound(&mut self, inb: Inb, m: XItem) {
        let w = {
            let mut g = self.sh.lock().unwrap();
            g.q.push_back(inb);
            if g.ended {
                None
            } else {
                g.registered.take()
            }
        };
        self.mq.push_back(m);
        if let Some(w) = w {
            w.wake();
        }
    }

    /// Poll one response stream as its caller would and fold the result into the request.
    /// Returns (markers with their ids, error, ended).
    fn observe(&mut self, i: usize) -> (Vec<(u16, Option<[u8; 4]>)>, Option<String>, bool) {
        let mut cx = Context::from_waker(Waker::noop());
        let mut got = vec![];
        let mut err = None;
        let mut ended = false;
        if self.reqs[i].rx.is_none() || self.reqs[i].terminated {
            return (got, err, ended);
        }
        for _ in 0..64 {
            match self.reqs[i].rx.as_mut().unwrap().poll_next_unpin(&mut cx) {
                Poll::Ready(Some(Ok(resp))) => {
                    let b = resp.as_buffer();
                    let id = vref::wire::read_header(b).map(|h| h.id).unwrap_or(0);
                    got.push((id, wirekit::marker_of(b)));
                }
                Poll::Ready(Some(Err(e))) => err = Some(e.to_string()),
                Poll::Ready(None) => {
                    ended = true;
                    break;
                }
                Poll::Pending => break,
            }
        }
        if err.is_some() || ended {
            self.reqs[i].terminated = true;
        }
        (got, err, ended)
    }

    /// Wake-driven family: something the reference would act upon is waiting, no wake-up of the
    /// background future is pending and nobody is registered for it.
    fn stuck(&self) -> Option<Finding> {
        if !self.cfg.wd || self.due || self.bg.is_none() {
            return None;
        }
        if !self.closed {
            if let Some(i) = (0..self.reqs.len()).find(|i| self.reqs[*i].state == XState::Submitted && self.waiting(*i)) {
                return Some(Finding {
                    key: format!("exchange-request-stuck:wake-driven:{}", self.last_scene),
                    what: format!(
                        "request {i} was accepted by the handle and waits in the exchange's channel, but the background future returned Pending from its last poll ({}) and was not woken by the submission: polled only when woken, it never sends the request",
                        self.last_scene
                    ),
                });
            }
        }
        let (avail, reg) = {
            let g = self.sh.lock().unwrap();
            (!g.ended && !g.q.is_empty(), g.registered.is_some())
        };
        if self.closed || !avail || reg {
            return None;
        }
        for m in &self.mq {
            match m {
                XItem::Resp { id, .. } => {
                    if let Some(i) = (0..self.reqs.len()).find(|i| self.live(*i) && self.waiting(*i) && self.reqs[*i].id == *id) {
                        return Some(Finding {
                            key: format!("exchange-response-not-delivered:wake-driven:{}", self.last_scene),
                            what: format!("a response for pending request {i} is available on the connection, no wake-up of the background future is pending and no read waker is registered (last poll: {})", self.last_scene),
                        });
                    }
                }
                XItem::Error | XItem::End => {
                    if let Some(i) = (0..self.reqs.len()).find(|i| self.waiting(*i)) {
                        return Some(Finding {
                            key: format!("exchange-closed-connection-request-not-failed:wake-driven:{}", self.last_scene),
                            what: format!("the connection closed while request {i} is pending, no wake-up of the background future is pending and no read waker is registered (last poll: {})", self.last_scene),
                        });
                    }
                    break;
                }
                _ => {}
            }
        }
        None
    }

    /// The connection task has ended (or the connection is closed): nobody may keep waiting.
    fn nobody_hangs(&mut self, why: &str, key: &str) -> Result<(), StepErr> {
        for i in 0..self.reqs.len() {
            if self.reqs[i].rx.is_none() || self.reqs[i].terminated {
                continue;
            }
            let (got, err, ended) = self.observe(i);
            let my_id = self.reqs[i].id;
            if got.iter().any(|g| self.reqs[i].state != XState::Live || g.0 != my_id) {
                return Err(fnd("exchange-misrouted-response:after-close".into(), format!("request {i} received a foreign response {why}")));
            }
            if err.is_none() && !ended {
                return Err(fnd(
                    key.to_string(),
                    format!("{why}, but request {i} ({:?}) is still pending: its stream yields neither an error nor its end", self.reqs[i].state),
                ));
            }
        }
        Ok(())
    }

    fn apply(&mut self, ev: XEv, l: Option<&mut Local>) -> Result<(), StepErr> {
        let r = self.apply_inner(ev, l);
        if self.wake.n.swap(0, Ordering::SeqCst) > 0 {
            self.due = true;
        }
        r?;
        if ev != XEv::PollBg {
            if let Some(f) = self.stuck() {
                return Err(StepErr::Finding(f));
            }
        }
        Ok(())
    }

    fn apply_inner(&mut self, ev: XEv, mut l: Option<&mut Local>) -> Result<(), StepErr> {
        let mut cx = Context::from_waker(Waker::noop());
        match ev {
            XEv::Req => {
                let i = self.reqs.len();
                let req = DnsRequest::from_query(
                    Query::new(Name::from_ascii(format!("r{i}.example.")).unwrap(), RecordType::A),
                    DnsRequestOptions::default(),
                );
                let h = self.handle.as_ref().unwrap();
                let mut rx = match catch(|| h.send(req)) {
                    Ok(rx) => rx,
                    Err(p) => return Err(fnd(format!("panic:{}", vcore::short_loc(&p.loc)), format!("DnsExchange::send panicked: {}", p.msg))),
                };
                // does the handle refuse at once?
                let first = rx.poll_next_unpin(&mut cx);
                let (state, terminated) = match first {
                    Poll::Pending => (XState::Submitted, false),
                    Poll::Ready(Some(Err(_))) | Poll::Ready(None) => (XState::Rejected, true),
                    Poll::Ready(Some(Ok(_))) => return Err(fnd("exchange-misrouted-response:at-submission".into(), format!("request {i} yielded a response before it was sent"))),
                };
                if let Some(l) = l.as_deref_mut() {
                    l.outcome(match (state, self.bg.is_some()) {
                        (XState::Submitted, true) => "ex:request-submitted",
                        (XState::Submitted, false) => "ex:request-submitted-after-task-ended",
                        (_, true) => "ex:request-rejected-by-handle",
                        (_, false) => "ex:request-rejected-after-task-ended",
                    });
                }
                if state == XState::Submitted && self.bg.is_none() {
                    return Err(fnd(
                        "exchange-request-hangs-after-connection-task-ended".into(),
                        format!("the background future has completed and was dropped, request {i} submitted afterwards stays pending"),
                    ));
                }
                self.reqs.push(XReq { rx: Some(rx), state, id: 0, timer: None, cancelled: false, fired: false, terminated, got: 0 });
            }
            XEv::DropHandle => {
                self.handle = None;
            }
            XEv::DropResp(i) => {
                let r = &mut self.reqs[i as usize];
                r.rx = None;
                r.cancelled = true;
            }
            XEv::Deliver(i) => {
                let i = i as usize;
                let id = self.reqs[i].id;
                self.seq = self.seq.wrapping_add(1);
                let marker = [12, i as u8, 0, self.seq];
                let q = req_question(i);
                let bytes = wirekit::response(id, &[q.clone()], &q.name, marker);
                self.log.push((marker, Some(i)));
                if let Some(l) = l.as_deref_mut() {
                    l.outcome(if self.live(i) { "ex:deliver-for-live" } else { "ex:deliver-late" });
                }
                self.push_inbound(Inb::Bytes(bytes), XItem::Resp { id, marker, target: i as u8 });
            }
            XEv::Unknown => {
                self.seq = self.seq.wrapping_add(1);
                let marker = [12, 0xee, 0, self.seq];
                self.log.push((marker, None));
                self.push_inbound(Inb::Unknown { marker }, XItem::Unknown);
            }
            XEv::Garbage => {
                let id = (0..self.reqs.len()).find(|i| self.live(*i)).map(|i| self.reqs[i].id).unwrap_or(0xffff);
                let mut b = id.to_be_bytes().to_vec();
                b.extend_from_slice(&[0x81, 0x80, 0, 1, 0, 0, 0, 0, 0, 0, 3, b'a']);
                self.push_inbound(Inb::Bytes(b), XItem::Garbage);
            }
            XEv::StreamError => {
                self.err_used = true;
                self.push_inbound(Inb::Error, XItem::Error);
            }
            XEv::StreamEnd => {
                self.end_used = true;
                self.push_inbound(Inb::End, XItem::End);
            }
            XEv::Timer(i) => {
                let r = &mut self.reqs[i as usize];
                if let Some(t) = r.timer {
                    timer_fire(t);
                }
                r.fired = true;
            }
            XEv::PollBg => return self.poll_bg(l),
        }
        Ok(())
    }

    fn poll_bg(&mut self, mut l: Option<&mut Local>) -> Result<(), StepErr> {
        let n = self.reqs.len();
        let waker = Waker::from(self.wake.clone());
        let mut cx = Context::from_waker(&waker);
        let popped_before = self.sh.lock().unwrap().popped;
        let timers_before = timers_len();
        self.wake.n.store(0, Ordering::SeqCst);
        self.due = false;
        let bg = self.bg.as_mut().unwrap();
        let pr = match catch(|| bg.as_mut().poll(&mut cx)) {
            Ok(p) => p,
            Err(p) => return Err(fnd(format!("panic:{}", vcore::short_loc(&p.loc)), format!("DnsExchangeBackground::poll panicked: {}", p.msg))),
        };
        let self_woken = self.wake.n.load(Ordering::SeqCst) > 0;
        let consumed = self.sh.lock().unwrap().popped - popped_before;
        // what went on the wire in this poll; an id that an earlier, no longer pending request
        // of this run carried means "re-run the history" - decided before anything is recorded,
        // so that a re-run leaves no trace in the outcome counts
        let mut cxn = Context::from_waker(Waker::noop());
        let mut new_wire = vec![];
        while let Poll::Ready(Some(m)) = self.wire.poll_next_unpin(&mut cxn) {
            new_wire.push(m);
        }
        for m in &new_wire {
            if let Some((id, _)) = wirekit::request_view(m.bytes()) {
                if (0..n).any(|j| self.reqs[j].timer.is_some() && self.reqs[j].id == id && !(self.live(j) && !self.reqs[j].cancelled && !self.reqs[j].fired)) {
                    return Err(StepErr::Restart);
                }
            }
        }
        if let Some(l) = l.as_deref_mut() {
            l.outcome(if pr.is_ready() { "ex:background-completed" } else { "ex:background-pending" });
            if self.cfg.wd {
                l.outcome("ex:wake-driven-poll");
            }
        }

        // ---- reference, step 1: removals the multiplexer makes first
        let mut exp: Vec<Vec<[u8; 4]>> = vec![vec![]; n];
        let mut exp_err = vec![false; n];
        let mut strict = vec![false; n];
        let mut fired_now = vec![false; n];
        let mut offered: Vec<Vec<[u8; 4]>> = vec![vec![]; n];
        let mut last_kind: &'static str = "nothing-read";
        if !self.closed {
            for i in 0..n {
                if self.live(i) {
                    if self.reqs[i].cancelled {
                        self.reqs[i].state = XState::Cancelled;
                    } else if self.reqs[i].fired {
                        self.reqs[i].state = XState::TimedOut;
                        fired_now[i] = true;
                    } else {
                        strict[i] = true;
                    }
                }
            }
            // ---- step 2: what was read from the connection (the reference follows the count)
            let mut budget = consumed;
            while budget > 0 {
                let Some(item) = self.mq.pop_front() else { break };
                budget -= 1;
                match item {
                    XItem::Resp { id, marker, .. } => {
                        for i in 0..n {
                            if self.reqs[i].timer.is_some() && self.reqs[i].id == id {
                                offered[i].push(marker);
                            }
                        }
                        match (0..n).find(|i| self.live(*i) && self.reqs[*i].id == id) {
                            Some(i) => {
                                exp[i].push(marker);
                                last_kind = "after-response";
                            }
                            None => last_kind = "after-late-response",
                        }
                    }
                    XItem::Unknown => last_kind = "after-unknown-id",
                    XItem::Garbage => last_kind = "after-undecodable",
                    XItem::Error | XItem::End => {
                        for i in 0..n {
                            if self.live(i) {
                                exp_err[i] = true;
                                self.reqs[i].state = XState::Failed;
                            }
                        }
                        self.closed = true;
                        last_kind = "after-close";
                        break;
                    }
                }
            }
            let real = self.sh.lock().unwrap().q.len();
            while self.mq.len() > real {
                self.mq.pop_front();
            }
        }
        self.last_scene = last_kind;

        // ---- step 3: requests that went on the wire in this poll
        // Timeout futures are created by send_message in the order the background forwards the
        // requests (submission order): a Busy refusal creates none, a request that was accepted
        // but could not be written to the outbound handle has one without a wire message.
        let new_timers: Vec<usize> = (timers_before..timers_len()).collect();
        let on_wire_now: Vec<usize> = new_wire
            .iter()
            .filter_map(|m| wirekit::request_view(m.bytes()))
            .filter_map(|(_, qs)| qs.first().and_then(|q| q.name.first().cloned()))
            .filter_map(|lab| std::str::from_utf8(&lab[1..]).ok().and_then(|s| s.parse::<usize>().ok()))
            .collect();
        let mut timer_of: Vec<Option<usize>> = vec![None; n];
        let mut next_timer = 0usize;
        // first look at the callers of the requests that did not reach the wire
        let mut seen: Vec<Option<(Option<String>, bool)>> = vec![None; n];
        for i in 0..n {
            if self.reqs[i].state == XState::Submitted && !on_wire_now.contains(&i) && self.reqs[i].rx.is_some() {
                let (_, err, ended) = self.observe(i);
                seen[i] = Some((err, ended));
            }
        }
        // the background forwards everything that waits in one go (it loops until the channel is
        // empty): if it took one request it took all of them
        let any_taken = !on_wire_now.is_empty() || seen.iter().flatten().any(|(e, end)| e.is_some() || *end);
        for i in 0..n {
            if self.reqs[i].state != XState::Submitted {
                continue;
            }
            if on_wire_now.contains(&i) {
                timer_of[i] = new_timers.get(next_timer).copied();
                next_timer += 1;
                continue;
            }
            let (refused, busy) = match &seen[i] {
                Some((err, ended)) if err.is_some() || *ended => (true, err.as_deref().map(|e| e.contains("busy")).unwrap_or(false) || err.is_none()),
                Some(_) => (false, false),
                // the caller is gone: with a 0-message outbound buffer everything forwarded after
                // the first message of this poll is lost at the handle, otherwise only Busy
                // keeps a forwarded request off the wire
                None => (any_taken, !self.cfg.wire0),
            };
            if refused {
                if !busy {
                    next_timer += 1; // accepted by the multiplexer (timeout created), lost at the outbound handle
                }
                self.reqs[i].state = XState::Refused;
                if let Some(l) = l.as_deref_mut() {
                    l.outcome(if busy { "ex:request-refused-busy" } else { "ex:request-failed-at-the-outbound-handle" });
                }
            }
        }
        if next_timer != new_timers.len() {
            if let Some(l) = l.as_deref_mut() {
                l.outcome("obs:ex-timers-and-forwarded-requests-differ");
            }
        }
        for (_w, m) in new_wire.iter().enumerate() {
            let Some((id, qs)) = wirekit::request_view(m.bytes()) else { continue };
            let who = qs.first().and_then(|q| q.name.first()).and_then(|lab| std::str::from_utf8(&lab[1..]).ok().and_then(|s| s.parse::<usize>().ok()));
            let Some(i) = who.filter(|i| *i < n) else {
                return Err(fnd("exchange-unscripted-wire-message".into(), "a message went on the wire that no submitted request explains".into()));
            };
            if self.reqs[i].state != XState::Submitted {
                return Err(fnd("exchange-request-sent-twice".into(), format!("request {i} went on the wire although it is {:?}", self.reqs[i].state)));
            }
            for j in 0..n {
                if j != i && self.reqs[j].timer.is_some() && self.reqs[j].id == id {
                    if self.live(j) {
                        return Err(fnd("stream-inflight-id-collision".into(), format!("request {i} was sent with id {id:#06x} while request {j} with the same id is in flight")));
                    }
                    return Err(StepErr::Restart);
                }
            }
            self.sh.lock().unwrap().ids.push(id);
            self.reqs[i].id = id;
            self.reqs[i].timer = timer_of[i];
            // a request whose caller is gone already is dropped by the sweep that follows
            self.reqs[i].state = if self.reqs[i].cancelled { XState::Cancelled } else { XState::Live };
            if let Some(l) = l.as_deref_mut() {
                l.outcome(if self.closed { "ex:request-sent-after-close" } else { "ex:request-sent" });
            }
        }

        // ---- observe the callers' streams
        for i in 0..n {
            if self.reqs[i].rx.is_none() || self.reqs[i].terminated {
                continue;
            }
            let (got, err, ended) = self.observe(i);
            let my_id = self.reqs[i].id;
            let on_wire = self.reqs[i].timer.is_some();
            for (id, m) in &got {
                if !on_wire || *id != my_id {
                    let scene = match m.and_then(|m| self.log.iter().find(|e| e.0 == m).map(|e| e.1)) {
                        None => "unscripted",
                        Some(None) => "unknown-id",
                        Some(Some(j)) if self.live(j) || exp_err[j] => "other-pending-request",
                        Some(Some(_)) => "late-response",
                    };
                    return Err(fnd(format!("exchange-misrouted-response:{scene}"), format!("request {i} (id {my_id:#06x}, on the wire: {on_wire}) received a response carrying id {id:#06x}")));
                }
            }
            let markers: Vec<[u8; 4]> = got.iter().filter_map(|g| g.1).collect();
            if strict[i] {
                if markers != exp[i] {
                    let key = if markers.len() < exp[i].len() { "exchange-response-not-delivered" } else { "exchange-unexpected-response" };
                    return Err(fnd(key.into(), format!("request {i} is pending, {} response(s) with its id were read from the connection, {} reached its caller", exp[i].len(), markers.len())));
                }
                if exp_err[i] && err.is_none() {
                    return Err(fnd("exchange-closed-connection-request-not-failed".into(), format!("the connection closed while request {i} was pending, its stream yielded no error (ended={ended})")));
                }
                if !exp_err[i] && (err.is_some() || ended) {
                    return Err(fnd("exchange-pending-request-terminated".into(), format!("request {i} is pending on an open connection but its stream yielded {err:?} / ended={ended}")));
                }
                if let Some(l) = l.as_deref_mut() {
                    if !markers.is_empty() {
                        l.outcome("ex:response-delivered");
                    }
                    if exp_err[i] {
                        l.outcome("ex:pending-failed-on-close");
                    }
                }
            } else if fired_now[i] {
                let mut pool = offered[i].clone();
                for m in &markers {
                    match pool.iter().position(|p| p == m) {
                        Some(p) => {
                            pool.remove(p);
                        }
                        None => return Err(fnd("exchange-unexpected-response".into(), format!("timed-out request {i} received a response the connection did not carry for it"))),
                    }
                }
                if let Some(l) = l.as_deref_mut() {
                    l.outcome(if err.is_some() || ended { "ex:timed-out-request-ended" } else { "obs:ex-timed-out-request-still-pending" });
                }
            } else if !markers.is_empty() {
                return Err(fnd("exchange-response-after-removal".into(), format!("request {i} ({:?}) is not pending on the wire but received {} response(s)", self.reqs[i].state, markers.len())));
            } else if self.reqs[i].state == XState::Submitted && (err.is_some() || ended) {
                // taken by the background, nothing on the wire, stream failed: refused (Busy)
                self.reqs[i].state = XState::Refused;
                if let Some(l) = l.as_deref_mut() {
                    l.outcome(if err.as_deref().map(|e| e.contains("busy")).unwrap_or(false) { "ex:request-refused-busy" } else { "ex:request-failed-before-wire" });
                }
            }
            self.reqs[i].got += markers.len() as u32;
        }

        // ---- the background future completed: a runtime drops the finished task
        if pr.is_ready() {
            self.bg = None;
            self.due = false;
            if let Some(l) = l.as_deref_mut() {
                l.outcome(if self.closed { "ex:task-ended-after-close" } else { "ex:task-ended-after-shutdown" });
            }
            return self.nobody_hangs("the background future has completed and was dropped", "exchange-request-hangs-after-connection-task-ended");
        }
        if self.closed {
            // the multiplexer has seen the close: "a closed connection fails every pending request"
            return self.nobody_hangs("the connection is closed", "exchange-closed-connection-keeps-request-pending");
        }

        // ---- wake-driven clauses
        if self_woken {
            self.due = true;
        }
        if self.cfg.wd && !self.due {
            let (avail, reg) = {
                let g = self.sh.lock().unwrap();
                (!g.ended && !g.q.is_empty(), g.registered.is_some())
            };
            if avail && !reg {
                return Err(fnd(
                    format!("exchange-lost-wakeup:{}", self.last_scene),
                    format!("the background future returned Pending ({}; {consumed} message(s) read) while inbound items are available, no read waker is registered and it did not wake itself", self.last_scene),
                ));
            }
            if let Some(f) = self.stuck() {
                return Err(StepErr::Finding(f));
            }
        }
        Ok(())
    }
}

pub const NOT_ENABLED: &str = "history-not-executable";

pub fn replay(cfg: XCfg, hist: &[XEv], mut l: Option<&mut Local>) -> Result<ExSys, (usize, Finding)> {
    'attempt: for _ in 0..16 {
        let mut sys = ExSys::new(cfg);
        for (n, ev) in hist.iter().enumerate() {
            let ll = if n + 1 == hist.len() { l.as_deref_mut() } else { None };
            if !sys.enabled().contains(ev) {
                return Err((n, Finding { key: NOT_ENABLED.into(), what: format!("event {} is not enabled at step {n}", ev.name()) }));
            }
            match sys.apply(*ev, ll) {
                Ok(()) => {}
                Err(StepErr::Restart) => continue 'attempt,
                Err(StepErr::Finding(f)) => return Err((n, f)),
            }
        }
        return Ok(sys);
    }
    Err((0, Finding { key: "stream-id-reuse-storm".into(), what: "16 consecutive runs drew an already used id".into() }))
}

pub fn report(ctx: &Ctx, l: &mut Local, cfg: XCfg, hist: &[XEv], step: usize, f: Finding) {
    match replay(cfg, hist, None) {
        Err((s2, f2)) if s2 == step && f2.key == f.key => {}
        _ => {
            ctx.machinery_failure(&format!("nondeterminism: failing history {} did not reproduce", case_json(&cfg, hist)));
            return;
        }
    }
    l.violation(&f.key, &f.what, || {
        let mut j = case_json(&cfg, &hist[..=step]);
        j["failed_at_step"] = json!(step);
        j
    });
}

pub fn configs(thorough: bool) -> Vec<(Vec<XCfg>, usize)> {
    let c = |k, max_active, qmax, wd| XCfg { k, max_active, qmax, wd, wire0: false };
    let w0 = |k, qmax, wd| XCfg { k, max_active: 32, qmax, wd, wire0: true };
    if thorough {
        vec![
            (vec![c(3, 32, 2, false), c(3, 1, 2, false), c(3, 2, 2, false), c(2, 32, 3, false), c(2, 0, 2, false), w0(3, 2, false)], 12),
            (vec![c(3, 32, 2, true), c(3, 1, 2, true), c(3, 2, 2, true), c(2, 32, 3, true), c(2, 0, 2, true), w0(3, 2, true)], 13),
        ]
    } else {
        vec![
            (vec![c(2, 32, 2, false), c(2, 1, 2, false), c(3, 32, 1, false), c(2, 0, 1, false), w0(3, 1, false)], 9),
            (vec![c(2, 32, 2, true), c(2, 1, 2, true), c(3, 32, 1, true), c(2, 0, 1, true), w0(3, 1, true)], 10),
        ]
    }
}

pub fn run(ctx: &Ctx) {
    let thorough = !ctx.quick();
    let mut summary = vec![];
    for (cfgs, depth) in configs(thorough) {
        let roots: Vec<(XNode, Vec<u8>)> = cfgs.iter().map(|c| (XNode { cfg: *c, hist: vec![] }, ExSys::new(*c).key())).collect();
        let stats = vcore::bfs(ctx, roots, depth, |node, l| {
            let parent = match replay(node.cfg, &node.hist, None) {
                Ok(s) => s,
                Err(_) => {
                    ctx.machinery_failure(&format!("nondeterminism: history {} failed only when re-executed as a prefix", case_json(&node.cfg, &node.hist)));
                    return vec![];
                }
            };
            let evs = parent.enabled();
            drop(parent);
            let mut out = vec![];
            for ev in evs {
                let mut h = node.hist.clone();
                h.push(ev);
                l.eval();
                match replay(node.cfg, &h, Some(l)) {
                    Ok(sys) => {
                        let key = sys.key();
                        if sys.live_count() >= 2 {
                            l.nontrivial(fnv64(&key) ^ 0x5eed);
                        }
                        if fnv64(format!("{h:?}").as_bytes()) % 8 == 0 {
                            match replay(node.cfg, &h, None) {
                                Ok(s2) if s2.key() == key => {}
                                _ => ctx.machinery_failure(&format!("nondeterminism: history {} gave two different states", case_json(&node.cfg, &h))),
                            }
                        }
                        out.push((XNode { cfg: node.cfg, hist: h }, key));
                    }
                    Err((step, f)) => {
                        if step != h.len() - 1 || f.key == NOT_ENABLED {
                            ctx.machinery_failure(&format!("nondeterminism: history {} failed at prefix step {step}", case_json(&node.cfg, &h)));
                        } else {
                            report(ctx, l, node.cfg, &h, step, f);
                        }
                    }
                }
            }
            out
        });
        ctx.traces_validated.fetch_add(stats.transitions, Ordering::SeqCst);
        summary.push(json!({
            "configs": cfgs.iter().map(|c| json!({"k": c.k, "max_active": c.max_active, "qmax": c.qmax, "wake_driven": c.wd, "wire_buffer_0": c.wire0})).collect::<Vec<_>>(),
            "depth": stats.depth_completed, "states": stats.states, "transitions": stats.transitions, "fixpoint": stats.fixpoint,
            "states_per_depth": stats.per_depth,
        }));
    }
    ctx.set("exchange_families", json!(summary));
}

#[allow(dead_code)]
fn _assert_future<T: Future>(_: &T) {}
