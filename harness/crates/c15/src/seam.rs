//! C15 seam family: the code that DECIDES what is cached under which query and with which TTL —
//! `hickory_resolver::caching_client::CachingClient` (CNAME chain handling, `cname()` / `cache()`
//! inserts, negative caching with the SOA-derived TTL of `DnsResponse::negative_ttl`,
//! `DnsError::from_response`, `Lookup::valid_until`) — driven through its public `lookup()` over a
//! scripted upstream `DnsHandle`.
//!
//! `CachingClient` reads `Instant::now()` itself and its cache is private, so time is REAL here:
//! every world is looked up in rounds at nominal offsets 0, 0+, 1.15 s, 2.15 s, 3.15 s; only LOWER
//! bounds on the age of an entry are used (age >= start of this lookup - end of the lookup that
//! last fetched the query upstream), so a stalled process can never cause a false alarm.
//!
//! Ground truth = the upstream world (every record has one TTL). Judged:
//! * a lookup answered WITHOUT an upstream query (served from cache) while the age lower bound
//!   exceeds L: L = smallest upstream TTL among the served ANSWER records of the query type or
//!   CNAME; negative: min(SOA TTL, SOA.minimum) (RFC 2308 5), 0 without SOA;
//! * a served record TTL above its upstream TTL - whole seconds of the age lower bound;
//! * `Lookup::valid_until` later than end of lookup + (L - whole seconds of the age lower bound);
//! * an upstream failure (SERVFAIL, REFUSED, timeout, busy) answered from the cache afterwards.
//! * an alias answer produced from ONE upstream response (exactly one upstream query) and served from
//!   the cache after the TTL of ANY alias link of that response, or handed out with a
//!   `Lookup::valid_until` beyond it, even when the CNAMEs are filtered out of the served records.
//!   This clause rests on reading "the entry's records" as the records of the response that was
//!   cached (hickory's own documented intent, test `cname_alias_bounds_cache_lifetime`).
//! Logged only: an alias answer served after the TTL of a CNAME of an EARLIER response of the chain
//! that is no longer among the served records (`preserve_intermediates = false`, several hops).

use std::collections::HashMap;
use std::pin::Pin;
use std::str::FromStr;
use std::sync::{Arc, Mutex};
use std::time::{Duration, Instant};

use futures_util::stream::{self, Stream};
use hickory_net::runtime::TokioRuntimeProvider;
use hickory_net::{DnsError, DnsHandle, NetError};
use hickory_proto::op::{DnsRequest, DnsRequestOptions, DnsResponse, Message, MessageType, OpCode, Query, ResponseCode};
use hickory_proto::rr::rdata::{A, AAAA, CNAME, NS, SOA, SRV, TXT};
use hickory_proto::rr::{Name, RData, Record, RecordType};
use hickory_resolver::caching_client::CachingClient;
use hickory_resolver::config::{ConnectionConfig, LookupIpStrategy, NameServerConfig, ResolveHosts, ResolverConfig};
use hickory_resolver::{ConnectionProvider, PoolContext, Resolver};
use hickory_resolver::lookup_ip::LookupIpFuture;
use hickory_resolver::Hosts;
use serde_json::{json, Value};
use vcore::Local;

fn n(s: &str) -> Name {
    Name::from_str(s).unwrap()
}

#[derive(Clone, Debug)]
enum Reply {
    /// answers, authorities, additionals, rcode
    Msg(Vec<Record>, Vec<Record>, Vec<Record>, ResponseCode),
    /// the handle itself fails
    Fail(&'static str),
}

#[derive(Clone, Debug, PartialEq)]
enum Outcome {
    Positive,
    /// (SOA ttl, SOA minimum) if the answer carries an SOA
    Negative(Option<(u32, u32)>),
    Transient,
}

#[derive(Clone)]
struct Upstream {
    table: Arc<Vec<(Query, Reply)>>,
    calls: Arc<Mutex<Vec<u32>>>,
    /// knob: what the handle answers to `is_verifying_dnssec()` (CachingClient drops the negative TTL then)
    verifying: bool,
    /// answer like the single authoritative server of a tiny internet (root and zone `z.` on one address):
    /// AA set, NS queries for `.` / `z.` answered with `ns.z.` + glue
    authority: Option<std::net::Ipv4Addr>,
}

impl DnsHandle for Upstream {
    type Response = Pin<Box<dyn Stream<Item = Result<DnsResponse, NetError>> + Send>>;
    type Runtime = TokioRuntimeProvider;

    fn is_verifying_dnssec(&self) -> bool {
        self.verifying
    }

    fn send(&self, request: DnsRequest) -> Self::Response {
        let q = request.queries[0].clone();
        let idx = self.table.iter().position(|(tq, _)| tq.name == q.name && tq.query_type == q.query_type);
        let mut m = Message::new(request.id, MessageType::Response, OpCode::Query);
        m.add_query(q);
        let reply = match idx {
            Some(i) => {
                self.calls.lock().unwrap()[i] += 1;
                self.table[i].1.clone()
            }
            None => match self.authority {
                None => Reply::Msg(vec![], vec![], vec![], ResponseCode::Refused),
                Some(ip) => {
                    m.metadata.authoritative = true;
                    let qn = m.queries[0].name.clone();
                    let glue = Record::from_rdata(n("ns.z."), 3600, RData::A(A(ip)));
                    if m.queries[0].query_type == RecordType::NS && (qn.is_root() || qn == n("z.")) {
                        Reply::Msg(vec![Record::from_rdata(qn, 3600, RData::NS(NS(n("ns.z."))))], vec![], vec![glue], ResponseCode::NoError)
                    } else if m.queries[0].query_type == RecordType::A && qn == n("ns.z.") {
                        Reply::Msg(vec![glue], vec![], vec![], ResponseCode::NoError)
                    } else {
                        Reply::Msg(vec![], vec![Record::from_rdata(n("z."), 3600, RData::SOA(SOA::new(n("ns.z."), n("h.z."), 1, 7200, 3600, 86400, 3600)))], vec![], ResponseCode::NoError)
                    }
                }
            },
        };
        if self.authority.is_some() {
            m.metadata.authoritative = true;
        }
        let res = match reply {
            Reply::Msg(an, au, ad, rcode) => {
                m.metadata.response_code = rcode;
                m.add_answers(an);
                m.add_authorities(au);
                m.add_additionals(ad);
                DnsResponse::from_message(m).map_err(NetError::from)
            }
            Reply::Fail("timeout") => Err(NetError::Timeout),
            Reply::Fail(_) => Err(NetError::Busy),
        };
        Box::pin(stream::once(async move { res }))
    }
}

struct World {
    label: String,
    table: Vec<(Query, Reply)>,
    outcome: Vec<Outcome>,
    /// smallest TTL along the alias chain starting at the node, incl. the final RRset / negative TTL
    chain_l: Vec<Option<u64>>,
    /// smallest TTL among the CNAME(s) and the final RRset when both arrive in the node's OWN response
    /// (the alias is then one of the records of the very response that is cached)
    same_response_l: Vec<Option<u64>>,
    preserve: bool,
    /// knobs: request options (0 default, 1 RD=0, 2 DO=1), DNSSEC-verifying handle
    opts: u8,
    verifying: bool,
}

fn options(k: u8) -> DnsRequestOptions {
    let mut o = DnsRequestOptions::default();
    match k {
        1 => o.recursion_desired = false,
        2 => o.edns_set_dnssec_ok = true,
        _ => {}
    }
    o
}

fn a_rec(owner: &str, ttl: u32, k: u8) -> Record {
    Record::from_rdata(n(owner), ttl, RData::A(A::new(10, 9, k, owner.as_bytes()[0])))
}
fn cname_rec(owner: &str, target: &str, ttl: u32) -> Record {
    Record::from_rdata(n(owner), ttl, RData::CNAME(CNAME(n(target))))
}
fn soa_rec(ttl: u32, minimum: u32) -> Record {
    Record::from_rdata(n("z."), ttl, RData::SOA(SOA::new(n("ns.z."), n("h.z."), 1, 7200, 3600, 86400, minimum)))
}

fn worlds(thorough: bool) -> Vec<World> {
    let t: Vec<u32> = if thorough { vec![0, 1, 2, 3, 9] } else { vec![0, 1, 2, 9] };
    let t3: Vec<u32> = if thorough { vec![1, 2, 3, 9] } else { vec![1, 2, 9] };
    let qa = |name: &str| Query::new(n(name), RecordType::A);
    let pos = |an: Vec<Record>| Reply::Msg(an, vec![], vec![], ResponseCode::NoError);
    let mut raw: Vec<(String, Vec<(Query, Reply)>)> = vec![];
    for &a in &t {
        raw.push((format!("direct a={a}"), vec![(qa("n.z."), pos(vec![a_rec("n.z.", a, 1)]))]));
    }
    for (a, b) in [(1u32, 9u32), (9, 1), (2, 2)] {
        raw.push((format!("direct2 a={a} b={b}"), vec![(qa("n.z."), pos(vec![a_rec("n.z.", a, 1), a_rec("n.z.", b, 2)]))]));
    }
    for &c in &t {
        for &a in &t {
            raw.push((
                format!("chain-one-response c={c} a={a}"),
                vec![(qa("n.z."), pos(vec![cname_rec("n.z.", "t.z.", c), a_rec("t.z.", a, 1)])), (qa("t.z."), pos(vec![a_rec("t.z.", a, 1)]))],
            ));
            raw.push((
                format!("chain-two-hops c={c} a={a}"),
                vec![(qa("n.z."), pos(vec![cname_rec("n.z.", "t.z.", c)])), (qa("t.z."), pos(vec![a_rec("t.z.", a, 1)]))],
            ));
        }
    }
    for &c1 in &t3 {
        for &c2 in &t3 {
            for &a in &t3 {
                raw.push((
                    format!("chain-three-hops c1={c1} c2={c2} a={a}"),
                    vec![
                        (qa("n.z."), pos(vec![cname_rec("n.z.", "t.z.", c1)])),
                        (qa("t.z."), pos(vec![cname_rec("t.z.", "u.z.", c2)])),
                        (qa("u.z."), pos(vec![a_rec("u.z.", a, 1)])),
                    ],
                ));
            }
        }
    }
    for rcode in [ResponseCode::NXDomain, ResponseCode::NoError] {
        for &s in &t {
            for &m in &t {
                raw.push((format!("negative {rcode:?} soa_ttl={s} minimum={m}"), vec![(qa("n.z."), Reply::Msg(vec![], vec![soa_rec(s, m)], vec![], rcode))]));
            }
        }
        raw.push((format!("negative {rcode:?} without SOA"), vec![(qa("n.z."), Reply::Msg(vec![], vec![], vec![], rcode))]));
    }
    for &c in &t3 {
        for &s in &t3 {
            for &m in &t3 {
                raw.push((
                    format!("chain-to-negative c={c} soa_ttl={s} minimum={m}"),
                    vec![(qa("n.z."), pos(vec![cname_rec("n.z.", "t.z.", c)])), (qa("t.z."), Reply::Msg(vec![], vec![soa_rec(s, m)], vec![], ResponseCode::NXDomain))],
                ));
            }
        }
    }
    for (label, r) in [
        ("servfail", Reply::Msg(vec![], vec![], vec![], ResponseCode::ServFail)),
        ("servfail-with-soa", Reply::Msg(vec![], vec![soa_rec(9, 9)], vec![], ResponseCode::ServFail)),
        ("refused", Reply::Msg(vec![], vec![], vec![], ResponseCode::Refused)),
        ("timeout", Reply::Fail("timeout")),
        ("busy", Reply::Fail("busy")),
    ] {
        raw.push((format!("transient {label}"), vec![(qa("n.z."), r.clone())]));
        raw.push((format!("chain-to-transient {label}"), vec![(qa("n.z."), pos(vec![cname_rec("n.z.", "t.z.", 9)])), (qa("t.z."), r)]));
    }
    for (x, g) in [(1u32, 9u32), (9, 1)] {
        raw.push((
            format!("with-sections ns_ttl={x} glue_ttl={g}"),
            vec![(
                qa("n.z."),
                Reply::Msg(
                    vec![a_rec("n.z.", 9, 1)],
                    vec![Record::from_rdata(n("z."), x, RData::NS(NS(n("ns.z."))))],
                    vec![a_rec("ns.z.", g, 3)],
                    ResponseCode::NoError,
                ),
            )],
        ));
    }
    for &c in &t {
        raw.push((format!("cname-query c={c}"), vec![(Query::new(n("n.z."), RecordType::CNAME), pos(vec![cname_rec("n.z.", "t.z.", c)]))]));
    }

    // audit round: more response shapes
    {
        let nx = ResponseCode::NXDomain;
        let ok = ResponseCode::NoError;
        // several SOAs in the authority section / an SOA in the ANSWER section of a negative reply
        for (s1, s2) in [((9u32, 1u32), (1u32, 9u32)), ((1, 1), (9, 9)), ((9, 9), (1, 1)), ((2, 9), (9, 2))] {
            raw.push((format!("negative two-SOAs {s1:?} {s2:?}"), vec![(qa("n.z."), Reply::Msg(vec![], vec![soa_rec(s1.0, s1.1), soa_rec(s2.0, s2.1)], vec![], nx))]));
        }
        for (s, m) in [(1u32, 9u32), (9, 1), (2, 2)] {
            raw.push((format!("negative SOA-in-answer soa_ttl={s} minimum={m}"), vec![(qa("n.z."), Reply::Msg(vec![soa_rec(s, m)], vec![], vec![], ok))]));
        }
        // CNAME + SOA in one response (alias to NODATA / NXDOMAIN), CNAME TTL below / above the negative TTL
        for rcode in [nx, ok] {
            for (c, s, m) in [(1u32, 9u32, 9u32), (9, 1, 9), (9, 9, 1), (2, 2, 2)] {
                raw.push((
                    format!("cname-plus-soa {rcode:?} c={c} soa_ttl={s} minimum={m}"),
                    vec![
                        (qa("n.z."), Reply::Msg(vec![cname_rec("n.z.", "t.z.", c)], vec![soa_rec(s, m)], vec![], rcode)),
                        (qa("t.z."), Reply::Msg(vec![], vec![soa_rec(s, m)], vec![], rcode)),
                    ],
                ));
            }
        }
        // referral-like: NS in the authority section, glue, no SOA, empty answer; the glue name looked up later
        for g in [1u32, 9] {
            raw.push((
                format!("referral-like glue_ttl={g}"),
                vec![
                    (qa("n.z."), Reply::Msg(vec![], vec![Record::from_rdata(n("z."), 9, RData::NS(NS(n("ns.z."))))], vec![a_rec("ns.z.", g, 3)], ok)),
                    (qa("ns.z."), pos(vec![a_rec("ns.z.", g, 3)])),
                ],
            ));
            // positive answer with glue: the additional-section name looked up directly later
            raw.push((
                format!("with-sections-and-glue-lookup glue_ttl={g}"),
                vec![
                    (qa("n.z."), Reply::Msg(vec![a_rec("n.z.", 9, 1)], vec![Record::from_rdata(n("z."), 9, RData::NS(NS(n("ns.z."))))], vec![a_rec("ns.z.", g, 3)], ok)),
                    (qa("ns.z."), pos(vec![a_rec("ns.z.", g, 3)])),
                ],
            ));
        }
        // alias loop and a chain longer than the client follows (depth exhausted)
        raw.push(("alias-loop".into(), vec![(qa("n.z."), pos(vec![cname_rec("n.z.", "t.z.", 9)])), (qa("t.z."), pos(vec![cname_rec("t.z.", "n.z.", 9)]))]));
        {
            let names: Vec<String> = (0..10).map(|i| format!("h{i}.z.")).collect();
            let mut table = vec![];
            for i in 0..9 {
                table.push((qa(&names[i]), pos(vec![cname_rec(&names[i], &names[i + 1], 300)])));
            }
            table.push((qa(&names[9]), pos(vec![a_rec(&names[9], 300, 1)])));
            raw.push(("alias-chain-of-9-responses".into(), table));
        }
        // SRV (its own arm of the chain fold) and ANY
        for (st, at) in [(2u32, 1u32), (1, 9)] {
            raw.push((
                format!("srv ttl={st} target_a_ttl={at}"),
                vec![(
                    Query::new(n("n.z."), RecordType::SRV),
                    Reply::Msg(vec![Record::from_rdata(n("n.z."), st, RData::SRV(SRV::new(0, 0, 53, n("t.z."))))], vec![], vec![a_rec("t.z.", at, 1)], ok),
                )],
            ));
        }
        raw.push((
            "any a=2 txt=9".into(),
            vec![(
                Query::new(n("n.z."), RecordType::ANY),
                pos(vec![a_rec("n.z.", 2, 1), Record::from_rdata(n("n.z."), 9, RData::TXT(TXT::new(vec!["x".to_string()])))]),
            )],
        ));
    }

    // alias chains of 1, 2 and 3 links: EVERY assignment of TTLs from {1, 2, 300} to the links and the
    // terminal record (so the minimum sits on every possible position), x record order in the answer
    // section, in ONE response and split over two responses after every link
    {
        let ttls = [1u32, 2, 300];
        let owners = ["n.z.", "a1.z.", "a2.z.", "a3.z."];
        // records of the sub-chain links from..k plus the terminal, in the given order style
        let sub = |assign: &[u32], from: usize, upto: usize, with_terminal: bool, order: &str| -> Vec<Record> {
            let k = assign.len() - 1;
            let mut v: Vec<Record> = (from..upto).map(|i| cname_rec(owners[i], owners[i + 1], assign[i])).collect();
            if with_terminal {
                let term = a_rec(owners[k], assign[k], 1);
                match order {
                    "terminal-first" => v.insert(0, term),
                    _ => v.push(term),
                }
            }
            if order == "reversed" {
                v.reverse();
            }
            v
        };
        for k in 1..=3usize {
            let mut assigns: Vec<Vec<u32>> = vec![vec![]];
            for _ in 0..=k {
                assigns = assigns.into_iter().flat_map(|a| ttls.iter().map(move |t| { let mut b = a.clone(); b.push(*t); b })).collect();
            }
            for assign in &assigns {
                for order in ["chain-order", "reversed", "terminal-first"] {
                    // one response: the alias and every intermediate name answer with their whole sub-chain
                    let mut table = vec![];
                    for from in 0..=k {
                        table.push((qa(owners[from]), pos(sub(assign, from, k, true, order))));
                    }
                    raw.push((format!("chain{k}-one-response ttls={assign:?} order={order}"), table));
                }
                // split after link s: the first response carries links 1..s only
                let split_orders: &[&str] = if thorough { &["chain-order", "terminal-first", "reversed"] } else { &["chain-order", "terminal-first"] };
                for s in 1..=k {
                    if k == 1 && !thorough {
                        continue; // the two-hop worlds above
                    }
                    for order in split_orders {
                        let mut table = vec![];
                        for from in 0..s {
                            table.push((qa(owners[from]), pos(sub(assign, from, s, false, order))));
                        }
                        for from in s..=k {
                            table.push((qa(owners[from]), pos(sub(assign, from, k, true, order))));
                        }
                        raw.push((format!("chain{k}-split-after-link{s} ttls={assign:?} order={order}"), table));
                    }
                }
            }
        }
    }

    let mut out = vec![];
    for (label, table) in raw {
        // ground truth per node
        let find = |name: &Name, rt: RecordType| table.iter().position(|(q, _)| &q.name == name && q.query_type == rt);
        let mut outcome = vec![];
        let mut chain_l = vec![];
        let mut same_response_l = vec![];
        for (q, _) in &table {
            let mut cur = find(&q.name, q.query_type);
            let mut l: Option<u64> = None;
            let mut oc = Outcome::Transient;
            let mut hops = 0;
            let mut same: Option<u64> = None;
            while let Some(i) = cur {
                hops += 1;
                // the truth follows the chain as far as it goes (how deep the client follows is its policy); a
                // loop has no answer
                if hops > 32 {
                    break;
                }
                cur = None;
                match &table[i].1 {
                    Reply::Fail(_) => oc = Outcome::Transient,
                    Reply::Msg(an, au, _, rcode) => {
                        if !matches!(rcode, ResponseCode::NoError | ResponseCode::NXDomain) {
                            oc = Outcome::Transient;
                            break;
                        }
                        // follow the alias links of THIS response in whatever order its records come
                        let mut owner = table[i].0.name.clone();
                        let mut found_final = false;
                        let mut aliased = false;
                        for _ in 0..8 {
                            let finals: Vec<&Record> = an.iter().filter(|r| r.name == owner && (r.record_type() == q.query_type || (q.query_type == RecordType::ANY && r.record_type() != RecordType::CNAME))).collect();
                            if !finals.is_empty() {
                                for r in finals {
                                    l = Some(l.map_or(r.ttl as u64, |x| x.min(r.ttl as u64)));
                                }
                                found_final = true;
                                break;
                            }
                            let link = an.iter().find_map(|r| match &r.data {
                                RData::CNAME(c) if r.name == owner => Some((r.ttl as u64, c.0.clone())),
                                _ => None,
                            });
                            match link {
                                Some((ttl, target)) => {
                                    l = Some(l.map_or(ttl, |x| x.min(ttl)));
                                    owner = target;
                                    aliased = true;
                                }
                                None => break,
                            }
                        }
                        if found_final {
                            if hops == 1 && aliased {
                                same = l;
                            }
                            oc = Outcome::Positive;
                        } else if aliased {
                            cur = find(&owner, q.query_type);
                            oc = Outcome::Transient; // unless the target resolves
                        } else {
                            // with several SOAs (or an SOA in the answer section) the statement does not say
                            // which one counts: the weakest bound = the largest min(TTL, MINIMUM) of them
                            let soa = an
                                .iter()
                                .chain(au.iter())
                                .filter_map(|r| match &r.data {
                                    RData::SOA(s) => Some(r.ttl.min(s.minimum)),
                                    _ => None,
                                })
                                .max()
                                .map(|v| (v, v));
                            let nl = soa.map(|(s, m)| s.min(m) as u64).unwrap_or(0);
                            l = Some(l.map_or(nl, |x| x.min(nl)));
                            oc = Outcome::Negative(soa);
                        }
                    }
                }
            }
            outcome.push(oc);
            chain_l.push(l);
            same_response_l.push(same);
        }
        // the enumerated alias-chain worlds run with default options; the others with every request-option
        // variant; negative / failing worlds also over a handle that claims to verify DNSSEC
        let enumerated_chain = label.starts_with("chain1-") || label.starts_with("chain2-") || label.starts_with("chain3-");
        let has_negative = outcome.iter().any(|o| !matches!(o, Outcome::Positive));
        for preserve in [false, true] {
            for opts in if enumerated_chain { 0..1u8 } else { 0..3u8 } {
                for verifying in if has_negative && opts == 0 { vec![false, true] } else { vec![false] } {
                    out.push(World {
                        label: format!("{label} preserve_intermediates={preserve} opts={opts} verifying={verifying}"),
                        table: table.clone(),
                        outcome: outcome.clone(),
                        chain_l: chain_l.clone(),
                        same_response_l: same_response_l.clone(),
                        preserve,
                        opts,
                        verifying,
                    });
                }
            }
        }
    }
    out
}

/// lookup_ip layer: A and AAAA lookups merged by `LookupIpFuture` (`Lookup::append`: the sooner deadline)
struct IpWorld {
    label: String,
    table: Vec<(Query, Reply)>,
    /// lifetime of node 0 = (n, A) and node 1 = (n, AAAA): smallest TTL, or the negative TTL
    node_l: [u64; 2],
    strategy: LookupIpStrategy,
}

fn ip_worlds() -> Vec<IpWorld> {
    let aaaa = |ttl: u32| Record::from_rdata(n("n.z."), ttl, RData::AAAA(AAAA::new(0x2001, 0xdb8, 0, 0, 0, 0, 0, 1)));
    let nodata = |s: u32| Reply::Msg(vec![], vec![soa_rec(s, s)], vec![], ResponseCode::NoError);
    let pos = |an: Vec<Record>| Reply::Msg(an, vec![], vec![], ResponseCode::NoError);
    let mut shapes: Vec<(String, Reply, u64, Reply, u64)> = vec![];
    for a in [1u32, 2, 300] {
        for b in [1u32, 2, 300] {
            shapes.push((format!("a={a} aaaa={b}"), pos(vec![a_rec("n.z.", a, 1)]), a as u64, pos(vec![aaaa(b)]), b as u64));
        }
    }
    shapes.push(("a=300 aaaa=nodata(2)".into(), pos(vec![a_rec("n.z.", 300, 1)]), 300, nodata(2), 2));
    shapes.push(("a=nodata(2) aaaa=1".into(), nodata(2), 2, pos(vec![aaaa(1)]), 1));
    shapes.push(("a=nodata(1) aaaa=nodata(2)".into(), nodata(1), 1, nodata(2), 2));
    let mut out = vec![];
    for (label, ra, la, rb, lb) in shapes {
        for strategy in [
            LookupIpStrategy::Ipv4Only,
            LookupIpStrategy::Ipv6Only,
            LookupIpStrategy::Ipv4AndIpv6,
            LookupIpStrategy::Ipv6AndIpv4,
            LookupIpStrategy::Ipv4thenIpv6,
            LookupIpStrategy::Ipv6thenIpv4,
        ] {
            out.push(IpWorld {
                label: format!("lookup_ip {label} strategy={strategy:?}"),
                table: vec![(Query::new(n("n.z."), RecordType::A), ra.clone()), (Query::new(n("n.z."), RecordType::AAAA), rb.clone())],
                node_l: [la, lb],
                strategy,
            });
        }
    }
    out
}

struct Live {
    client: CachingClient<Upstream>,
    calls: Arc<Mutex<Vec<u32>>>,
    /// end of the last lookup during which the node was fetched upstream
    last_fetch_end: Vec<Option<Instant>>,
    /// that lookup sent exactly ONE upstream query (the answer was produced from one response)
    last_fetch_alone: Vec<bool>,
    /// end of the world's first round: the later rounds are due relative to it
    t0: Option<Instant>,
    log: Vec<Value>,
}

pub struct SeamStats {
    pub worlds: usize,
    pub lookups: u64,
}

/// Run the whole family on the calling thread (about 3.3 s of wall clock, almost all of it sleeping).
pub fn run(thorough: bool, only: Option<&str>, l: &mut Local) -> SeamStats {
    let rt = tokio::runtime::Builder::new_current_thread().build().unwrap();
    let worlds: Vec<World> = worlds(thorough).into_iter().filter(|w| only.map(|o| o == w.label).unwrap_or(true)).collect();
    // upstream TTL of every record of a world, by (owner, rdata)
    let ttl_of: Vec<HashMap<String, u32>> = worlds
        .iter()
        .map(|w| {
            let mut m = HashMap::new();
            for (_, r) in &w.table {
                if let Reply::Msg(an, au, ad, _) = r {
                    for rec in an.iter().chain(au).chain(ad) {
                        m.insert(format!("{} {}", rec.name, rec.data), rec.ttl);
                    }
                }
            }
            m
        })
        .collect();
    let mut live: Vec<Live> = worlds
        .iter()
        .map(|w| {
            let calls = Arc::new(Mutex::new(vec![0u32; w.table.len()]));
            let up = Upstream { table: Arc::new(w.table.clone()), calls: calls.clone(), verifying: w.verifying, authority: None };
            Live { client: CachingClient::new(64, up, w.preserve), calls, last_fetch_end: vec![None; w.table.len()], last_fetch_alone: vec![false; w.table.len()], t0: None, log: vec![] }
        })
        .collect();
    let ipw: Vec<IpWorld> = ip_worlds().into_iter().filter(|w| only.map(|o| o == w.label).unwrap_or(true)).collect();
    let mut ip_live: Vec<Live> = ipw
        .iter()
        .map(|w| {
            let calls = Arc::new(Mutex::new(vec![0u32; 2]));
            let up = Upstream { table: Arc::new(w.table.clone()), calls: calls.clone(), verifying: false, authority: None };
            Live { client: CachingClient::new(64, up, true), calls, last_fetch_end: vec![None; 2], last_fetch_alone: vec![false; 2], t0: None, log: vec![] }
        })
        .collect();
    let rounds_ms: Vec<u64> = if thorough { vec![0, 0, 1150, 2150, 3150, 4150] } else { vec![0, 0, 1150, 2150, 3150] };
    let start = Instant::now();
    let mut lookups = 0u64;
    for (round, off) in rounds_ms.iter().enumerate() {
        let _ = start;
        for (wi, w) in worlds.iter().enumerate() {
            let lv = &mut live[wi];
            // every world keeps its own schedule: round r is due `off` after the end of its first round
            if let Some(t0) = lv.t0 {
                let due = t0 + Duration::from_millis(*off);
                let now = Instant::now();
                if due > now {
                    std::thread::sleep(due - now);
                }
            }
            for node in 0..w.table.len() {
                let q = w.table[node].0.clone();
                let before = lv.calls.lock().unwrap().clone();
                let t_start = Instant::now();
                let res = rt.block_on(lv.client.lookup(q.clone(), options(w.opts)));
                let t_end = Instant::now();
                let after = lv.calls.lock().unwrap().clone();
                lookups += 1;
                l.eval();
                let fetched = after[node] > before[node];
                let prev_fetch = lv.last_fetch_end[node];
                let upstream_queries: u32 = after.iter().zip(before.iter()).map(|(a, b)| a - b).sum();
                for y in 0..after.len() {
                    if after[y] > before[y] {
                        lv.last_fetch_end[y] = Some(t_end);
                        lv.last_fetch_alone[y] = upstream_queries == 1;
                    }
                }
                let alone = lv.last_fetch_alone[node];
                let summary = match &res {
                    Ok(lk) => json!({"ok": lk.message().all_sections().map(|r| format!("{} {} ttl={}", r.name, r.data, r.ttl)).collect::<Vec<_>>()}),
                    Err(NetError::Dns(DnsError::NoRecordsFound(nr))) => json!({"no_records": {"negative_ttl": nr.negative_ttl, "rcode": nr.response_code.to_string()}}),
                    Err(e) => json!({"error": e.to_string()}),
                };
                lv.log.push(json!({"round": round, "nominal_ms": off, "query": format!("{} {}", q.name, q.query_type), "fetched_upstream": fetched, "result": summary}));
                let viol = |l: &mut Local, key: &str, what: String, log: &Vec<Value>| {
                    l.violation(key, &what, || json!({"seam": true, "world": w.label, "upstream": w.table.iter().map(|(q, r)| format!("{} {} -> {:?}", q.name, q.query_type, r)).collect::<Vec<_>>(), "lookups": log}));
                };
                // TTLs never above upstream, whether fetched or cached
                let age_low_ms: u64 = if fetched { 0 } else { prev_fetch.map(|p| t_start.saturating_duration_since(p).as_millis() as u64).unwrap_or(0) };
                let age_s = age_low_ms / 1000;
                if !fetched {
                    if prev_fetch.is_none() {
                        viol(l, "seam:answer-without-any-upstream-query", "a lookup was answered although the query was never sent upstream".into(), &lv.log);
                        continue;
                    }
                    if w.outcome[node] == Outcome::Transient {
                        viol(l, "seam:transient-error-served-from-cache", format!("upstream fails for this query, yet the next lookup was answered without asking upstream ({age_low_ms} ms later)"), &lv.log);
                        continue;
                    }
                }
                match (&res, &w.outcome[node]) {
                    (Ok(lk), _) => {
                        let mut l_letter: Option<u64> = None;
                        let mut bad_ttl = None;
                        let n_answers = lk.answers().len();
                        for (ri, r) in lk.message().all_sections().enumerate() {
                            let Some(up) = ttl_of[wi].get(&format!("{} {}", r.name, r.data)) else { continue };
                            // L from the ANSWER section only: the weakest reading of "the entry's records"
                            // (the core grids judge the all-sections reading on ResponseCache itself)
                            if ri < n_answers && (r.record_type() == q.query_type || r.record_type() == RecordType::CNAME) {
                                l_letter = Some(l_letter.map_or(*up as u64, |x| x.min(*up as u64)));
                            }
                            if (r.ttl as u64) > (*up as u64).saturating_sub(age_s) {
                                bad_ttl = Some(format!("{} {} reported ttl {} , upstream {} , age >= {} ms", r.name, r.data, r.ttl, up, age_low_ms));
                            }
                        }
                        if let Some(b) = bad_ttl {
                            viol(l, if fetched { "seam:ttl-above-upstream:fresh" } else { "seam:ttl-too-high:cached" }, b, &lv.log);
                        }
                        // the answer was produced from ONE upstream response that carried the whole alias chain:
                        // every link of it bounds the entry, the TTL handed out and Lookup::valid_until, also
                        // when the CNAMEs are filtered out of the served records (hickory's own documented intent,
                        // `cname_alias_bounds_cache_lifetime`; RFC 2181 5.2 / 10.1.1)
                        if let (true, Some(sl)) = (alone, w.same_response_l[node]) {
                            if !fetched && age_low_ms > sl * 1000 {
                                viol(
                                    l,
                                    "seam:served-after-expiry:alias-in-the-cached-response",
                                    format!("answered from the cache at least {age_low_ms} ms after the fetch; the single cached response carried an alias link / record with TTL {sl} s"),
                                    &lv.log,
                                );
                            } else if lk.valid_until() > t_end + Duration::from_secs(sl.saturating_sub(age_s)) {
                                viol(
                                    l,
                                    if fetched { "seam:lookup-valid-until-beyond-L:alias-chain:fresh" } else { "seam:lookup-valid-until-beyond-L:alias-chain:cached" },
                                    format!(
                                        "Lookup::valid_until is {} ms after the end of the lookup; the response carried an alias link / record with TTL {sl} s, age >= {age_low_ms} ms",
                                        lk.valid_until().saturating_duration_since(t_end).as_millis()
                                    ),
                                    &lv.log,
                                );
                            } else {
                                l.outcome("seam:alias-chain-in-one-response:judged");
                            }
                        }
                        if let Some(ll) = l_letter {
                            if !fetched && age_low_ms > ll * 1000 {
                                viol(l, "seam:served-after-expiry:positive", format!("answered from the cache at least {age_low_ms} ms after the fetch, L = {ll} s"), &lv.log);
                            } else {
                                let allowed = t_end + Duration::from_secs(ll.saturating_sub(age_s));
                                if lk.valid_until() > allowed {
                                    viol(
                                        l,
                                        if fetched { "seam:lookup-valid-until-beyond-L:fresh" } else { "seam:lookup-valid-until-beyond-L:cached" },
                                        format!("Lookup::valid_until is {} ms after the end of the lookup, L = {ll} s, age >= {age_low_ms} ms", lk.valid_until().saturating_duration_since(t_end).as_millis()),
                                        &lv.log,
                                    );
                                }
                                if !fetched {
                                    l.outcome("seam:cache-hit:positive");
                                    if let Some(cl) = w.chain_l[node] {
                                        if age_low_ms > cl * 1000 {
                                            l.outcome("obs:seam:alias-answer-served-after-the-ttl-of-a-dropped-cname");
                                        }
                                    }
                                }
                            }
                        }
                    }
                    (Err(NetError::Dns(DnsError::NoRecordsFound(nr))), Outcome::Negative(soa)) => {
                        let ln = soa.map(|(s, m)| s.min(m) as u64).unwrap_or(0);
                        if !fetched {
                            if age_low_ms > ln * 1000 {
                                viol(l, "seam:served-after-expiry:negative", format!("negative answer from the cache at least {age_low_ms} ms after the fetch, negative TTL = {ln} s"), &lv.log);
                            } else {
                                l.outcome("seam:cache-hit:negative");
                            }
                        }
                        if let Some(nt) = nr.negative_ttl {
                            if nt as u64 > ln.saturating_sub(age_s) {
                                viol(l, if fetched { "seam:negative-ttl-above-soa:fresh" } else { "seam:ttl-too-high:cached-negative" }, format!("negative_ttl {nt}, min(SOA ttl, minimum) = {ln}, age >= {age_low_ms} ms"), &lv.log);
                            }
                        }
                    }
                    (Err(_), _) if !fetched => {
                        // an error from the cache that is not this node's negative answer
                        if !matches!(w.outcome[node], Outcome::Negative(_)) {
                            viol(l, "seam:error-from-cache-for-positive-data", "the cache answered with an error for a query whose upstream data is positive".into(), &lv.log);
                        }
                    }
                    _ => {}
                }
                if fetched {
                    l.outcome("seam:fetched-upstream");
                }
            }
            if lv.t0.is_none() {
                lv.t0 = Some(Instant::now());
            }
        }
        // the lookup_ip layer over the same kind of client
        for (wi, w) in ipw.iter().enumerate() {
            let lv = &mut ip_live[wi];
            if let Some(t0) = lv.t0 {
                let due = t0 + Duration::from_millis(*off);
                let now = Instant::now();
                if due > now {
                    std::thread::sleep(due - now);
                }
            }
            let before = lv.calls.lock().unwrap().clone();
            let t_start = Instant::now();
            let fut = LookupIpFuture::lookup(vec![n("n.z.")], w.strategy, lv.client.clone(), DnsRequestOptions::default(), Arc::new(Hosts::default()), None);
            let res = rt.block_on(fut);
            let t_end = Instant::now();
            let after = lv.calls.lock().unwrap().clone();
            lookups += 1;
            l.eval();
            // lower bound of the age of what each node contributes
            let mut age_ms = [0u64; 2];
            for y in 0..2 {
                if after[y] > before[y] {
                    lv.last_fetch_end[y] = Some(t_end);
                } else if let Some(p) = lv.last_fetch_end[y] {
                    age_ms[y] = t_start.saturating_duration_since(p).as_millis() as u64;
                }
            }
            let summary = match &res {
                Ok(ip) => json!({"ok": ip.as_lookup().answers().iter().map(|r| format!("{} {} ttl={}", r.name, r.data, r.ttl)).collect::<Vec<_>>(), "valid_for_ms": ip.valid_until().saturating_duration_since(t_end).as_millis() as u64}),
                Err(e) => json!({"error": e.to_string()}),
            };
            lv.log.push(json!({"round": round, "nominal_ms": off, "fetched": [after[0] > before[0], after[1] > before[1]], "result": summary}));
            if lv.t0.is_none() {
                lv.t0 = Some(Instant::now());
            }
            let viol = |l: &mut Local, key: &str, what: String, log: &Vec<Value>| {
                l.violation(key, &what, || json!({"seam": true, "world": w.label, "upstream": w.table.iter().map(|(q, r)| format!("{} {} -> {:?}", q.name, q.query_type, r)).collect::<Vec<_>>(), "lookups": log}));
            };
            if let Ok(ip) = &res {
                let mut shortest: Option<u64> = None;
                for r in ip.as_lookup().answers() {
                    let y = match r.record_type() {
                        RecordType::A => 0,
                        RecordType::AAAA => 1,
                        _ => continue,
                    };
                    let fetched = after[y] > before[y];
                    if !fetched && age_ms[y] > w.node_l[y] * 1000 {
                        viol(l, "seam:lookup-ip:served-after-expiry", format!("{} address from the cache at least {} ms after the fetch, TTL {} s", r.record_type(), age_ms[y], w.node_l[y]), &lv.log);
                    }
                    let left = w.node_l[y].saturating_sub(age_ms[y] / 1000);
                    if r.ttl as u64 > left {
                        viol(l, "seam:lookup-ip:ttl-too-high", format!("{} reported ttl {}, upstream {} s, age >= {} ms", r.record_type(), r.ttl, w.node_l[y], age_ms[y]), &lv.log);
                    }
                    shortest = Some(shortest.map_or(left, |x| x.min(left)));
                }
                if let Some(sh) = shortest {
                    if ip.valid_until() > t_end + Duration::from_secs(sh) {
                        viol(
                            l,
                            "seam:lookup-ip:valid-until-beyond-the-shortest-lived-address",
                            format!("LookupIp::valid_until is {} ms after the end of the lookup, the shortest-lived returned address has {sh} s left", ip.valid_until().saturating_duration_since(t_end).as_millis()),
                            &lv.log,
                        );
                    } else {
                        l.outcome("seam:lookup-ip:judged");
                    }
                }
            }
        }
    }
    SeamStats { worlds: worlds.len() + ipw.len(), lookups }
}


// ------------------------------------------------------------------------------------------
// construction-path family: the production path that builds the cache inside a `Resolver`
// (`ResolverBuilder::build`: `ResponseCache::new(opts.cache_size, TtlConfig::from_opts(&opts))` +
// `CachingClient::with_cache(cache, pool, opts.preserve_intermediates)`) over a scripted
// `ConnectionProvider`, every knob at a non-default value and the four bounds at four DIFFERENT values.
// One probe per bound that only that bound explains; the expectation is the reference's for these values.

#[derive(Clone)]
struct Prov {
    up: Upstream,
    rt: TokioRuntimeProvider,
}

impl ConnectionProvider for Prov {
    type Conn = Upstream;
    type FutureConn = Pin<Box<dyn std::future::Future<Output = Result<Upstream, NetError>> + Send>>;
    type RuntimeProvider = TokioRuntimeProvider;

    fn new_connection(&self, _ip: std::net::IpAddr, _config: &ConnectionConfig, _cx: &PoolContext) -> Result<Self::FutureConn, NetError> {
        let up = self.up.clone();
        Ok(Box::pin(async move { Ok(up) }))
    }
    fn runtime_provider(&self) -> &TokioRuntimeProvider {
        &self.rt
    }
}

pub const CTOR_POS_MIN: u64 = 7;
pub const CTOR_POS_MAX: u64 = 11;
pub const CTOR_NEG_MIN: u64 = 1;
pub const CTOR_NEG_MAX: u64 = 2;

pub fn run_ctor(l: &mut Local) -> u64 {
    let rt = tokio::runtime::Builder::new_current_thread().enable_time().build().unwrap();
    let qa = |name: &str| Query::new(n(name), RecordType::A);
    let nxd = |s: u32| Reply::Msg(vec![], vec![soa_rec(s, s)], vec![], ResponseCode::NXDomain);
    let pos = |an: Vec<Record>| Reply::Msg(an, vec![], vec![], ResponseCode::NoError);
    // probe: (query, reply, what it isolates)
    let table: Vec<(Query, Reply)> = vec![
        (qa("p1.z."), pos(vec![a_rec("p1.z.", 1, 1)])),                                       // TTL below positive_min
        (qa("p2.z."), pos(vec![a_rec("p2.z.", 1000, 1)])),                                    // TTL above positive_max
        (qa("n1.z."), nxd(0)),                                                                // negative TTL below negative_min
        (qa("n2.z."), nxd(1000)),                                                             // negative TTL above negative_max
        (qa("c.z."), pos(vec![cname_rec("c.z.", "t.z.", 50), a_rec("t.z.", 50, 1)])),       // preserve_intermediates = false
    ];
    let calls = Arc::new(Mutex::new(vec![0u32; table.len()]));
    let up = Upstream { table: Arc::new(table.clone()), calls: calls.clone(), verifying: false, authority: None };
    let resolver = {
        let _g = rt.enter();
        let prov = Prov { up, rt: TokioRuntimeProvider::new() };
        let config = ResolverConfig::from_parts(None, vec![], vec![NameServerConfig::udp("192.0.2.53".parse().unwrap())]);
        let mut b = Resolver::builder_with_config(config, prov);
        let o = b.options_mut();
        o.positive_min_ttl = Some(Duration::from_secs(CTOR_POS_MIN));
        o.positive_max_ttl = Some(Duration::from_secs(CTOR_POS_MAX));
        o.negative_min_ttl = Some(Duration::from_secs(CTOR_NEG_MIN));
        o.negative_max_ttl = Some(Duration::from_secs(CTOR_NEG_MAX));
        o.cache_size = 5;
        o.preserve_intermediates = false;
        o.use_hosts_file = ResolveHosts::Never;
        o.attempts = 1;
        b.build().expect("HARNESS: resolver over the scripted provider")
    };
    // expected lifetime per probe (seconds) and, for positive ones, the clamped TTL
    let clamp = |v: u64, lo: u64, hi: u64| v.max(lo).min(hi);
    let expect: Vec<(bool, u64)> = vec![
        (true, clamp(1, CTOR_POS_MIN, CTOR_POS_MAX)),
        (true, clamp(1000, CTOR_POS_MIN, CTOR_POS_MAX)),
        (false, clamp(0, CTOR_NEG_MIN, CTOR_NEG_MAX)),
        (false, clamp(1000, CTOR_NEG_MIN, CTOR_NEG_MAX)),
        (true, clamp(50, CTOR_POS_MIN, CTOR_POS_MAX)),
    ];
    let mut last_fetch: Vec<Option<(Instant, Instant)>> = vec![None; table.len()];
    let mut log: Vec<Value> = vec![];
    let mut lookups = 0u64;
    let start = Instant::now();
    for (round, off) in [0u64, 0, 1150, 2150, 3150].iter().enumerate() {
        let due = start + Duration::from_millis(*off);
        let now = Instant::now();
        if due > now {
            std::thread::sleep(due - now);
        }
        for (i, (q, _)) in table.iter().enumerate() {
            let before = calls.lock().unwrap()[i];
            let t_start = Instant::now();
            let res = rt.block_on(resolver.lookup(q.name.clone(), RecordType::A));
            let t_end = Instant::now();
            let fetched = calls.lock().unwrap()[i] > before;
            lookups += 1;
            l.eval();
            let summary = match &res {
                Ok(lk) => json!({"ok": lk.answers().iter().map(|r| format!("{} {} ttl={}", r.name, r.record_type(), r.ttl)).collect::<Vec<_>>()}),
                Err(NetError::Dns(DnsError::NoRecordsFound(nr))) => json!({"no_records": {"negative_ttl": nr.negative_ttl}}),
                Err(e) => json!({"error": e.to_string()}),
            };
            log.push(json!({"round": round, "query": q.name.to_string(), "fetched_upstream": fetched, "result": summary}));
            let viol = |l: &mut Local, key: &str, what: String, log: &Vec<Value>| {
                l.violation(key, &what, || {
                    json!({"ctor": "resolver", "options": {"positive_min_ttl": CTOR_POS_MIN, "positive_max_ttl": CTOR_POS_MAX, "negative_min_ttl": CTOR_NEG_MIN, "negative_max_ttl": CTOR_NEG_MAX, "cache_size": 5, "preserve_intermediates": false}, "lookups": log})
                });
            };
            // bounds on the age of the entry that answered
            let (age_low, age_high) = if fetched {
                (0u64, 0u64)
            } else {
                match last_fetch[i] {
                    Some((fs, fe)) => (t_start.saturating_duration_since(fe).as_millis() as u64, t_end.saturating_duration_since(fs).as_millis() as u64),
                    None => (0, 0),
                }
            };
            let (positive, want) = expect[i];
            if positive {
                if let Ok(lk) = &res {
                    // every answer record carries the clamped TTL minus whole seconds of the age
                    let hi = want.saturating_sub(age_low / 1000);
                    let lo = want.saturating_sub(age_high / 1000);
                    for r in lk.answers() {
                        if (r.ttl as u64) > hi || (r.ttl as u64) < lo {
                            viol(l, "ctor:resolver:ttl-differs-from-the-configured-positive-bounds", format!("{} reported ttl {}, expected {lo}..={hi} (bounds {CTOR_POS_MIN}..{CTOR_POS_MAX}, age {age_low}..{age_high} ms)", q.name, r.ttl), &log);
                        }
                    }
                    if i == 4 && lk.answers().iter().any(|r| r.record_type() == RecordType::CNAME) {
                        viol(l, "ctor:resolver:preserve_intermediates-not-applied", "preserve_intermediates = false, yet the answer carries the CNAME".into(), &log);
                    }
                    l.outcome("ctor:resolver:positive-probe");
                } else {
                    viol(l, "ctor:resolver:positive-probe-failed", format!("{} did not resolve", q.name), &log);
                }
            } else {
                // negative: kept exactly as long as the configured bounds say
                if !fetched && age_low > want * 1000 {
                    viol(l, "ctor:resolver:negative-kept-beyond-the-configured-bounds", format!("{} answered from the cache {age_low} ms after the fetch, configured lifetime {want} s", q.name), &log);
                } else if fetched && round > 0 {
                    if let Some((fs, _)) = last_fetch[i] {
                        let since = t_end.saturating_duration_since(fs).as_millis() as u64;
                        if since < want * 1000 {
                            viol(l, "ctor:resolver:negative-not-kept-for-the-configured-bounds", format!("{} fetched again {since} ms after the previous fetch, configured lifetime {want} s", q.name), &log);
                        }
                    }
                }
                l.outcome("ctor:resolver:negative-probe");
            }
            if fetched {
                last_fetch[i] = Some((t_start, t_end));
            }
        }
    }
    lookups
}


// the recursor's construction path: `Recursor::with_options(roots, RecursorOptions { cache_policy,
// response_cache_size, .. }, provider)` over a one-server internet; `resolve(query, now, ..)` takes an explicit
// `now`, so the probes run on virtual time.
pub fn run_ctor_recursor(l: &mut Local) -> u64 {
    use hickory_resolver::recursor::{Recursor, RecursorOptions};
    use hickory_resolver::TtlConfig;
    let rt = tokio::runtime::Builder::new_current_thread().enable_time().build().unwrap();
    let ip: std::net::Ipv4Addr = "198.41.0.4".parse().unwrap();
    let qa = |name: &str| Query::new(n(name), RecordType::A);
    let nxd = |s: u32| Reply::Msg(vec![], vec![soa_rec(s, s)], vec![], ResponseCode::NXDomain);
    let pos = |an: Vec<Record>| Reply::Msg(an, vec![], vec![], ResponseCode::NoError);
    let table: Vec<(Query, Reply)> = vec![
        (qa("p1.z."), pos(vec![a_rec("p1.z.", 1, 1)])),
        (qa("p2.z."), pos(vec![a_rec("p2.z.", 1000, 1)])),
        (qa("n1.z."), nxd(0)),
        (qa("n2.z."), nxd(1000)),
    ];
    let calls = Arc::new(Mutex::new(vec![0u32; table.len()]));
    let up = Upstream { table: Arc::new(table.clone()), calls: calls.clone(), verifying: false, authority: Some(ip) };
    let policy: TtlConfig = serde_json::from_value(json!({"default": {"positive_min_ttl": CTOR_POS_MIN, "positive_max_ttl": CTOR_POS_MAX, "negative_min_ttl": CTOR_NEG_MIN, "negative_max_ttl": CTOR_NEG_MAX}})).unwrap();
    let rec = {
        let _g = rt.enter();
        let prov = Prov { up, rt: TokioRuntimeProvider::new() };
        let opts = RecursorOptions { cache_policy: policy, response_cache_size: 64, ns_cache_size: 3, deny_server: vec![], ..RecursorOptions::default() };
        Recursor::with_options(&[std::net::IpAddr::V4(ip)], opts, prov).expect("HARNESS: recursor over the scripted provider")
    };
    let clamp = |v: u64, lo: u64, hi: u64| v.max(lo).min(hi);
    let expect: Vec<(bool, u64)> = vec![
        (true, clamp(1, CTOR_POS_MIN, CTOR_POS_MAX)),
        (true, clamp(1000, CTOR_POS_MIN, CTOR_POS_MAX)),
        (false, clamp(0, CTOR_NEG_MIN, CTOR_NEG_MAX)),
        (false, clamp(1000, CTOR_NEG_MIN, CTOR_NEG_MAX)),
    ];
    let base = Instant::now();
    let mut log: Vec<Value> = vec![];
    let mut lookups = 0u64;
    let mut fetched_at: Vec<Option<u64>> = vec![None; table.len()];
    // virtual offsets: around every configured lifetime
    for off_ms in [0u64, 400, 1000, 1400, 2000, 2400, 6600, 7400, 10600, 11400, 23000] {
        for (i, (q, _)) in table.iter().enumerate() {
            let before = calls.lock().unwrap()[i];
            let res = rt.block_on(rec.resolve(q.clone(), base + Duration::from_millis(off_ms), false));
            let fetched = calls.lock().unwrap()[i] > before;
            lookups += 1;
            l.eval();
            let summary = match &res {
                Ok(m) => json!({"rcode": m.metadata.response_code.to_string(), "answers": m.answers.iter().map(|r| format!("{} {} ttl={}", r.name, r.record_type(), r.ttl)).collect::<Vec<_>>()}),
                Err(e) => json!({"error": e.to_string()}),
            };
            log.push(json!({"at_ms": off_ms, "query": q.name.to_string(), "fetched_upstream": fetched, "result": summary}));
            let viol = |l: &mut Local, key: &str, what: String, log: &Vec<Value>| {
                l.violation(key, &what, || {
                    json!({"ctor": "recursor", "cache_policy": {"positive_min_ttl": CTOR_POS_MIN, "positive_max_ttl": CTOR_POS_MAX, "negative_min_ttl": CTOR_NEG_MIN, "negative_max_ttl": CTOR_NEG_MAX}, "response_cache_size": 64, "lookups": log})
                });
            };
            if fetched {
                fetched_at[i] = Some(off_ms);
            }
            let Some(f) = fetched_at[i] else {
                viol(l, "ctor:recursor:answer-without-upstream-query", format!("{} answered without any upstream query", q.name), &log);
                continue;
            };
            let age = off_ms - f;
            let (positive, want) = expect[i];
            // exact differential against the bounds: cached exactly while age <= lifetime
            if !fetched && age > want * 1000 {
                viol(l, "ctor:recursor:kept-beyond-the-configured-bounds", format!("{} answered from the cache {age} ms after the fetch, configured lifetime {want} s", q.name), &log);
            }
            if fetched && off_ms > 0 {
                // it was fetched again: the previous entry must have been past its configured lifetime
                let prev = log.iter().rev().skip(1).find(|e| e["query"] == json!(q.name.to_string()) && e["fetched_upstream"] == json!(true)).and_then(|e| e["at_ms"].as_u64());
                if let Some(p) = prev {
                    if off_ms - p <= want * 1000 {
                        viol(l, "ctor:recursor:not-kept-for-the-configured-bounds", format!("{} fetched again {} ms after the previous fetch, configured lifetime {want} s", q.name, off_ms - p), &log);
                    }
                }
            }
            if positive {
                match &res {
                    Ok(m) if !m.answers.is_empty() => {
                        let w = want.saturating_sub(age / 1000);
                        if fetched {
                            // the recursor hands the fresh upstream message on as it is (only the cached copy is
                            // clamped): not an answer of the cache, logged only
                            if m.answers.iter().any(|r| r.ttl as u64 != w) {
                                l.outcome("obs:recursor:fresh-answer-carries-the-unclamped-upstream-ttl");
                            }
                        } else if m.answers.iter().any(|r| r.ttl as u64 != w) {
                            viol(l, "ctor:recursor:ttl-differs-from-the-configured-positive-bounds", format!("{} reported {:?}, expected {w}", q.name, m.answers.iter().map(|r| r.ttl).collect::<Vec<_>>()), &log);
                        }
                        l.outcome("ctor:recursor:positive-probe");
                    }
                    _ => viol(l, "ctor:recursor:positive-probe-failed", format!("{} did not resolve", q.name), &log),
                }
            } else {
                l.outcome("ctor:recursor:negative-probe");
            }
        }
    }
    lookups
}
