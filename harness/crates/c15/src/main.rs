//! C15 — cached answers expire on time and TTLs only count down.
//!
//! E-STATE on the REAL `hickory_resolver::ResponseCache` (explicit `now: Instant`): breadth-first
//! search over histories of insert(q, r) / get(q) / clear / clear_query(q) / advance(dt), every
//! history replayed on a fresh cache, every `get` (the ones in the history and a fixed look-ahead
//! probe sequence after every transition) judged by the reference model `vref::cache`, which is
//! written from the property statement:
//!
//! * get may always miss; a hit must be the LAST cacheable result inserted for that query,
//! * not later than L after its insertion (L = smallest per-type clamped TTL among the records of
//!   the query type or CNAME, clamped to the bounds of the query type; negative: negative TTL
//!   clamped to the negative bounds, the minimum if the answer carries none),
//! * every reported TTL = per-type clamped stored TTL - whole seconds elapsed, floored at 0
//!   (TTLs inside negative answers: received value - whole seconds elapsed), never increasing
//!   between refreshes,
//! * an error that is not a negative answer is never returned.
//!
//! State matching: canonical key = per query (last cacheable result, age in ms capped just above
//! its lifetime). The key argument is tested, not assumed: (i) every transition's look-ahead
//! observations are digested and equal keys must give equal digests (same-key / different-history
//! differential), (ii) a matching-free run over ALL op sequences up to depth 5 of a small grid
//! must reach exactly the BFS's key set, with the same verdicts.

use std::collections::{HashMap, HashSet};
use std::str::FromStr;
use std::sync::atomic::{AtomicU64, Ordering};
use std::sync::{Arc, LazyLock, Mutex};
use std::time::{Duration, Instant};

use hickory_net::{DnsError, ForwardNSData, NetError, NoRecords};
use hickory_proto::op::{Message, OpCode, Query, ResponseCode};
use hickory_proto::rr::rdata::{A, AAAA, CNAME, MX, NS, SOA, TXT};
use hickory_proto::rr::{Name, RData, Record, RecordType};
use hickory_resolver::config::ResolverOpts;
use hickory_resolver::{ResponseCache, TtlBounds, TtlConfig};
use serde_json::{json, Value};
use vcore::{bfs, catch, Ctx, Local};
use vref::cache::{self as rc, Bounds, Config, Model, Observation, Stored, Verdict};

mod seam;

fn n(s: &str) -> Name {
    Name::from_str(s).unwrap()
}

/// All `now` values are BASE + virtual offset. BASE lies far in the future of the real clock so
/// that moka's own (real-time) expiry never fires during a run: which entry is served is then
/// decided by hickory's `is_current(now)` alone and every run is deterministic.
static BASE: LazyLock<Instant> = LazyLock::new(|| Instant::now() + Duration::from_secs(30 * 86_400));

fn at(ms: u64) -> Instant {
    *BASE + Duration::from_millis(ms)
}

// ------------------------------------------------------------------------------------------
// alphabets

#[derive(Clone, Debug)]
struct QSpec {
    query: Query,
    code: u16,
}

fn queries() -> Vec<QSpec> {
    vec![
        QSpec { query: Query::new(n("n1.example."), RecordType::A), code: 1 },
        QSpec { query: Query::new(n("n1.example."), RecordType::AAAA), code: 28 },
        QSpec { query: Query::new(n("n2.example."), RecordType::TXT), code: 16 },
    ]
}

#[derive(Clone, Copy, Debug, PartialEq)]
enum Kind {
    Q,
    Cname,
    Ns,
    Glue,
    Mx,
}

#[derive(Clone, Copy, Debug, PartialEq)]
enum Sec {
    An,
    Au,
    Ad,
}

#[derive(Clone, Debug)]
enum Shape {
    /// records as (section, kind, ttl); listed section by section
    Pos(Vec<(Sec, Kind, u32)>),
    Neg { nttl: Option<u32>, soa: Option<u32>, auth: Vec<u32>, ns: Vec<(u32, Vec<u32>)>, nx: bool },
    Err(&'static str),
}

fn shapes() -> Vec<(&'static str, Shape)> {
    use Kind::*;
    use Sec::*;
    vec![
        ("q0", Shape::Pos(vec![(An, Q, 0)])),
        ("q1", Shape::Pos(vec![(An, Q, 1)])),
        ("q2", Shape::Pos(vec![(An, Q, 2)])),
        ("q5", Shape::Pos(vec![(An, Q, 5)])),
        ("q1+q5", Shape::Pos(vec![(An, Q, 1), (An, Q, 5)])),
        ("q5+q2", Shape::Pos(vec![(An, Q, 5), (An, Q, 2)])),
        ("cname1+q5", Shape::Pos(vec![(An, Cname, 1), (An, Q, 5)])),
        ("cname5+q2", Shape::Pos(vec![(An, Cname, 5), (An, Q, 2)])),
        ("cname2", Shape::Pos(vec![(An, Cname, 2)])),
        ("q2+ns7+glue1", Shape::Pos(vec![(An, Q, 2), (Au, Ns, 7), (Ad, Glue, 1)])),
        ("q5+ns1+glue7", Shape::Pos(vec![(An, Q, 5), (Au, Ns, 1), (Ad, Glue, 7)])),
        ("mx2", Shape::Pos(vec![(An, Mx, 2)])),
        ("mx1+addq5", Shape::Pos(vec![(An, Mx, 1), (Ad, Q, 5)])),
        // the smallest TTL of the query type (or CNAME) sits in the authority / additional section,
        // or is the third record
        ("q5+auq1", Shape::Pos(vec![(An, Q, 5), (Au, Q, 1)])),
        ("q5+adcname1", Shape::Pos(vec![(An, Q, 5), (Ad, Cname, 1)])),
        ("q5+q2+q1", Shape::Pos(vec![(An, Q, 5), (An, Q, 2), (An, Q, 1)])),
        ("q2+auq5+adq1", Shape::Pos(vec![(An, Q, 2), (Au, Q, 5), (Ad, Q, 1)])),
        ("neg-none", Shape::Neg { nttl: None, soa: None, auth: vec![], ns: vec![], nx: false }),
        ("neg0", Shape::Neg { nttl: Some(0), soa: Some(0), auth: vec![], ns: vec![], nx: true }),
        ("neg1-full", Shape::Neg { nttl: Some(1), soa: Some(5), auth: vec![2], ns: vec![(7, vec![1])], nx: false }),
        ("neg3", Shape::Neg { nttl: Some(3), soa: Some(3), auth: vec![], ns: vec![], nx: true }),
        ("neg5-ns", Shape::Neg { nttl: Some(5), soa: Some(1), auth: vec![], ns: vec![(1, vec![]), (2, vec![0, 5])], nx: false }),
        ("err-timeout", Shape::Err("timeout")),
        ("err-io", Shape::Err("io")),
        ("err-busy", Shape::Err("busy")),
        ("err-noconn", Shape::Err("noconn")),
        ("err-msg", Shape::Err("msg")),
        ("err-message", Shape::Err("message")),
        ("err-case", Shape::Err("case")),
        ("err-servfail", Shape::Err("servfail")),
        ("err-refused", Shape::Err("refused")),
    ]
}

/// Far-future boundary shapes (default maximum of one day, u32 limits); only used by the far grid.
fn far_shapes() -> Vec<(&'static str, Shape)> {
    use Kind::*;
    use Sec::*;
    vec![
        ("far-q86399", Shape::Pos(vec![(An, Q, 86_399)])),
        ("far-q86400", Shape::Pos(vec![(An, Q, 86_400)])),
        ("far-q86401", Shape::Pos(vec![(An, Q, 86_401)])),
        ("far-q2^31-1", Shape::Pos(vec![(An, Q, 0x7fff_ffff)])),
        ("far-q2^31", Shape::Pos(vec![(An, Q, 0x8000_0000), (Au, Q, 0x8000_0001)])),
        ("far-qmax+cname100000", Shape::Pos(vec![(An, Cname, 100_000), (An, Q, u32::MAX)])),
        ("far-neg86401", Shape::Neg { nttl: Some(86_401), soa: Some(86_401), auth: vec![], ns: vec![], nx: true }),
        ("far-negmax", Shape::Neg { nttl: Some(u32::MAX), soa: Some(u32::MAX), auth: vec![u32::MAX], ns: vec![], nx: false }),
    ]
}

fn kind_code(k: Kind, q: &QSpec) -> u16 {
    match k {
        Kind::Q => q.code,
        Kind::Cname => 5,
        Kind::Ns => 2,
        Kind::Glue => 1,
        Kind::Mx => 15,
    }
}

fn build_record(k: Kind, ttl: u32, q: &QSpec, sid: usize, pos: usize, has_cname: bool) -> Record {
    let s = sid as u8;
    let p = pos as u8;
    match k {
        Kind::Q => {
            let owner = if has_cname { n(&format!("t{sid}.example.")) } else { q.query.name.clone() };
            let data = match q.code {
                1 => RData::A(A::new(10, s, p, 1)),
                28 => RData::AAAA(AAAA::new(0x2001, 0xdb8, 0, 0, 0, 0, s as u16, p as u16)),
                _ => RData::TXT(TXT::new(vec![format!("r{sid}-{pos}")])),
            };
            Record::from_rdata(owner, ttl, data)
        }
        Kind::Cname => Record::from_rdata(q.query.name.clone(), ttl, RData::CNAME(CNAME(n(&format!("t{sid}.example."))))),
        Kind::Ns => Record::from_rdata(n("example."), ttl, RData::NS(NS(n(&format!("ns{sid}.example."))))),
        Kind::Glue => Record::from_rdata(n(&format!("ns{sid}.example.")), ttl, RData::A(A::new(192, 0, 2, s))),
        Kind::Mx => Record::from_rdata(q.query.name.clone(), ttl, RData::MX(MX::new(10, n(&format!("mx{sid}.example."))))),
    }
}

fn build_result(shape: &Shape, q: &QSpec, sid: usize) -> (Result<Message, NetError>, Stored) {
    match shape {
        Shape::Pos(recs) => {
            let has_cname = recs.iter().any(|r| r.1 == Kind::Cname);
            let mut m = Message::response(0, OpCode::Query);
            m.add_query(q.query.clone());
            let mut stored = vec![];
            for sec in [Sec::An, Sec::Au, Sec::Ad] {
                for (pos, (s, k, ttl)) in recs.iter().enumerate() {
                    if *s != sec {
                        continue;
                    }
                    let r = build_record(*k, *ttl, q, sid, pos, has_cname);
                    stored.push((kind_code(*k, q), *ttl));
                    match sec {
                        Sec::An => m.add_answer(r),
                        Sec::Au => m.add_authority(r),
                        Sec::Ad => m.add_additional(r),
                    };
                }
            }
            (Ok(m), Stored::Positive { records: stored })
        }
        Shape::Neg { nttl, soa, auth, ns, nx } => {
            let mut nr = NoRecords::new(q.query.clone(), if *nx { ResponseCode::NXDomain } else { ResponseCode::NoError });
            let mut embedded = vec![];
            nr.negative_ttl = *nttl;
            if let Some(t) = soa {
                nr.soa = Some(Box::new(Record::from_rdata(
                    n("example."),
                    *t,
                    SOA::new(n("ns.example."), n("h.example."), sid as u32, 1, 1, 1, 1),
                )));
                embedded.push(*t);
            }
            if !auth.is_empty() {
                let v: Vec<Record> = auth.iter().enumerate().map(|(i, t)| build_record(Kind::Ns, *t, q, sid * 8 + i, i, false)).collect();
                embedded.extend(auth.iter().copied());
                nr.authorities = Some(Arc::from(v));
            }
            if !ns.is_empty() {
                let v: Vec<ForwardNSData> = ns
                    .iter()
                    .enumerate()
                    .map(|(i, (t, glue))| {
                        embedded.push(*t);
                        embedded.extend(glue.iter().copied());
                        ForwardNSData {
                            ns: build_record(Kind::Ns, *t, q, sid * 8 + i, i, false),
                            glue: Arc::from(
                                glue.iter().enumerate().map(|(g, gt)| build_record(Kind::Glue, *gt, q, sid * 8 + g, g, false)).collect::<Vec<_>>(),
                            ),
                        }
                    })
                    .collect();
                nr.ns = Some(Arc::from(v));
            }
            (Err(NetError::from(nr)), Stored::Negative { negative_ttl: *nttl, embedded })
        }
        Shape::Err(kind) => {
            let e = match *kind {
                "timeout" => NetError::Timeout,
                "io" => NetError::from(std::io::Error::new(std::io::ErrorKind::ConnectionReset, "reset")),
                "busy" => NetError::Busy,
                "noconn" => NetError::NoConnections,
                "msg" => NetError::Msg("upstream failure".to_string()),
                "message" => NetError::Message("static failure"),
                "case" => NetError::QueryCaseMismatch,
                "servfail" => NetError::Dns(DnsError::ResponseCode(ResponseCode::ServFail)),
                "refused" => NetError::Dns(DnsError::ResponseCode(ResponseCode::Refused)),
                other => panic!("unknown error kind {other}"),
            };
            (Err(e), Stored::Transient)
        }
    }
}

// ------------------------------------------------------------------------------------------
// content identification (which inserted result does a returned entry belong to?)

#[derive(Clone, Debug)]
enum Content {
    Pos(Message),
    Neg(NoRecords),
    None,
}

fn split_pos(m: &Message) -> (Message, Vec<u32>) {
    let mut m = m.clone();
    let mut ttls = Vec::with_capacity(4);
    for sec in [&mut m.answers, &mut m.authorities, &mut m.additionals] {
        for r in sec.iter_mut() {
            ttls.push(r.ttl);
            r.ttl = 0;
        }
    }
    (m, ttls)
}

fn split_neg(nr: &NoRecords) -> (NoRecords, Option<u32>, Vec<u32>) {
    let mut z = nr.clone();
    let mut ttls = vec![];
    let nttl = z.negative_ttl;
    if z.negative_ttl.is_some() {
        z.negative_ttl = Some(0);
    }
    if let Some(soa) = &mut z.soa {
        ttls.push(soa.ttl);
        soa.ttl = 0;
    }
    if let Some(a) = z.authorities.take() {
        let v: Vec<Record> = a
            .iter()
            .cloned()
            .map(|mut r| {
                ttls.push(r.ttl);
                r.ttl = 0;
                r
            })
            .collect();
        z.authorities = Some(Arc::from(v));
    }
    if let Some(nsl) = z.ns.take() {
        let v: Vec<ForwardNSData> = nsl
            .iter()
            .cloned()
            .map(|mut d| {
                ttls.push(d.ns.ttl);
                d.ns.ttl = 0;
                let g: Vec<Record> = d
                    .glue
                    .iter()
                    .cloned()
                    .map(|mut r| {
                        ttls.push(r.ttl);
                        r.ttl = 0;
                        r
                    })
                    .collect();
                d.glue = Arc::from(g);
                d
            })
            .collect();
        z.ns = Some(Arc::from(v));
    }
    (z, nttl, ttls)
}

fn neg_eq(a: &NoRecords, b: &NoRecords) -> bool {
    let ns_eq = match (&a.ns, &b.ns) {
        (None, None) => true,
        (Some(x), Some(y)) => x.len() == y.len() && x.iter().zip(y.iter()).all(|(p, q)| p.ns == q.ns && p.glue[..] == q.glue[..]),
        _ => false,
    };
    let au_eq = match (&a.authorities, &b.authorities) {
        (None, None) => true,
        (Some(x), Some(y)) => x[..] == y[..],
        _ => false,
    };
    a.query == b.query && a.soa == b.soa && a.negative_ttl == b.negative_ttl && a.response_code == b.response_code && ns_eq && au_eq
}

fn content_of(res: &Result<Message, NetError>) -> Content {
    match res {
        Ok(m) => Content::Pos(split_pos(m).0),
        Err(NetError::Dns(DnsError::NoRecordsFound(nr))) => Content::Neg(split_neg(nr).0),
        Err(_) => Content::None,
    }
}

// ------------------------------------------------------------------------------------------
// configurations

#[derive(Clone, Debug)]
struct CfgSpec {
    default: Bounds,
    by_type: Vec<(&'static str, u16, Bounds)>,
}

fn type_code_of(name: &str) -> (&'static str, u16) {
    match name {
        "A" => ("A", 1),
        "NS" => ("NS", 2),
        "CNAME" => ("CNAME", 5),
        "MX" => ("MX", 15),
        "TXT" => ("TXT", 16),
        "AAAA" => ("AAAA", 28),
        other => panic!("type {other} not in the configuration alphabet"),
    }
}

fn bounds_json(b: &Bounds) -> Value {
    let mut m = serde_json::Map::new();
    if let Some(v) = b.pos_min {
        m.insert("positive_min_ttl".into(), json!(v));
    }
    if let Some(v) = b.pos_max {
        m.insert("positive_max_ttl".into(), json!(v));
    }
    if let Some(v) = b.neg_min {
        m.insert("negative_min_ttl".into(), json!(v));
    }
    if let Some(v) = b.neg_max {
        m.insert("negative_max_ttl".into(), json!(v));
    }
    Value::Object(m)
}

fn bounds_from_json(v: &Value) -> Bounds {
    Bounds {
        pos_min: v["positive_min_ttl"].as_u64(),
        pos_max: v["positive_max_ttl"].as_u64(),
        neg_min: v["negative_min_ttl"].as_u64(),
        neg_max: v["negative_max_ttl"].as_u64(),
    }
}

impl CfgSpec {
    fn to_json(&self) -> Value {
        let mut m = serde_json::Map::new();
        m.insert("default".into(), bounds_json(&self.default));
        for (name, _, b) in &self.by_type {
            m.insert((*name).into(), bounds_json(b));
        }
        Value::Object(m)
    }
    fn from_json(v: &Value) -> CfgSpec {
        let mut c = CfgSpec { default: Bounds::default(), by_type: vec![] };
        for (k, b) in v.as_object().expect("cfg object") {
            if k == "default" {
                c.default = bounds_from_json(b);
            } else {
                let (name, code) = type_code_of(k);
                c.by_type.push((name, code, bounds_from_json(b)));
            }
        }
        c
    }
    fn model(&self) -> Config {
        Config { default: self.default, by_type: self.by_type.iter().map(|(_, c, b)| (*c, *b)).collect() }
    }
    fn real(&self) -> TtlConfig {
        serde_json::from_value(self.to_json()).expect("TtlConfig from JSON")
    }
    /// The other construction path: `TtlConfig::from_opts(&ResolverOpts)` for the default bounds and
    /// `with_query_type_ttl_bounds` for the per-type overrides.
    fn real_via_opts(&self) -> TtlConfig {
        let d = |v: Option<u64>| v.map(Duration::from_secs);
        let mut o = ResolverOpts::default();
        o.positive_min_ttl = d(self.default.pos_min);
        o.positive_max_ttl = d(self.default.pos_max);
        o.negative_min_ttl = d(self.default.neg_min);
        o.negative_max_ttl = d(self.default.neg_max);
        let mut c = TtlConfig::from_opts(&o);
        for (name, _, b) in &self.by_type {
            let tb: TtlBounds = serde_json::from_value(bounds_json(b)).expect("TtlBounds from JSON");
            c.with_query_type_ttl_bounds(RecordType::from_str(name).expect("record type"), tb);
        }
        c
    }
    fn build(&self, via_opts: bool) -> TtlConfig {
        if via_opts { self.real_via_opts() } else { self.real() }
    }
}

fn pos(min: Option<u64>, max: Option<u64>) -> Bounds {
    Bounds { pos_min: min, pos_max: max, ..Default::default() }
}
fn neg(min: Option<u64>, max: Option<u64>) -> Bounds {
    Bounds { neg_min: min, neg_max: max, ..Default::default() }
}

/// The configuration alphabet (all with min <= max): unset, global positive, global negative,
/// both, per-type overrides (A, AAAA, TXT as query types; CNAME, NS, MX as record types), and
/// default + override combinations. Bound values from {unset, 0, 1, 2, 3}.
fn configs() -> Vec<CfgSpec> {
    let mut v = vec![CfgSpec { default: Bounds::default(), by_type: vec![] }];
    let s = Some;
    for (mn, mx) in [
        (s(0), None), (s(1), None), (s(2), None), (s(3), None),
        (None, s(0)), (None, s(1)), (None, s(2)), (None, s(3)),
        (s(1), s(2)), (s(2), s(2)), (s(0), s(0)), (s(3), s(3)), (s(1), s(3)),
    ] {
        v.push(CfgSpec { default: pos(mn, mx), by_type: vec![] });
    }
    for (mn, mx) in [
        (s(1), None), (s(2), None), (s(3), None),
        (None, s(0)), (None, s(1)), (None, s(2)),
        (s(1), s(2)), (s(2), s(2)), (s(0), s(0)),
    ] {
        v.push(CfgSpec { default: neg(mn, mx), by_type: vec![] });
    }
    v.push(CfgSpec { default: Bounds { pos_min: s(1), pos_max: s(3), neg_min: s(1), neg_max: s(2) }, by_type: vec![] });
    let one = |t: &str, b: Bounds| {
        let (name, code) = type_code_of(t);
        CfgSpec { default: Bounds::default(), by_type: vec![(name, code, b)] }
    };
    v.push(one("A", pos(s(3), None)));
    v.push(one("A", pos(None, s(1))));
    v.push(one("A", Bounds { pos_min: s(2), pos_max: s(2), neg_min: s(1), neg_max: s(1) }));
    v.push(one("AAAA", Bounds { pos_max: s(0), neg_max: s(0), ..Default::default() }));
    v.push(one("TXT", Bounds { pos_max: s(1), neg_min: s(2), ..Default::default() }));
    v.push(one("CNAME", pos(s(3), None)));
    v.push(one("CNAME", pos(None, s(1))));
    v.push(one("NS", pos(s(3), None)));
    v.push(one("NS", pos(None, s(1))));
    v.push(one("MX", pos(None, s(1))));
    let t = |t: &str, b: Bounds| {
        let (name, code) = type_code_of(t);
        (name, code, b)
    };
    v.push(CfgSpec { default: pos(s(1), s(3)), by_type: vec![t("A", pos(None, s(1))), t("CNAME", pos(s(2), None))] });
    v.push(CfgSpec { default: Bounds { pos_min: s(2), neg_max: s(1), ..Default::default() }, by_type: vec![t("AAAA", Bounds::default())] });
    v.push(CfgSpec { default: pos(None, s(1)), by_type: vec![t("CNAME", pos(s(3), None)), t("NS", pos(s(3), None))] });
    v.push(CfgSpec { default: neg(s(2), s(2)), by_type: vec![t("TXT", neg(None, s(0))), t("A", neg(s(3), None))] });
    // all four bounds set to four DIFFERENT values (a swap of two adjacent same-typed bounds is visible), as the
    // default and as a per-type override
    v.push(CfgSpec { default: Bounds { pos_min: s(2), pos_max: s(3), neg_min: s(0), neg_max: s(1) }, by_type: vec![] });
    v.push(CfgSpec {
        default: Bounds { pos_min: s(2), pos_max: s(3), neg_min: s(0), neg_max: s(1) },
        by_type: vec![t("A", Bounds { pos_min: s(0), pos_max: s(1), neg_min: s(2), neg_max: s(3) })],
    });
    v
}

// ------------------------------------------------------------------------------------------
// operations

#[derive(Clone, Copy, Debug, PartialEq, Eq, Hash)]
enum Op {
    Insert(u8, u8),
    Get(u8),
    Clear,
    ClearQuery(u8),
    Advance(u32),
}

fn op_json(op: &Op, env: &Env) -> Value {
    match op {
        Op::Insert(q, r) => json!({"op": "insert", "q": q, "r": env.shapes[*r as usize].0}),
        Op::Get(q) => json!({"op": "get", "q": q}),
        Op::Clear => json!({"op": "clear"}),
        Op::ClearQuery(q) => json!({"op": "clear_query", "q": q}),
        Op::Advance(ms) => json!({"op": "advance", "ms": ms}),
    }
}

fn op_from_json(v: &Value, env: &Env) -> Op {
    let q = v["q"].as_u64().unwrap_or(0) as u8;
    match v["op"].as_str().unwrap() {
        "insert" => {
            let label = v["r"].as_str().unwrap();
            let r = env.shapes.iter().position(|s| s.0 == label).expect("unknown result label");
            Op::Insert(q, r as u8)
        }
        "get" => Op::Get(q),
        "clear" => Op::Clear,
        "clear_query" => Op::ClearQuery(q),
        "advance" => Op::Advance(v["ms"].as_u64().unwrap() as u32),
        other => panic!("unknown op {other}"),
    }
}

// ------------------------------------------------------------------------------------------
// environment = alphabets instantiated on both sides

struct Env {
    queries: Vec<QSpec>,
    shapes: Vec<(&'static str, Shape)>,
    results: Vec<Vec<Result<Message, NetError>>>,
    stored: Vec<Vec<Stored>>,
    content: Vec<Vec<Content>>,
    /// cap for the age component of keys of entries without a defined L
    cap_undefined_ms: u64,
}

impl Env {
    fn new() -> Env {
        let queries = queries();
        let mut shapes = shapes();
        shapes.extend(far_shapes());
        let mut results = vec![];
        let mut stored = vec![];
        let mut content = vec![];
        for q in &queries {
            let mut rs = vec![];
            let mut ss = vec![];
            let mut cs = vec![];
            for (sid, (_, sh)) in shapes.iter().enumerate() {
                let (r, s) = build_result(sh, q, sid);
                cs.push(content_of(&r));
                rs.push(r);
                ss.push(s);
            }
            results.push(rs);
            stored.push(ss);
            content.push(cs);
        }
        // every TTL / bound of the near alphabets is <= 7 s
        Env { queries, shapes, results, stored, content, cap_undefined_ms: 8_000 }
    }
    fn shape_idx(&self, label: &str) -> u8 {
        self.shapes.iter().position(|s| s.0 == label).unwrap_or_else(|| panic!("no shape {label}")) as u8
    }

    fn identify(&self, qi: usize, c: &Content, hint: Option<usize>) -> Option<usize> {
        let same = |i: usize| match (&self.content[qi][i], c) {
            (Content::Pos(a), Content::Pos(b)) => a == b,
            (Content::Neg(a), Content::Neg(b)) => neg_eq(a, b),
            _ => false,
        };
        if let Some(h) = hint {
            if same(h) {
                return Some(h);
            }
        }
        (0..self.content[qi].len()).find(|i| same(*i))
    }

    fn observe(&self, qi: usize, res: Option<Result<Message, NetError>>, hint: Option<usize>) -> Observation {
        match res {
            None => Observation::Miss,
            Some(Ok(m)) => {
                let (z, ttls) = split_pos(&m);
                Observation::Positive { id: self.identify(qi, &Content::Pos(z), hint), ttls }
            }
            Some(Err(NetError::Dns(DnsError::NoRecordsFound(nr)))) => {
                let (z, nttl, ttls) = split_neg(&nr);
                Observation::Negative { id: self.identify(qi, &Content::Neg(z), hint), negative_ttl: nttl, embedded: ttls }
            }
            Some(Err(_)) => Observation::OtherError,
        }
    }
}

/// One exploration instance: a configuration, the queries operated on, the op alphabet, the
/// queries probed after every transition (the operated ones plus one foreign query).
struct Instance {
    grid: &'static str,
    cfg_idx: usize,
    cfg: CfgSpec,
    real_cfg: TtlConfig,
    model_cfg: Config,
    queries: Vec<usize>,
    probe_queries: Vec<usize>,
    probe_offsets: &'static [u64],
    ops: Vec<Op>,
    /// knobs: cache capacity (entries), TtlConfig built through from_opts / with_query_type_ttl_bounds
    capacity: u64,
    via_opts: bool,
}

const PROBE_OFFSETS_MS: [u64; 12] = [0, 400, 600, 1000, 1400, 2000, 2600, 3000, 4000, 5000, 5400, 7000];
/// the multi-query grids look ahead more coarsely (their purpose is cross-query interference)
const PROBE_OFFSETS_COARSE_MS: [u64; 4] = [0, 600, 1400, 3000];

struct ExecOut {
    key: u64,
    digest: u64,
}

fn hash_mix(h: &mut u64, v: u64) {
    *h ^= v;
    *h = h.wrapping_mul(0x100000001b3);
    *h ^= *h >> 29;
}

/// Spin until the real clock has moved: moka's `invalidate_all` discards entries whose insertion
/// timestamp is strictly smaller than the call's timestamp (nanosecond clock).
fn tick() {
    let t = Instant::now();
    while Instant::now() <= t {
        std::hint::spin_loop();
    }
}

/// Replay `hist` on a fresh real cache and a fresh model; every get is judged. Gets at history
/// positions >= `count_from` and the probes are counted as evaluations. Returns the canonical
/// key of the final model state and the digest of the probe observations.
fn execute(env: &Env, inst: &Instance, hist: &[Op], count_from: usize, probes: bool, l: &mut Local) -> ExecOut {
    let cache = ResponseCache::new(inst.capacity, inst.real_cfg.clone());
    let mut model = Model::new(inst.model_cfg.clone());
    let case = |upto: usize, probe: Option<(usize, u64)>| {
        json!({
            "cfg": inst.cfg.to_json(),
            "history": hist[..upto].iter().map(|o| op_json(o, env)).collect::<Vec<_>>(),
            "probe": probe.map(|(q, off)| json!({"q": q, "offset_ms": off})),
            "probe_queries": inst.probe_queries,
            "capacity": inst.capacity,
            "via_opts": inst.via_opts,
        })
    };
    let get = |model: &mut Model, qi: usize, at_ms: u64, count: bool, l: &mut Local, upto: usize, probe: Option<(usize, u64)>| -> u64 {
        let res = cache.get(&env.queries[qi].query, at(at_ms));
        let hint = model.entries.get(&qi).or_else(|| model.ghosts.get(&qi)).map(|e| e.result);
        let obs = env.observe(qi, res, hint);
        let verdict = model.judge_get(qi, env.queries[qi].code, at_ms, &obs, &|i| &env.stored[qi][i], true);
        let mut d = 0xcbf29ce484222325u64;
        match &obs {
            Observation::Miss => hash_mix(&mut d, 1),
            Observation::Positive { id, ttls } => {
                hash_mix(&mut d, 2 + ((id.map(|i| i as u64 + 1).unwrap_or(0)) << 8));
                for t in ttls {
                    hash_mix(&mut d, *t as u64);
                }
            }
            Observation::Negative { id, negative_ttl, embedded } => {
                hash_mix(&mut d, 3 + ((id.map(|i| i as u64 + 1).unwrap_or(0)) << 8));
                hash_mix(&mut d, negative_ttl.map(|t| t as u64 + 1).unwrap_or(0));
                for t in embedded {
                    hash_mix(&mut d, *t as u64);
                }
            }
            Observation::OtherError => hash_mix(&mut d, 4),
        }
        match verdict {
            Verdict::Ok { held, live, hit, age_vs_l, after_clear } => {
                if count {
                    l.eval();
                    let class = if hit && after_clear {
                        "obs:hit-after-clear"
                    } else if !held {
                        "get:absent-miss"
                    } else if age_vs_l == 2 {
                        if hit { "get:L-undefined-hit" } else { "get:L-undefined-miss" }
                    } else if live {
                        if hit { "get:live-hit" } else { "get:live-miss" }
                    } else {
                        "get:expired-miss"
                    };
                    l.outcome(class);
                    if hit && !after_clear {
                        if let Some(e) = model.entries.get(&qi) {
                            // the other reading of "smallest TTL": TTLs as received
                            if let Some(raw) = rc::lifetime_secs_raw(&inst.model_cfg, env.queries[qi].code, &env.stored[qi][e.result]) {
                                if at_ms - e.inserted_ms > raw * 1000 {
                                    l.outcome("obs:hit-beyond-L-of-unclamped-record-ttls");
                                }
                            }
                            l.nontrivial(
                                (inst.cfg_idx as u64) << 32 | (qi as u64) << 24 | (e.result as u64) << 8 | (age_vs_l as i64 + 2) as u64,
                            );
                        }
                    } else if live {
                        if let Some(e) = model.entries.get(&qi) {
                            l.nontrivial(
                                (inst.cfg_idx as u64) << 32 | (qi as u64) << 24 | (e.result as u64) << 8 | 0x80 | (age_vs_l as i64 + 2) as u64,
                            );
                        }
                    }
                }
            }
            Verdict::Violation(key, what) => {
                l.violation(&key, &what, || case(upto, probe));
            }
        }
        d
    };

    for (i, op) in hist.iter().enumerate() {
        match *op {
            Op::Insert(q, r) => {
                let (q, r) = (q as usize, r as usize);
                cache.insert(env.queries[q].query.clone(), env.results[q][r].clone(), at(model.now_ms));
                model.insert(q, r, &env.stored[q][r]);
            }
            Op::Get(q) => {
                let now = model.now_ms;
                get(&mut model, q as usize, now, i >= count_from, l, i + 1, None);
            }
            Op::Clear => {
                tick();
                cache.verif_clear();
                model.clear();
            }
            Op::ClearQuery(q) => {
                cache.verif_clear_query(&env.queries[q as usize].query);
                model.clear_query(q as usize);
            }
            Op::Advance(ms) => model.advance(ms as u64),
        }
    }
    let mut digest = 0x9e3779b97f4a7c15u64;
    if probes {
        for &off in inst.probe_offsets {
            for &qi in &inst.probe_queries {
                let now = model.now_ms + off;
                let d = get(&mut model, qi, now, true, l, hist.len(), Some((qi, off)));
                hash_mix(&mut digest, d);
            }
        }
    }
    // canonical key
    let mut key = 0u64;
    for (slot, &qi) in inst.queries.iter().enumerate() {
        let part = match model.entries.get(&qi) {
            None => 0u64,
            Some(e) => {
                let age = model.now_ms - e.inserted_ms;
                let cap = match rc::lifetime_secs(&inst.model_cfg, env.queries[qi].code, &env.stored[qi][e.result]) {
                    Some(lsecs) => lsecs.saturating_mul(1000).saturating_add(1),
                    None => env.cap_undefined_ms + 1,
                };
                let age = age.min(cap).min((1 << 14) - 1);
                ((e.result as u64 + 1) << 14) | age
            }
        };
        key |= part << (slot * 20);
    }
    ExecOut { key, digest }
}

// ------------------------------------------------------------------------------------------
// grids

struct GridSpec {
    name: &'static str,
    cfgs: Vec<usize>,
    query_sets: Vec<Vec<usize>>,
    shapes: Vec<&'static str>,
    dts: Vec<u32>,
    max_depth: usize,
    coarse_probes: bool,
    via_opts: bool,
}

fn foreign_query(qs: &[usize]) -> usize {
    // prefer the query with the same name and another type
    for cand in [1usize, 0, 2] {
        if !qs.contains(&cand) {
            return cand;
        }
    }
    usize::MAX
}

fn instances(env: &Env, cfgs: &[CfgSpec], g: &GridSpec, seed: u64) -> Vec<Instance> {
    let mut out = vec![];
    for &ci in &g.cfgs {
        for qs in &g.query_sets {
            let mut ops = vec![];
            for &q in qs {
                for s in &g.shapes {
                    ops.push(Op::Insert(q as u8, env.shape_idx(s)));
                }
            }
            for &q in qs {
                ops.push(Op::Get(q as u8));
            }
            ops.push(Op::Clear);
            for &q in qs {
                ops.push(Op::ClearQuery(q as u8));
            }
            for &d in &g.dts {
                ops.push(Op::Advance(d));
            }
            // VERIF_SEED only permutes the enumeration order
            let k = (seed % ops.len() as u64) as usize;
            ops.rotate_left(k);
            let mut probe_queries = qs.clone();
            let f = foreign_query(qs);
            if f != usize::MAX {
                probe_queries.push(f);
            }
            let cfg = cfgs[ci].clone();
            out.push(Instance {
                grid: g.name,
                cfg_idx: ci,
                real_cfg: cfg.build(g.via_opts),
                model_cfg: cfg.model(),
                cfg,
                queries: qs.clone(),
                probe_queries,
                probe_offsets: if g.coarse_probes { &PROBE_OFFSETS_COARSE_MS } else { &PROBE_OFFSETS_MS },
                ops,
                capacity: 64,
                via_opts: g.via_opts,
            });
        }
    }
    out
}

#[derive(Clone)]
struct Node {
    inst: u32,
    hist: Vec<Op>,
}

type Key = (u32, u64);

struct Differential {
    shards: Vec<Mutex<HashMap<Key, u64>>>,
    mismatches: AtomicU64,
    first: Mutex<Option<Value>>,
}

impl Differential {
    fn new() -> Self {
        Differential { shards: (0..256).map(|_| Mutex::new(HashMap::new())).collect(), mismatches: AtomicU64::new(0), first: Mutex::new(None) }
    }
    fn check(&self, key: Key, digest: u64, describe: impl FnOnce() -> Value) {
        let sh = ((key.1 ^ (key.1 >> 17) ^ key.0 as u64).wrapping_mul(0x9e3779b97f4a7c15) >> 56) as usize;
        let mut m = self.shards[sh].lock().unwrap();
        match m.get(&key) {
            None => {
                m.insert(key, digest);
            }
            Some(d) if *d == digest => {}
            Some(_) => {
                drop(m);
                if self.mismatches.fetch_add(1, Ordering::SeqCst) == 0 {
                    *self.first.lock().unwrap() = Some(describe());
                }
            }
        }
    }
}

fn run_grid(ctx: &Ctx, env: &Env, insts: &[Instance], base_id: u32, max_depth: usize, diff: &Differential) -> vcore::BfsStats {
    let roots: Vec<(Node, Key)> = (0..insts.len()).map(|i| (Node { inst: base_id + i as u32, hist: vec![] }, (base_id + i as u32, 0u64))).collect();
    let selftest = ctx.quick();
    bfs(ctx, roots, max_depth, |node, l| {
        let inst = &insts[(node.inst - base_id) as usize];
        let mut succ = Vec::with_capacity(inst.ops.len());
        for (oi, op) in inst.ops.iter().enumerate() {
            let mut h = node.hist.clone();
            h.push(*op);
            let count_from = h.len() - 1;
            let t0 = Instant::now();
            let res = catch(|| execute(env, inst, &h, count_from, true, l));
            if t0.elapsed() > Duration::from_secs(5) {
                eprintln!("[C15] slow transition ({:.1}s): cfg {} history {:?}", t0.elapsed().as_secs_f64(), inst.cfg.to_json(), h);
            }
            match res {
                Ok(out) => {
                    let key = (node.inst, out.key);
                    diff.check(key, out.digest, || json!({"cfg": inst.cfg.to_json(), "history": h.iter().map(|o| op_json(o, env)).collect::<Vec<_>>()}));
                    if selftest && oi % 8 == 0 {
                        // determinism self-test: the same history again must observe the same
                        let mut scratch = Local::default();
                        let again = execute(env, inst, &h, usize::MAX, true, &mut scratch);
                        if again.digest != out.digest || again.key != out.key {
                            ctx.machinery_failure("nondeterminism: the same history observed differently on re-execution");
                        }
                    }
                    ctx.traces_validated.fetch_add(1, Ordering::Relaxed);
                    succ.push((Node { inst: node.inst, hist: h }, key));
                }
                Err(p) => {
                    l.violation(&format!("panic:{}", vcore::short_loc(&p.loc)), &format!("cache panicked: {}", p.msg), || {
                        json!({"cfg": inst.cfg.to_json(), "history": h.iter().map(|o| op_json(o, env)).collect::<Vec<_>>(), "probe_queries": inst.probe_queries})
                    });
                }
            }
        }
        if node.hist.len() == 2 && l.samples.len() < 2 {
            l.sample(json!({"grid": inst.grid, "cfg": inst.cfg.to_json(), "history": node.hist.iter().map(|o| op_json(o, env)).collect::<Vec<_>>()}));
        }
        succ
    })
}

/// Matching-free enumeration of ALL op sequences of length <= depth of the instance; returns the
/// set of canonical keys reached.
fn free_run(ctx: &Ctx, env: &Env, inst: &Instance, depth: usize) -> (HashSet<u64>, u64) {
    let k = inst.ops.len() as u64;
    let keys: Mutex<HashSet<u64>> = Mutex::new(HashSet::new());
    let mut total = 0u64;
    for len in 0..=depth {
        let space = k.pow(len as u32);
        total += space;
        ctx.par_run_init(
            space,
            256,
            |_| HashSet::<u64>::new(),
            |idx, l, local_keys| {
                let mut h = Vec::with_capacity(len);
                let mut i = idx;
                for _ in 0..len {
                    h.push(inst.ops[(i % k) as usize]);
                    i /= k;
                }
                match catch(|| execute(env, inst, &h, 0, true, l)) {
                    Ok(out) => {
                        if local_keys.insert(out.key) {
                            keys.lock().unwrap().insert(out.key);
                        }
                    }
                    Err(p) => l.violation(&format!("panic:{}", vcore::short_loc(&p.loc)), &p.msg, || {
                        json!({"cfg": inst.cfg.to_json(), "history": h.iter().map(|o| op_json(o, env)).collect::<Vec<_>>(), "probe_queries": inst.probe_queries})
                    }),
                }
            },
        );
    }
    (keys.into_inner().unwrap(), total)
}

fn main() {
    // a stack overflow / abort in the code under test must become a verdict, not a dead check
    vcore::supervise("C15");
    vcore::install_log_evaluation(); // logging is part of the environment: log arguments are evaluated as under a real subscriber
    let ctx = Ctx::from_args("C15", "model_checking");
    let env = Env::new();
    let cfgs = configs();

    if let Err(e) = rc::self_test() {
        vcore::machinery_exit(&format!("vref::cache self-test failed: {e}"));
    }

    if let Some((_key, case)) = ctx.replay_case() {
        if let Some(path) = case["ctor"].as_str() {
            let path = path.to_string();
            ctx.with_local(|l| {
                if path == "recursor" {
                    seam::run_ctor_recursor(l);
                } else {
                    seam::run_ctor(l);
                }
            });
            ctx.finish(false);
        }
        if case["seam"].as_bool() == Some(true) {
            ctx.with_local(|l| {
                seam::run(true, case["world"].as_str(), l);
            });
            ctx.finish(false);
        }
        let cfg = CfgSpec::from_json(&case["cfg"]);
        let hist: Vec<Op> = case["history"].as_array().map(|a| a.iter().map(|o| op_from_json(o, &env)).collect()).unwrap_or_default();
        let probe_queries: Vec<usize> =
            case["probe_queries"].as_array().map(|a| a.iter().map(|x| x.as_u64().unwrap() as usize).collect()).unwrap_or_else(|| vec![0, 1, 2]);
        let via_opts = case["via_opts"].as_bool().unwrap_or(false);
        let inst = Instance {
            grid: "replay",
            cfg_idx: 0,
            real_cfg: cfg.build(via_opts),
            model_cfg: cfg.model(),
            cfg,
            queries: vec![0, 1, 2],
            probe_queries,
            probe_offsets: &PROBE_OFFSETS_MS,
            ops: vec![],
            capacity: case["capacity"].as_u64().unwrap_or(64),
            via_opts,
        };
        ctx.with_local(|l| match catch(|| execute(&env, &inst, &hist, 0, true, l)) {
            Ok(_) => {}
            Err(p) => {
                let key = if inst.model_cfg.min_above_default_max() && (p.msg.contains("min > max") || p.msg.contains("min <= max")) {
                    let negative = hist.iter().any(|o| matches!(o, Op::Insert(q, r) if matches!(env.stored[*q as usize][*r as usize], Stored::Negative { .. })));
                    format!("insert-panics:min-above-default-max:{}", if negative { "negative" } else { "positive" })
                } else {
                    format!("panic:{}", vcore::short_loc(&p.loc))
                };
                l.violation(&key, &p.msg, || case.clone())
            }
        });
        ctx.finish(false);
    }

    ctx.set_rule(&format!(
        "E-STATE on the real ResponseCache: BFS over histories of insert(q,r)/get(q)/clear/clear_query(q)/advance(dt), \
         q in {{(n1,A),(n1,AAAA),(n2,TXT)}}, r from {} result shapes (positive: 1-2 records of the query type with TTL 0/1/2/5, CNAME+target, \
         authority NS / additional A with larger and smaller TTLs, answers without a record of the query type; negative: negative_ttl \
         None/0/1/3/5 with SOA, authorities, NS+glue; 9 transient/other errors), dt in {{0,400,600,1000,2000,4000}} ms, x {} TTL \
         configurations (global / per-type positive and negative min/max from {{unset,0,1,2,3}}, min<=max). Grids: single (every \
         configuration x every query, full alphabets, to the fixpoint of canonical states = histories of any length), pair and triple \
         (sub-alphabets, fixpoint or depth bound, see coverage.grids), far (E-ENUM around the default maximum of one day, TTLs 2^31 / u32::MAX, \
         configured minima above one day). Seam family (E-ENUM, real time): CachingClient::lookup over a scripted upstream for every world of \
         direct / one-response / two-hop / three-hop alias chains, negative answers with SOA(ttl, minimum), chains to negative and failing \
         targets, upstream failures, TTLs from {{0,1,2,(3,)9}}; alias chains of 1/2/3 links with EVERY TTL assignment from {{1,2,300}} to the \
         links and the terminal record x answer-section order (chain order / reversed / terminal first), in one response and split over two \
         responses after every link, alias and every intermediate name looked up; preserve_intermediates on/off; re-looked-up at 0, 1.15, \
         2.15, 3.15 s. The clause `alias-in-the-cached-response` / `alias-chain` (an answer produced from ONE upstream response is bounded by \
         every alias link of that response, also when the CNAMEs are filtered out) rests on reading 'the entry's records' as the records of \
         the cached response (hickory's documented intent, test cname_alias_bounds_cache_lifetime). \
         After every transition a fixed look-ahead probe sequence (12 offsets x probed queries incl. one foreign query) is executed and \
         judged. Oracle = vref::cache (acceptance model from the statement). Non-trivial = distinct (configuration, query, result, \
         hit/miss, age<L / =L / >L / L undefined) among judged gets on entries the model holds.",
        shapes().len(),
        cfgs.len()
    ));
    ctx.assume("vref::cache reference model (statement of C15 + documented TtlConfig semantics: override replaces default bounds; unset min=0, max=1 day)");
    ctx.assume("L is computed from the per-type clamped record TTLs (DESIGN reading); the reading with unclamped TTLs is only logged (obs:hit-beyond-L-of-unclamped-record-ttls)");
    ctx.assume("canonical-key argument (per query: last cacheable result, age capped just above its lifetime), tested by the digest differential and the matching-free cross-run");
    ctx.assume("all `now` values lie 30 days ahead of the real clock, so moka's own real-time expiry never fires; moka can only forget earlier, which the oracle always allows");
    ctx.assume("seam family: CachingClient reads the real clock; only lower bounds on an entry's age are used (age >= start of the lookup - end of the lookup that last fetched it), so stalls cannot produce false alarms; upstream TTLs are the ground truth");
    ctx.assume("clear/clear_query semantics are not part of the statement: a hit on a cleared entry would be logged (obs:hit-after-clear), not judged");

    // harness self-check: the serde-built TtlConfig means what the model configuration says
    for c in &cfgs {
        let real = c.real();
        let model = c.model();
        if !model.well_formed() {
            vcore::machinery_exit("configuration alphabet contains min > max");
        }
        for (rt, code) in [(RecordType::A, 1u16), (RecordType::AAAA, 28), (RecordType::TXT, 16), (RecordType::CNAME, 5), (RecordType::NS, 2), (RecordType::MX, 15), (RecordType::SOA, 6)] {
            let p = real.positive_response_ttl_bounds(rt).into_inner();
            let ng = real.negative_response_ttl_bounds(rt).into_inner();
            let (ml, mh) = model.positive(code);
            let (nl, nh) = model.negative(code);
            if (p.0.as_secs(), p.1.as_secs(), ng.0.as_secs(), ng.1.as_secs()) != (ml, mh, nl, nh) {
                // the bounds the real TtlConfig reports are not the configured ones: "clamped to the
                // configured bounds" cannot hold - a judged violation, not a harness failure
                let what = format!(
                    "TtlConfig reports bounds {:?} for type {code} where ({ml},{mh},{nl},{nh}) are configured",
                    (p.0.as_secs(), p.1.as_secs(), ng.0.as_secs(), ng.1.as_secs())
                );
                ctx.with_local(|l| l.violation("config:bounds-differ-from-the-configured-ones", &what, || c.to_json()));
            }
        }
    }
    ctx.set("configurations", json!(cfgs.len()));
    ctx.set("result_shapes", json!(shapes().len()));

    let quick = ctx.quick();
    // the seam family (CachingClient over a scripted upstream, real time) sleeps most of its ~3.3 s:
    // it runs beside the grids; only lower bounds on ages are used, so contention cannot hurt
    let seam_thread = std::thread::spawn(move || {
        let mut l = Local::default();
        let st = vcore::catch(|| seam::run(!quick, None, &mut l));
        (l, st)
    });
    // construction-path family: the cache as a Resolver builds it from ResolverOpts (real time, ~3.2 s)
    let ctor_thread = std::thread::spawn(move || {
        let mut l = Local::default();
        let st = vcore::catch(|| seam::run_ctor(&mut l) + seam::run_ctor_recursor(&mut l));
        (l, st)
    });
    let all_cfgs: Vec<usize> = (0..cfgs.len()).collect();
    let near_shapes: Vec<&'static str> = shapes().iter().map(|s| s.0).collect();
    let diff = Differential::new();
    let mut base_id = 0u32;
    let mut all_complete = true;
    let mut grid_stats = serde_json::Map::new();

    let mut run = |g: GridSpec, base_id: &mut u32| {
        let insts = instances(&env, &cfgs, &g, ctx.seed);
        let st = run_grid(&ctx, &env, &insts, *base_id, g.max_depth, &diff);
        *base_id += insts.len() as u32;
        grid_stats.insert(
            g.name.to_string(),
            json!({"instances": insts.len(), "ops_per_state": insts[0].ops.len(), "states": st.states, "transitions": st.transitions,
                   "depth_completed": st.depth_completed, "fixpoint": st.fixpoint, "depth_bound": g.max_depth, "per_depth": st.per_depth}),
        );
        eprintln!("[C15] grid {} instances={} states={} transitions={} depth={} fixpoint={} t={:.1}s", g.name, insts.len(), st.states, st.transitions, st.depth_completed, st.fixpoint, ctx.elapsed_s());
        st
    };

    // G1: one query, everything else complete, to the fixpoint
    let st = run(
        GridSpec {
            name: "single",
            cfgs: all_cfgs.clone(),
            query_sets: vec![vec![0], vec![1], vec![2]],
            shapes: near_shapes.clone(),
            dts: vec![0, 400, 600, 1000, 2000, 4000],
            max_depth: 40,
            coarse_probes: false,
            via_opts: false,
        },
        &mut base_id,
    );
    if !st.fixpoint {
        all_complete = false;
        ctx.cap("grid single: depth bound reached before the fixpoint");
    }

    // G2: two queries (same name / different name), sub-alphabets, to the fixpoint
    let pair_cfgs: Vec<usize> = if quick {
        vec![0, 9, 23, 27, 35]
    } else {
        // every third global configuration, every per-type / combined one
        all_cfgs.iter().copied().filter(|i| *i >= 24 || i % 3 == 0).collect()
    };
    let pair_shapes: Vec<&'static str> = if quick {
        vec!["q1", "cname1+q5", "q2+ns7+glue1", "q5+auq1", "neg1-full", "err-timeout"]
    } else {
        vec!["q0", "q1", "q5", "q1+q5", "cname1+q5", "cname5+q2", "q2+ns7+glue1", "q5+auq1", "mx2", "neg-none", "neg1-full", "neg3", "err-timeout"]
    };
    let st = run(
        GridSpec {
            name: "pair",
            cfgs: pair_cfgs,
            query_sets: if quick { vec![vec![0, 1], vec![0, 2]] } else { vec![vec![0, 1], vec![0, 2], vec![1, 2]] },
            shapes: pair_shapes,
            dts: if quick { vec![400, 600, 1000, 2000] } else { vec![0, 400, 600, 1000, 2000, 4000] },
            max_depth: 40,
            coarse_probes: true,
            via_opts: false,
        },
        &mut base_id,
    );
    if !st.fixpoint {
        all_complete = false;
        ctx.cap("grid pair: depth bound reached before the fixpoint");
    }

    // G3: all three queries, small alphabets; quick: depth-bounded, thorough: to the fixpoint
    let st = run(
        GridSpec {
            name: "triple",
            cfgs: if quick { vec![0, 9, 27] } else { vec![0, 9, 23, 27, 35] },
            query_sets: vec![vec![0, 1, 2]],
            shapes: if quick { vec!["q1", "cname1+q5", "neg1-full", "err-timeout"] } else { vec!["q1", "q5", "cname1+q5", "neg1-full", "neg3", "err-timeout"] },
            dts: if quick { vec![600, 1000, 2000] } else { vec![400, 600, 1000, 2000] },
            max_depth: if quick { 6 } else { 40 },
            coarse_probes: true,
            via_opts: false,
        },
        &mut base_id,
    );
    if !quick && !st.fixpoint {
        all_complete = false;
        ctx.cap("grid triple: depth bound reached before the fixpoint");
    }

    // cross-run: matching-free enumeration of a small grid vs BFS with matching
    {
        let g = GridSpec {
            name: "cross",
            cfgs: vec![0, 9, 27],
            query_sets: vec![vec![0]],
            shapes: vec!["q1", "q1+q5", "cname1+q5", "neg1-full", "err-timeout"],
            dts: vec![400, 1000, 2000],
            max_depth: if quick { 4 } else { 5 },
            coarse_probes: false,
            via_opts: false,
        };
        let insts = instances(&env, &cfgs, &g, ctx.seed);
        let mut free_states = 0u64;
        let mut free_histories = 0u64;
        for inst in &insts {
            let (keys, total) = free_run(&ctx, &env, inst, g.max_depth);
            free_states += keys.len() as u64;
            free_histories += total;
        }
        let st = run_grid(&ctx, &env, &insts, base_id, g.max_depth, &diff);
        base_id += insts.len() as u32;
        ctx.set("cross_run", json!({"histories_without_matching": free_histories, "keys_without_matching": free_states, "bfs_states": st.states, "depth": g.max_depth}));
        eprintln!("[C15] cross-run histories={} keys={} bfs_states={} t={:.1}s", free_histories, free_states, st.states, ctx.elapsed_s());
        if free_states != st.states {
            ctx.machinery_failure(&format!("cross-run: matching-free enumeration reached {free_states} keys, BFS with matching {}", st.states));
        }
    }
    let _ = base_id;

    // knob: the other construction path of the configuration (ResolverOpts -> TtlConfig::from_opts,
    // with_query_type_ttl_bounds). Its bounds must be the declared ones, and the cache built from it is
    // run through a grid of its own.
    ctx.with_local(|l| {
        for c in &cfgs {
            let real = c.real_via_opts();
            let model = c.model();
            for (rt, code) in [(RecordType::A, 1u16), (RecordType::AAAA, 28), (RecordType::TXT, 16), (RecordType::CNAME, 5), (RecordType::NS, 2), (RecordType::MX, 15), (RecordType::SOA, 6)] {
                l.eval();
                let p = real.positive_response_ttl_bounds(rt).into_inner();
                let ng = real.negative_response_ttl_bounds(rt).into_inner();
                let want = (model.positive(code), model.negative(code));
                let got = ((p.0.as_secs(), p.1.as_secs()), (ng.0.as_secs(), ng.1.as_secs()));
                if got != want {
                    l.violation(
                        "config:from_opts-bounds-differ-from-the-configured-ones",
                        &format!("type {rt}: configured (positive, negative) = {want:?}, TtlConfig::from_opts / with_query_type_ttl_bounds give {got:?}"),
                        || json!({"config_ctor": true, "cfg": c.to_json()}),
                    );
                }
            }
        }
    });
    run(
        GridSpec {
            name: "single-via-from_opts",
            cfgs: if quick { all_cfgs.iter().copied().filter(|i| i % 3 == 1 || *i >= 30).collect() } else { all_cfgs.clone() },
            query_sets: vec![vec![0]],
            shapes: if quick {
                vec!["q0", "q2", "q1+q5", "cname1+q5", "q2+ns7+glue1", "q5+auq1", "mx2", "neg-none", "neg1-full", "neg5-ns", "err-timeout"]
            } else {
                near_shapes.clone()
            },
            dts: vec![400, 600, 1000, 2000, 4000],
            max_depth: 40,
            coarse_probes: false,
            via_opts: true,
        },
        &mut base_id,
    );

    // boundary family (E-ENUM): one insert, one get exactly AT the expiry instant and 1 ns / 1 ms before
    // and after it (the BFS ages are multiples of 200 ms)
    {
        let mut cases = vec![];
        for ci in 0..cfgs.len() {
            for q in 0..3usize {
                for r in 0..shapes().len() {
                    cases.push((ci, q, r));
                }
            }
        }
        let model_cfgs: Vec<Config> = cfgs.iter().map(|c| c.model()).collect();
        let real_cfgs: Vec<TtlConfig> = cfgs.iter().map(|c| c.real()).collect();
        ctx.set("boundary_family_cases", json!(cases.len() * 7));
        ctx.par_run(cases.len() as u64, 64, |i, l| {
            let (ci, q, r) = cases[i as usize];
            let st = &env.stored[q][r];
            let Some(lsecs) = rc::lifetime_secs(&model_cfgs[ci], env.queries[q].code, st) else { return };
            let kind = if matches!(st, Stored::Positive { .. }) { "positive" } else { "negative" };
            for delta_ns in [-1_000_000_000i64, -1_000_000, -1, 0, 1, 1_000_000, 1_000_000_000] {
                let total_ns = lsecs as i64 * 1_000_000_000 + delta_ns;
                if total_ns < 0 {
                    continue;
                }
                l.eval();
                let cache = ResponseCache::new(64, real_cfgs[ci].clone());
                cache.insert(env.queries[q].query.clone(), env.results[q][r].clone(), at(0));
                let res = cache.get(&env.queries[q].query, *BASE + Duration::from_nanos(total_ns as u64));
                let obs = env.observe(q, res, Some(r));
                let case = || json!({"boundary": true, "cfg": cfgs[ci].to_json(), "q": q, "r": env.shapes[r].0, "get_at_ns_after_insert": total_ns, "L_s": lsecs});
                let elapsed_ms = (total_ns / 1_000_000) as u64;
                match (&obs, st) {
                    (Observation::Miss, _) => l.outcome(if delta_ns > 0 { "boundary:miss-after-expiry" } else { "boundary:miss-before-expiry" }),
                    (Observation::OtherError, _) => l.violation("transient-error-returned", "get returned an error that is not a negative answer", case),
                    (_, _) if delta_ns > 0 => l.violation(
                        &format!("served-after-expiry:{kind}"),
                        &format!("entry returned {delta_ns} ns after its expiry instant (L = {lsecs} s)"),
                        case,
                    ),
                    (Observation::Positive { id, ttls }, Stored::Positive { records }) => {
                        let want = rc::expected_positive_ttls(&model_cfgs[ci], records, elapsed_ms);
                        if *id != Some(r) || *ttls != want {
                            l.violation("ttl-mismatch:positive:at-the-boundary", &format!("reported {ttls:?}, expected {want:?} at {total_ns} ns"), case);
                        } else {
                            l.outcome("boundary:hit-before-or-at-expiry");
                        }
                    }
                    (Observation::Negative { id, negative_ttl, embedded }, Stored::Negative { negative_ttl: n0, embedded: e0 }) => {
                        let want = rc::expected_negative_ttls(*n0, e0, elapsed_ms);
                        if *id != Some(r) || (negative_ttl, embedded) != (&want.0, &want.1) {
                            l.violation("ttl-mismatch:negative:at-the-boundary", &format!("reported {negative_ttl:?} {embedded:?}, expected {want:?} at {total_ns} ns"), case);
                        } else {
                            l.outcome("boundary:hit-before-or-at-expiry");
                        }
                    }
                    _ => l.violation("not-last-inserted:boundary", "kind of the returned entry differs from the inserted one", case),
                }
            }
        });
    }

    // capacity family (E-ENUM, no state matching: moka evicts lazily): caches of 0, 1 and 2 entries, every
    // op sequence of length <= 4 over insert / get on three queries and a 1 s advance; eviction may only
    // make gets miss, a hit must still be the last insert of that query with the right TTLs
    {
        let cap_cfgs = [0usize, 9, 27];
        let mut ops = vec![];
        for q in 0..3u8 {
            for s in ["q2", "neg3"] {
                ops.push(Op::Insert(q, env.shape_idx(s)));
            }
        }
        for q in 0..3u8 {
            ops.push(Op::Get(q));
        }
        ops.push(Op::Advance(1000));
        let insts: Vec<Instance> = cap_cfgs
            .iter()
            .flat_map(|ci| {
                let c = cfgs[*ci].clone();
                [0u64, 1, 2].into_iter().map(move |cap| Instance {
                    grid: "capacity",
                    cfg_idx: 2000 + *ci,
                    real_cfg: c.real(),
                    model_cfg: c.model(),
                    cfg: c.clone(),
                    queries: vec![0, 1, 2],
                    probe_queries: vec![0, 1, 2],
                    probe_offsets: &PROBE_OFFSETS_COARSE_MS,
                    ops: vec![],
                    capacity: cap,
                    via_opts: false,
                })
            })
            .collect();
        let k = ops.len() as u64;
        let depth = if quick { 3 } else { 4 };
        let per: u64 = (0..=depth).map(|d| k.pow(d)).sum();
        ctx.set("capacity_family_histories", json!(per * insts.len() as u64));
        ctx.par_run(per * insts.len() as u64, 64, |idx, l| {
            let inst = &insts[(idx / per) as usize];
            let mut i = idx % per;
            let mut len = 0u32;
            while i >= k.pow(len) {
                i -= k.pow(len);
                len += 1;
            }
            let mut h = Vec::with_capacity(len as usize);
            for _ in 0..len {
                h.push(ops[(i % k) as usize]);
                i /= k;
            }
            let before = l.outcomes.get("get:live-hit").copied().unwrap_or(0);
            if let Err(p) = catch(|| execute(&env, inst, &h, 0, true, l)) {
                l.violation(&format!("panic:{}", vcore::short_loc(&p.loc)), &p.msg, || {
                    json!({"cfg": inst.cfg.to_json(), "history": h.iter().map(|o| op_json(o, &env)).collect::<Vec<_>>(), "probe_queries": [0, 1, 2], "capacity": inst.capacity})
                });
            }
            if inst.capacity > 0 && l.outcomes.get("get:live-hit").copied().unwrap_or(0) > before {
                l.outcome("capacity:hit-in-a-small-cache");
            }
        });
    }

    // relay family (E-ENUM): an answer served by cache 1 at age a is inserted into cache 2; whatever cache 2
    // serves at age b must still respect the ORIGINAL lifetime = the TTLs as received (counting a in whole
    // seconds, the TTL granularity) and may not report more than the original TTL minus both elapsed times. Configurations
    // without minima (a minimum legitimately restarts the clamp in every cache).
    {
        let relay_cfgs: Vec<usize> = (0..cfgs.len())
            .filter(|i| {
                let c = &cfgs[*i];
                c.default.pos_min.is_none() && c.default.neg_min.is_none() && c.by_type.iter().all(|(_, _, b)| b.pos_min.is_none() && b.neg_min.is_none())
            })
            .collect();
        let mut cases = vec![];
        for &ci in &relay_cfgs {
            for q in 0..3usize {
                for r in 0..shapes().len() {
                    for a in [0u64, 400, 1000, 1400, 2000, 3600] {
                        cases.push((ci, q, r, a));
                    }
                }
            }
        }
        ctx.set("relay_family_cases", json!(cases.len()));
        ctx.par_run(cases.len() as u64, 64, |i, l| {
            let (ci, q, r, a) = cases[i as usize];
            let st = &env.stored[q][r];
            let mcfg = cfgs[ci].model();
            if rc::lifetime_secs(&mcfg, env.queries[q].code, st).is_none() {
                return;
            }
            // the ORIGINAL lifetime: the TTLs as received (a maximum is local policy of each cache and may
            // only shorten; the negative_ttl field is handed on unclamped)
            let unbounded = Config::default();
            let Some(l1) = rc::lifetime_secs(&unbounded, env.queries[q].code, st) else { return };
            let query = &env.queries[q].query;
            let c1 = ResponseCache::new(64, cfgs[ci].real());
            c1.insert(query.clone(), env.results[q][r].clone(), at(0));
            let Some(served) = c1.get(query, at(a)) else { return };
            let c2 = ResponseCache::new(64, cfgs[ci].real());
            c2.insert(query.clone(), served, at(a));
            for b in PROBE_OFFSETS_MS {
                l.eval();
                let res = c2.get(query, at(a + b));
                let obs = env.observe(q, res, Some(r));
                let case = || json!({"relay": true, "cfg": cfgs[ci].to_json(), "q": q, "r": env.shapes[r].0, "relayed_at_ms": a, "second_get_after_ms": b, "L_s": l1});
                let total_ms = (a / 1000) * 1000 + b;
                let down = |v: u32| -> u32 { rc::counted_down(v as u64, (a / 1000) * 1000).saturating_sub((b / 1000) as u32) };
                match (&obs, st) {
                    (Observation::Miss, _) => l.outcome("relay:miss"),
                    (Observation::OtherError, _) => l.violation("transient-error-returned", "the second cache returned an error that is not a negative answer", case),
                    (_, _) if total_ms > l1 * 1000 => l.violation(
                        "relay:served-beyond-the-original-lifetime",
                        &format!("second cache serves the answer {b} ms after it was relayed at age {a} ms; original L = {l1} s"),
                        case,
                    ),
                    (Observation::Positive { ttls, .. }, Stored::Positive { records }) => {
                        let want: Vec<u32> = rc::expected_positive_ttls(&unbounded, records, 0).into_iter().map(down).collect();
                        if ttls.len() != want.len() || ttls.iter().zip(want.iter()).any(|(g, w)| g > w) {
                            l.violation("relay:ttl-too-high", &format!("second cache reports {ttls:?}, the original TTLs minus both elapsed times are {want:?}"), case);
                        } else {
                            l.outcome("relay:hit");
                        }
                    }
                    (Observation::Negative { negative_ttl, embedded, .. }, Stored::Negative { negative_ttl: n0, embedded: e0 }) => {
                        let want_e: Vec<u32> = e0.iter().map(|v| down(*v)).collect();
                        let want_n = n0.map(down);
                        let bad = embedded.len() != want_e.len() || embedded.iter().zip(want_e.iter()).any(|(g, w)| g > w) || matches!((negative_ttl, want_n), (Some(g), Some(w)) if *g > w);
                        if bad {
                            l.violation("relay:ttl-too-high", &format!("second cache reports {negative_ttl:?} {embedded:?}, expected at most {want_n:?} {want_e:?}"), case);
                        } else {
                            l.outcome("relay:hit");
                        }
                    }
                    _ => l.violation("not-last-inserted:relay", "kind of the relayed entry changed", case),
                }
            }
        });
    }

    // observation only: RFC 2181 section 8 wants a TTL with the most significant bit set treated as zero;
    // the statement only says "clamped to the configured bounds" (hickory: the default maximum of one day)
    ctx.with_local(|l| {
        let cache = ResponseCache::new(8, TtlConfig::default());
        let q = env.queries[0].query.clone();
        cache.insert(q.clone(), env.results[0][env.shape_idx("far-q2^31") as usize].clone(), at(0));
        match cache.get(&q, at(3_600_000)) {
            Some(Ok(m)) => l.outcome(if m.answers[0].ttl > 0 { "obs:ttl-with-the-sign-bit-set-is-cached-up-to-the-default-maximum(RFC-2181-8-says-treat-as-0)" } else { "obs:ttl-with-the-sign-bit-set-reported-as-0" }),
            _ => l.outcome("obs:ttl-with-the-sign-bit-set-is-not-cached"),
        }
    });

    // far grid (E-ENUM): the documented default maximum of one day and u32 limits
    {
        let mut far: Vec<&'static str> = far_shapes().iter().map(|s| s.0).collect();
        far.extend(["q2", "cname1+q5", "q5+auq1", "neg1-full", "neg-none"]);
        let (a_name, a_code) = type_code_of("A");
        let far_cfgs = vec![
            CfgSpec { default: Bounds::default(), by_type: vec![] },
            CfgSpec { default: Bounds { pos_max: Some(200_000), neg_max: Some(200_000), ..Default::default() }, by_type: vec![] },
            // a configured minimum above the built-in one-day default maximum (no maximum configured)
            CfgSpec { default: pos(Some(90_000), None), by_type: vec![] },
            CfgSpec { default: neg(Some(90_000), None), by_type: vec![] },
            CfgSpec { default: Bounds::default(), by_type: vec![(a_name, a_code, Bounds { pos_min: Some(100_000), neg_min: Some(100_000), ..Default::default() })] },
            CfgSpec { default: Bounds { pos_min: Some(90_000), pos_max: Some(200_000), neg_min: Some(90_000), neg_max: Some(200_000) }, by_type: vec![] },
        ];
        let advances: [u32; 13] = [
            0, 86_398_600, 86_399_000, 86_400_000, 86_400_400, 86_401_000, 89_999_600, 90_000_000, 90_000_400, 100_000_400, 199_999_600, 200_000_000,
            200_000_400,
        ];
        let mut cases = vec![];
        for ci in 0..far_cfgs.len() {
            for q in 0..3u8 {
                for s in &far {
                    for a in advances {
                        cases.push((ci, q, env.shape_idx(s), a));
                    }
                }
            }
        }
        let far_insts: Vec<Instance> = far_cfgs
            .iter()
            .enumerate()
            .map(|(i, c)| Instance {
                grid: "far",
                cfg_idx: 1000 + i,
                real_cfg: c.real(),
                model_cfg: c.model(),
                cfg: c.clone(),
                queries: vec![0, 1, 2],
                probe_queries: vec![0, 1, 2],
                probe_offsets: &PROBE_OFFSETS_MS,
                ops: vec![],
                capacity: 64,
                via_opts: false,
            })
            .collect();
        ctx.set("far_grid_cases", json!(cases.len()));
        ctx.par_run(cases.len() as u64, 8, |i, l| {
            let (ci, q, r, a) = cases[i as usize];
            let hist = vec![Op::Insert(q, r), Op::Advance(a), Op::Get(q)];
            if let Err(p) = catch(|| execute(&env, &far_insts[ci], &hist, 0, true, l)) {
                let key = if far_insts[ci].model_cfg.min_above_default_max() && (p.msg.contains("min > max") || p.msg.contains("min <= max")) {
                    let kind = match env.stored[q as usize][r as usize] {
                        Stored::Positive { .. } => "positive",
                        _ => "negative",
                    };
                    format!("insert-panics:min-above-default-max:{kind}")
                } else {
                    format!("panic:{}", vcore::short_loc(&p.loc))
                };
                l.violation(&key, &format!("insert panicked: {}", p.msg), || {
                    json!({"cfg": far_insts[ci].cfg.to_json(), "history": hist.iter().map(|o| op_json(o, &env)).collect::<Vec<_>>(), "probe_queries": [0, 1, 2]})
                });
            }
        });
    }

    // observation only: min > max is outside the statement (Duration::clamp / u32::clamp assert)
    ctx.with_local(|l| {
        for c in [
            CfgSpec { default: pos(Some(3), Some(1)), by_type: vec![] },
            CfgSpec { default: neg(Some(3), Some(1)), by_type: vec![] },
        ] {
            for r in ["q2", "neg1-full", "neg-none"] {
                let cache = ResponseCache::new(8, c.real());
                let res = env.results[0][env.shape_idx(r) as usize].clone();
                let q = env.queries[0].query.clone();
                match catch(|| cache.insert(q, res, at(0))) {
                    Ok(()) => l.outcome("obs:min>max:insert-returns"),
                    Err(_) => l.outcome("obs:min>max:insert-panics(not judged)"),
                }
            }
        }
    });

    match ctor_thread.join() {
        Ok((l, Ok(n))) => {
            ctx.merge(l);
            ctx.set("construction_path_family_lookups", json!(n));
        }
        Ok((l, Err(p))) => {
            ctx.merge(l);
            ctx.with_local(|l| l.violation(&format!("ctor:panic:{}", vcore::short_loc(&p.loc)), &p.msg, || json!({"ctor": "resolver"})));
        }
        Err(_) => ctx.machinery_failure("construction-path family thread died"),
    }
    if ctx.outcome_count("ctor:resolver:positive-probe") == 0 || ctx.outcome_count("ctor:resolver:negative-probe") == 0 {
        ctx.machinery_failure("vacuous run: the construction-path family did not run its probes");
    }
    match seam_thread.join() {
        Ok((l, Ok(st))) => {
            ctx.merge(l);
            ctx.set("seam_family", json!({"worlds": st.worlds, "lookups": st.lookups}));
        }
        Ok((l, Err(p))) => {
            ctx.merge(l);
            ctx.with_local(|l| l.violation(&format!("seam:panic:{}", vcore::short_loc(&p.loc)), &p.msg, || json!({"seam": true})));
        }
        Err(_) => ctx.machinery_failure("seam family thread died"),
    }
    if ctx.outcome_count("seam:cache-hit:positive") == 0 || ctx.outcome_count("seam:cache-hit:negative") == 0 || ctx.outcome_count("seam:fetched-upstream") == 0 {
        ctx.machinery_failure("vacuous run: the seam family never saw a cache hit / an upstream fetch");
    }
    ctx.set("grids", Value::Object(grid_stats));
    let mism = diff.mismatches.load(Ordering::SeqCst);
    ctx.set("differential_mismatches", json!(mism));
    if mism > 0 {
        let first = diff.first.lock().unwrap().clone();
        eprintln!("[C15] differential: {mism} same-key/different-history mismatches, first: {}", first.unwrap_or(Value::Null));
        ctx.machinery_failure("same-key/different-history differential failed: the canonical key does not determine the observable future");
    }

    // vacuity guards
    let hits = ctx.outcome_count("get:live-hit");
    let misses = ctx.outcome_count("get:live-miss");
    ctx.set("live_hit_fraction", json!(if hits + misses > 0 { hits as f64 / (hits + misses) as f64 } else { 0.0 }));
    if hits == 0 || (hits as f64) < 0.30 * (hits + misses) as f64 {
        ctx.machinery_failure(&format!("vacuous run: only {hits} of {} gets on live entries hit", hits + misses));
    }
    if ctx.outcome_count("get:expired-miss") == 0 || ctx.outcome_count("get:absent-miss") == 0 {
        ctx.machinery_failure("vacuous run: no get on an expired / absent entry");
    }
    ctx.finish(all_complete);
}
