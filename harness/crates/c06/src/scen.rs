//! Scenario = what the scripted upstream serves (worlds), the trust anchors, the query, and a
//! history of validate / advance steps on one shared handle (and a clone of it). `run` executes it
//! on the real `DnssecDnsHandle` and judges every validate step with the reference predicate.

use std::sync::Arc;

use futures_util::StreamExt;
use hickory_net::dnssec::DnssecDnsHandle;
use hickory_net::xfer::DnsHandle;
use hickory_proto::dnssec::{Algorithm, Proof, PublicKeyBuf, TrustAnchors};
use hickory_proto::op::{DnsRequestOptions, Query};
use hickory_proto::rr::{Name, RecordType};
use serde_json::{json, Value};
use vcore::{catch, fnv64, hex, Local};
use vref::wire::Labels;
use vsec::upstream::TableUpstream;

use crate::refpred::{self, GroupVerdict, Table};

#[derive(Clone, Debug, PartialEq, Eq)]
pub enum Step {
    /// serve `world`, then validate the query through the shared handle (or its clone)
    Validate { world: usize, clone: bool },
    /// advance both virtual clocks
    Advance(u64),
    /// advance to absolute offset `t0 + secs` (no-op when already later)
    JumpTo(u64),
}

/// How the handle under test is built (`DnssecDnsHandle` builder methods, in this order).
#[derive(Clone, Debug, Default, PartialEq, Eq)]
pub struct HandleCfg {
    /// `.positive_validation_ttl(min..=max)` in seconds
    pub positive: Option<(u64, u64)>,
    /// `.negative_validation_ttl(min..=max)` in seconds
    pub negative: Option<(u64, u64)>,
    /// `.validation_cache_size(n)`, applied BEFORE the two ranges
    pub cache_size: Option<usize>,
}

impl HandleCfg {
    pub fn tag(&self) -> String {
        let r = |x: &Option<(u64, u64)>| x.map(|(a, b)| format!("{a}..={b}")).unwrap_or_else(|| "default".into());
        format!("positive={} negative={} cache_size={}", r(&self.positive), r(&self.negative), self.cache_size.map(|n| n.to_string()).unwrap_or_else(|| "default".into()))
    }
}

pub struct Scenario {
    pub cfg: HandleCfg,
    pub anchors: Vec<(u8, Vec<u8>)>,
    pub query: (String, u16),
    pub t0: u64,
    pub worlds: Vec<Table>,
    pub steps: Vec<Step>,
    /// human description (family / mutation), not used by the oracle
    pub desc: String,
    /// family tag used for outcome classes
    pub family: &'static str,
}

impl Scenario {
    pub fn to_json(&self) -> Value {
        json!({
            "desc": self.desc,
            "handle": {"positive": self.cfg.positive.map(|(a, b)| vec![a, b]), "negative": self.cfg.negative.map(|(a, b)| vec![a, b]), "cache_size": self.cfg.cache_size},
            "anchors": self.anchors.iter().map(|(a, k)| json!({"alg": a, "key": hex::enc(k)})).collect::<Vec<_>>(),
            "query": {"name": self.query.0, "type": self.query.1},
            "t0": self.t0,
            "worlds": self.worlds.iter().map(|w| w.iter().map(|((n, t), b)| json!({"name": n, "type": t, "response": hex::enc(b)})).collect::<Vec<_>>()).collect::<Vec<_>>(),
            "steps": self.steps.iter().map(|s| match s {
                Step::Validate { world, clone } => json!({"validate": world, "clone": clone}),
                Step::Advance(s) => json!({"advance": s}),
                Step::JumpTo(s) => json!({"jump_to": s}),
            }).collect::<Vec<_>>(),
        })
    }
    pub fn from_json(v: &Value) -> Option<Scenario> {
        let anchors = v["anchors"].as_array()?.iter().map(|a| Some((a["alg"].as_u64()? as u8, hex::dec(a["key"].as_str()?)?))).collect::<Option<Vec<_>>>()?;
        let worlds = v["worlds"]
            .as_array()?
            .iter()
            .map(|w| {
                w.as_array()?
                    .iter()
                    .map(|e| Some(((e["name"].as_str()?.to_string(), e["type"].as_u64()? as u16), hex::dec(e["response"].as_str()?)?)))
                    .collect::<Option<Table>>()
            })
            .collect::<Option<Vec<_>>>()?;
        let steps = v["steps"]
            .as_array()?
            .iter()
            .map(|s| {
                if let Some(w) = s.get("validate") {
                    Some(Step::Validate { world: w.as_u64()? as usize, clone: s["clone"].as_bool().unwrap_or(false) })
                } else if let Some(a) = s.get("advance") {
                    Some(Step::Advance(a.as_u64()?))
                } else {
                    Some(Step::JumpTo(s.get("jump_to")?.as_u64()?))
                }
            })
            .collect::<Option<Vec<_>>>()?;
        let range = |x: &Value| -> Option<(u64, u64)> { Some((x.get(0)?.as_u64()?, x.get(1)?.as_u64()?)) };
        let cfg = HandleCfg { positive: range(&v["handle"]["positive"]), negative: range(&v["handle"]["negative"]), cache_size: v["handle"]["cache_size"].as_u64().map(|n| n as usize) };
        Some(Scenario {
            cfg,
            anchors,
            query: (v["query"]["name"].as_str()?.to_string(), v["query"]["type"].as_u64()? as u16),
            t0: v["t0"].as_u64()?,
            worlds,
            steps,
            desc: v["desc"].as_str().unwrap_or("").to_string(),
            family: "replay",
        })
    }
}

#[derive(Clone, Debug, PartialEq, Eq)]
pub struct RecObs {
    /// 0 answer section, 1 authority section
    pub sec: u8,
    pub owner: Labels,
    pub rtype: u16,
    pub class: u16,
    pub ttl: u32,
    pub proof: u8, // 3 secure, 2 insecure, 1 bogus, 0 indeterminate
    /// RDATA as hickory holds it (uncompressed encoding, case kept)
    pub rdata: Vec<u8>,
}

#[derive(Clone, Debug, PartialEq, Eq)]
pub enum Obs {
    Answers(Vec<RecObs>),
    Error(String),
    Panic(String),
}

fn labels_of(n: &Name) -> Labels {
    n.iter().map(|l| l.to_ascii_lowercase()).collect()
}

fn proof_u8(p: Proof) -> u8 {
    match p {
        Proof::Secure => 3,
        Proof::Insecure => 2,
        Proof::Bogus => 1,
        Proof::Indeterminate => 0,
    }
}

fn err_class(e: &str) -> String {
    // coarse, stable classification of the error text
    let e = e.to_ascii_lowercase();
    for (pat, c) in [
        ("nsec", "nsec"),
        ("rrsigs", "rrsigs"),
        ("label", "decode"),
        ("decod", "decode"),
        ("unexpected end", "decode"),
        ("not a response", "not-a-response"),
        ("depth", "depth"),
    ] {
        if e.contains(pat) {
            return c.to_string();
        }
    }
    "other".to_string()
}

pub fn anchors_of(list: &[(u8, Vec<u8>)]) -> Arc<TrustAnchors> {
    let mut a = TrustAnchors::empty();
    for (alg, key) in list {
        a.insert(&PublicKeyBuf::new(key.clone(), Algorithm::from_u8(*alg)));
    }
    Arc::new(a)
}

pub fn name_of_key(s: &str) -> Name {
    Name::from_ascii(s).expect("query name")
}

/// Execute the scenario on the real handle; one `Obs` per Validate step.
pub fn execute(sc: &Scenario, rt: &tokio::runtime::Runtime) -> Vec<(u32, Obs)> {
    vsim::reset_clocks(sc.t0);
    vsim::install_hook_clock();
    let up = TableUpstream::new();
    let mut h = DnssecDnsHandle::with_trust_anchor(up.clone(), anchors_of(&sc.anchors));
    let secs = std::time::Duration::from_secs;
    if let Some(n) = sc.cfg.cache_size {
        h = h.validation_cache_size(n);
    }
    if let Some((a, b)) = sc.cfg.positive {
        h = h.positive_validation_ttl(secs(a)..=secs(b));
    }
    if let Some((a, b)) = sc.cfg.negative {
        h = h.negative_validation_ttl(secs(a)..=secs(b));
    }
    let h2 = h.clone();
    let q = Query::new(name_of_key(&sc.query.0), RecordType::from(sc.query.1));
    let mut out = vec![];
    for st in &sc.steps {
        match st {
            Step::Advance(s) => vsim::advance_secs(*s),
            Step::JumpTo(s) => {
                let target = sc.t0 + s;
                if target > vsim::unix() {
                    vsim::advance_secs(target - vsim::unix());
                }
            }
            Step::Validate { world, clone } => {
                {
                    let mut g = up.inner.lock().unwrap();
                    g.table = sc.worlds[*world].iter().map(|(k, v)| (k.clone(), v.clone())).collect();
                    g.log.clear();
                }
                let now = vsim::unix() as u32;
                let handle = if *clone { &h2 } else { &h };
                let res = catch(|| rt.block_on(async { handle.lookup(q.clone(), DnsRequestOptions::default()).next().await }));
                let obs = match res {
                    Err(p) => Obs::Panic(format!("{}|{}", vcore::short_loc(&p.loc), p.msg)),
                    Ok(None) => Obs::Error("no-response".into()),
                    Ok(Some(Err(e))) => Obs::Error(err_class(&e.to_string())),
                    Ok(Some(Ok(resp))) => Obs::Answers(
                        resp.answers
                            .iter()
                            .map(|r| (0u8, r))
                            .chain(resp.authorities.iter().map(|r| (1u8, r)))
                            .map(|(sec, r)| RecObs {
                                sec,
                                owner: labels_of(&r.name),
                                rtype: u16::from(r.record_type()),
                                class: u16::from(r.dns_class),
                                ttl: r.ttl,
                                proof: proof_u8(r.proof),
                                rdata: {
                                    // uncompressed, case kept (a stand-alone `to_bytes` would compress the
                                    // second name of an SOA against the first)
                                    use hickory_proto::serialize::binary::{BinEncodable, BinEncoder, NameEncoding};
                                    let mut buf = vec![];
                                    let ok = {
                                        let mut e = BinEncoder::new(&mut buf);
                                        e.name_encoding = NameEncoding::Uncompressed;
                                        r.data.emit(&mut e).is_ok()
                                    };
                                    if ok { buf } else { vec![] }
                                },
                            })
                            .collect(),
                    ),
                };
                out.push((now, obs));
            }
        }
    }
    out
}

fn content_key(table: &Table, k: &(String, u16)) -> u64 {
    // answer-section content without TTLs / id (what a verdict cache could legitimately key on)
    let Some(b) = table.get(k) else { return 0 };
    let Some(p) = refpred::parse(b) else { return fnv64(b) };
    let mut items: Vec<Vec<u8>> = p
        .answers
        .iter()
        .map(|r| (0u8, r))
        .chain(p.authorities.iter().map(|r| (1u8, r)))
        .map(|(sec, r)| {
            let mut v = vec![sec];
            vref::wire::emit_name(&vref::wire::lower(&r.owner), &mut v);
            v.extend_from_slice(&r.rtype.to_be_bytes());
            v.extend_from_slice(&r.class.to_be_bytes());
            v.extend_from_slice(&r.rdata);
            v
        })
        .collect();
    items.sort();
    fnv64(&items.concat())
}

/// Content of ONE RRset as served: section, owner, class, type, the members' RDATA and the RDATA of
/// the RRSIGs of that section that cover it (no TTLs) - what a verdict cache may key on.
fn group_content(p: &Option<refpred::Parsed>, sec: u8, owner: &Labels, class: u16, rtype: u16) -> u64 {
    let Some(p) = p else { return 0 };
    let rrs = if sec == 0 { &p.answers } else { &p.authorities };
    let lo = vref::wire::lower(owner);
    let mut items: Vec<Vec<u8>> = vec![];
    for r in rrs.iter().filter(|r| vref::wire::lower(&r.owner) == lo) {
        let is_member = r.rtype == rtype && r.class == class;
        let is_sig = r.rtype == vref::sigref::T_RRSIG && r.rdata.len() >= 2 && u16::from_be_bytes([r.rdata[0], r.rdata[1]]) == rtype;
        if is_member || is_sig {
            let mut v = vec![is_sig as u8];
            v.extend_from_slice(&r.class.to_be_bytes());
            v.extend_from_slice(&r.rdata);
            items.push(v);
        }
    }
    items.sort();
    let mut head = vec![sec];
    vref::wire::emit_name(&lo, &mut head);
    head.extend_from_slice(&rtype.to_be_bytes());
    for i in &items {
        head.extend_from_slice(&(i.len() as u32).to_be_bytes());
        head.extend_from_slice(i);
    }
    fnv64(&head)
}

pub struct Judged {
    /// (clause key, what)
    pub violations: Vec<(String, String)>,
    pub outcomes: Vec<String>,
    /// reference said "not allowed" with exactly one failing clause (tells predicates apart)
    pub distinguishing: Vec<String>,
    pub secure_groups: usize,
    pub allowed_groups: usize,
}

/// Judge the observations of one scenario.
/// `cold[i]`: what a FRESH handle (same configuration) returns for the world of validate step i at
/// the same virtual time - the differential side of the oracle (empty / None: not compared).
pub fn judge_with_cold(sc: &Scenario, obs: &[(u32, Obs)], cold: &[Option<Obs>]) -> Judged {
    let mut j = Judged { violations: vec![], outcomes: vec![], distinguishing: vec![], secure_groups: 0, allowed_groups: 0 };
    // which (answer content) / (dnskey responses content) were returned Secure earlier in this history
    // (answer content, world) of earlier validate steps that returned a Secure record
    let mut secure_answer_contents: Vec<(u64, usize)> = vec![];
    // (content of one RRset, world) of RRsets returned Secure earlier
    let mut secure_group_contents: Vec<(u64, usize)> = vec![];
    let mut secure_key_contents: Vec<u64> = vec![];
    let mut vi = 0;
    for st in &sc.steps {
        let Step::Validate { world, .. } = st else { continue };
        let (now, o) = &obs[vi];
        let cold_recs: Option<Vec<&RecObs>> = match cold.get(vi) {
            Some(Some(Obs::Answers(v))) => Some(v.iter().collect()),
            Some(Some(_)) => Some(vec![]),
            _ => None,
        };
        let cold_secure = |r: &RecObs| cold_recs.as_ref().map(|c| c.iter().any(|x| x.proof == 3 && x.sec == r.sec && x.owner == r.owner && x.rtype == r.rtype && x.class == r.class && x.rdata == r.rdata));
        if cold_recs.is_some() {
            j.outcomes.push("differential:warm-step-compared-with-fresh-handle".into());
        }
        vi += 1;
        let table = &sc.worlds[*world];
        let verdicts: Vec<GroupVerdict> = refpred::evaluate(table, &sc.anchors, &sc.query, *now).unwrap_or_default();
        for v in &verdicts {
            if v.allowed {
                j.allowed_groups += 1;
            } else if !v.unknown && !v.why.contains('+') {
                j.distinguishing.push(v.why.clone());
            }
        }
        let a_content = content_key(table, &sc.query);
        let parsed = table.get(&sc.query).and_then(|b| refpred::parse(b));
        let mut secure_groups_now: Vec<u64> = vec![];
        let k_content = {
            let mut h = 0u64;
            for (k, _) in table.iter().filter(|(k, _)| k.1 == vref::sigref::T_DNSKEY) {
                h ^= content_key(table, k).rotate_left(7);
            }
            h
        };
        let keys_seen_before = secure_key_contents.contains(&k_content);
        // the DNSKEY RRset verdict may be cached by any earlier validation that fetched it
        secure_key_contents.push(k_content);
        match o {
            Obs::Panic(p) => {
                // a panic is not "Secure": C06's statement is silent about it. It is logged here and
                // judged by C07 ("the outcome is an error/Bogus").
                let loc = p.split('|').next().unwrap_or("");
                j.outcomes.push(format!("obs:panic:{loc}(judged-under-C07)"));
            }
            Obs::Error(c) => j.outcomes.push(format!("error:{c}")),
            Obs::Answers(recs) => {
                let mut any_secure = false;
                let mut classes: Vec<String> = vec![];
                for r in recs.iter().filter(|r| r.rtype != vref::sigref::T_RRSIG) {
                    let pname = ["indeterminate", "bogus", "insecure", "secure"][r.proof as usize];
                    classes.push(pname.to_string());
                    if r.proof != 3 {
                        // completeness is not C06's subject (only-if oracle); counted so that the
                        // report can say how often a fully valid (RRSIG, key) pair was not honoured
                        if verdicts.iter().any(|v| v.allowed && v.sec == r.sec && v.owner == r.owner && v.class == r.class && v.rtype == r.rtype) {
                            j.outcomes.push("obs:valid-rrsig-and-key-present-but-record-not-secure(not-judged)".into());
                        }
                        if cold_secure(r) == Some(true) {
                            j.outcomes.push("obs:fresh-handle-secure-but-warm-handle-not(not-judged)".into());
                        }
                        continue;
                    }
                    any_secure = true;
                    j.secure_groups += 1;
                    // per record: the RRset (same owner, CLASS and type) this very record is a
                    // member of; a record of another class, or with RDATA the upstream never
                    // served, belongs to no RRset the signature could speak for
                    let pick = |vs: &[GroupVerdict]| vs.iter().find(|v| v.sec == r.sec && v.owner == r.owner && v.class == r.class && v.rtype == r.rtype && v.members.iter().any(|m| m.eq_ignore_ascii_case(&r.rdata))).cloned();
                    let mut v = pick(&verdicts);
                    let mut rests_on_earlier_keys = false;
                    // A cached verdict speaks for the keys it was established with: when the very same
                    // answer content (records and RRSIGs) was returned Secure earlier in this history,
                    // the (RRSIG, DNSKEY) pair may be the one presented THEN - judged at the time of
                    // THIS validate (windows of both RRSIGs, remaining lifetime). The DNSKEY response
                    // having changed in between does not make the cached verdict wrong.
                    if !v.as_ref().is_some_and(|v| v.allowed) {
                        let g_content = group_content(&parsed, r.sec, &r.owner, r.class, r.rtype);
                        for (_, w) in secure_group_contents.iter().filter(|(c, w)| *c == g_content && *w != *world) {
                            let earlier = refpred::evaluate(&sc.worlds[*w], &sc.anchors, &sc.query, *now).unwrap_or_default();
                            if let Some(e) = pick(&earlier).filter(|e| e.allowed) {
                                j.outcomes.push("obs:cached-verdict-rests-on-keys-presented-earlier(dnskey-response-changed-since)".into());
                                v = Some(e);
                                rests_on_earlier_keys = true;
                                break;
                            }
                        }
                    }
                    let v = v.as_ref();
                    let g_content = group_content(&parsed, r.sec, &r.owner, r.class, r.rtype);
                    secure_groups_now.push(g_content);
                    let scene = if secure_answer_contents.iter().any(|(c, _)| *c == a_content) || secure_group_contents.iter().any(|(c, _)| *c == g_content) {
                        "cached"
                    } else if keys_seen_before {
                        "cached-keys"
                    } else {
                        "fresh"
                    };
                    match v {
                        None => j.violations.push((
                            format!("secure-record-not-in-response:{scene}"),
                            format!("record {} class {} type {} returned Secure but the upstream answer holds no such record (owner, class, type, RDATA)", vref::wire::name_to_string(&r.owner), r.class, r.rtype),
                        )),
                        Some(v) if v.unknown => {
                            j.outcomes.push("obs:reference-undecided".into());
                            // differential clause: where the reference cannot decide, a Secure verdict
                            // that only a handle with a history gives is a verdict from the cache alone
                            if cold_secure(r) == Some(false) {
                                j.violations.push((
                                    format!("secure-only-on-a-warm-handle:reference-undecided:{scene}"),
                                    format!(
                                        "{} class {} type {} returned Secure at now={} by a handle with a history, while a fresh handle given the same responses at the same time does not return it Secure (and the reference cannot decide)",
                                        vref::wire::name_to_string(&r.owner), r.class, r.rtype, now
                                    ),
                                ));
                            }
                        }
                        Some(v) if !v.allowed => j.violations.push((
                            format!("secure-disallowed:{}:{scene}", v.why),
                            format!(
                                "{} class {} type {} returned Secure at now={} although no (RRSIG, DNSKEY) pair passes for the RRset (owner, class, type) this record belongs to: closest candidate fails [{}]",
                                vref::wire::name_to_string(&r.owner), r.class, r.rtype, now, v.why
                            ),
                        )),
                        Some(v) => {
                            if cold_secure(r) == Some(false) {
                                j.outcomes.push(
                                    if rests_on_earlier_keys { "obs:warm-handle-secure-fresh-handle-not:verdict-rests-on-earlier-keys(not-judged)" } else { "obs:warm-handle-secure-fresh-handle-not:reference-allows-with-the-keys-presented-now(not-judged)" }
                                        .into(),
                                );
                            }
                            if v.passing_signer_not_enclosing {
                                j.outcomes.push("obs:secure-with-signer-not-enclosing-owner(judged-under-C07)".into());
                            }
                            let rem = v.remaining.unwrap_or(0);
                            if r.ttl > rem {
                                j.violations.push((
                                    format!("ttl-exceeds-remaining-signature-life:{scene}"),
                                    format!("Secure record carries TTL {} but the signature has {} s left at now={}", r.ttl, rem, now),
                                ));
                            }
                            if r.ttl > v.max_original_ttl.unwrap_or(u32::MAX) {
                                j.outcomes.push(format!("obs:ttl-exceeds-original-ttl:{scene}"));
                            }
                            if r.ttl > v.max_received_ttl {
                                j.outcomes.push(format!("obs:ttl-exceeds-received-ttl:{scene}"));
                            }
                        }
                    }
                }
                if any_secure {
                    secure_answer_contents.push((a_content, *world));
                    for g in secure_groups_now {
                        secure_group_contents.push((g, *world));
                    }
                }
                classes.sort();
                classes.dedup();
                j.outcomes.push(if classes.is_empty() { "answers:none".into() } else { format!("answers:{}", classes.join("+")) });
            }
        }
    }
    j
}

thread_local! {
    static COLD: std::cell::RefCell<std::collections::HashMap<(u64, u64), Obs>> = std::cell::RefCell::new(std::collections::HashMap::new());
}

/// For every validate step but the first of a scenario with a history: the observation of a fresh
/// handle (same configuration, anchors, query) for the same world at the same virtual time.
/// Memoised per thread by (world bytes, time, configuration, anchors, query).
fn cold_side(sc: &Scenario, rt: &tokio::runtime::Runtime) -> Vec<Option<Obs>> {
    let n = sc.steps.iter().filter(|s| matches!(s, Step::Validate { .. })).count();
    if n < 2 {
        return vec![];
    }
    let mut out = vec![];
    let mut t = sc.t0;
    let mut first = true;
    for st in &sc.steps {
        match st {
            Step::Advance(s) => t += s,
            Step::JumpTo(s) => t = t.max(sc.t0 + s),
            Step::Validate { world, .. } => {
                if first {
                    first = false;
                    out.push(None);
                    continue;
                }
                let mut bytes: Vec<u8> = vec![];
                for ((n, ty), b) in sc.worlds[*world].iter() {
                    bytes.extend_from_slice(n.as_bytes());
                    bytes.extend_from_slice(&ty.to_be_bytes());
                    bytes.extend_from_slice(&(b.len() as u32).to_be_bytes());
                    bytes.extend_from_slice(b);
                }
                let ctx = format!("{t}|{}|{:?}|{:?}", sc.cfg.tag(), sc.anchors, sc.query);
                let key = (fnv64(&bytes), fnv64(ctx.as_bytes()) ^ (bytes.len() as u64).rotate_left(40));
                let hit = COLD.with(|c| c.borrow().get(&key).cloned());
                let o = match hit {
                    Some(o) => o,
                    None => {
                        let fresh = Scenario {
                            cfg: sc.cfg.clone(),
                            anchors: sc.anchors.clone(),
                            query: sc.query.clone(),
                            t0: t,
                            worlds: vec![sc.worlds[*world].clone()],
                            steps: vec![Step::Validate { world: 0, clone: false }],
                            desc: String::new(),
                            family: "cold",
                        };
                        // (not counted as an evaluation: the memo is per thread, the number of
                        // fresh-handle runs depends on the schedule)
                        let o = execute(&fresh, rt).pop().map(|x| x.1).unwrap_or(Obs::Error("no-observation".into()));
                        COLD.with(|c| {
                            let mut c = c.borrow_mut();
                            if c.len() > 200_000 {
                                c.clear();
                            }
                            c.insert(key, o.clone());
                        });
                        o
                    }
                };
                out.push(Some(o));
            }
        }
    }
    out
}

/// Execute + judge + report into `l`. Violating scenarios are executed a second time and must give
/// identical observations (else the violation is reported as nondeterminism, exit 2 upstream).
pub fn run(sc: &Scenario, rt: &tokio::runtime::Runtime, l: &mut Local, nondeterminism: &std::sync::atomic::AtomicBool) -> Judged {
    let obs = execute(sc, rt);
    l.evals_add(obs.len() as u64);
    let cold = cold_side(sc, rt);
    let j = judge_with_cold(sc, &obs, &cold);
    for o in &j.outcomes {
        if o.starts_with("obs:") {
            l.outcome_sample(o, || json!(sc.desc));
        } else {
            l.outcome(&format!("{}:{}", sc.family, o));
        }
    }
    for d in &j.distinguishing {
        l.outcome(&format!("distinguishes:{d}"));
        l.nontrivial(fnv64(format!("{}|{}", sc.desc, d).as_bytes()));
    }
    if !j.violations.is_empty() {
        let obs2 = execute(sc, rt);
        if obs2 != obs {
            nondeterminism.store(true, std::sync::atomic::Ordering::SeqCst);
            eprintln!("nondeterministic scenario: {}", sc.desc);
        }
        for (k, what) in &j.violations {
            l.violation(k, what, || {
                let mut v = sc.to_json();
                v["observed"] = json!(format!("{obs:?}"));
                v
            });
        }
    }
    j
}
