//! Scenario = what the scripted upstream serves (worlds), the trust anchors, the query, and a
//! history of validate / advance steps on one shared handle (and a clone of it). `run` executes it
//! on the real `DnssecDnsHandle` and judges every validate step with the reference predicate.

use std::sync::Arc;

use futures_util::StreamExt;
use hickory_net::dnssec::DnssecDnsHandle;
use hickory_net::xfer::DnsHandle;
use hickory_proto::dnssec::{Algorithm, Proof, PublicKeyBuf, TrustAnchors};
use hickory_proto::op::{DnsRequestOptions, Query};
use hickory_proto::rr::{Name, RecordType};
use serde_json::{json, Value};
use vcore::{catch, fnv64, hex, Local};
use vref::wire::Labels;
use vsec::upstream::TableUpstream;

use crate::refpred::{self, GroupVerdict, Table};

#[derive(Clone, Debug, PartialEq, Eq)]
pub enum Step {
    /// serve `world`, then validate the query through the shared handle (or its clone)
    Validate { world: usize, clone: bool },
    /// advance both virtual clocks
    Advance(u64),
    /// advance to absolute offset `t0 + secs` (no-op when already later)
    JumpTo(u64),
}

/// How the handle under test is built (`DnssecDnsHandle` builder methods, in this order).
#[derive(Clone, Debug, Default, PartialEq, Eq)]
pub struct HandleCfg {
    /// `.positive_validation_ttl(min..=max)` in seconds
    pub positive: Option<(u64, u64)>,
    /// `.negative_validation_ttl(min..=max)` in seconds
    pub negative: Option<(u64, u64)>,
    /// `.validation_cache_size(n)`, applied BEFORE the two ranges
    pub cache_size: Option<usize>,
}

impl HandleCfg {
    pub fn tag(&self) -> String {
        let r = |x: &Option<(u64, u64)>| x.map(|(a, b)| format!("{a}..={b}")).unwrap_or_else(|| "default".into());
        format!("positive={} negative={} cache_size={}", r(&self.positive), r(&self.negative), self.cache_size.map(|n| n.to_string()).unwrap_or_else(|| "default".into()))
    }
}

pub struct Scenario {
    pub cfg: HandleCfg,
    pub anchors: Vec<(u8, Vec<u8>)>,
    pub query: (String, u16),
    pub t0: u64,
    pub worlds: Vec<Table>,
    pub steps: Vec<Step>,
    /// human description (family / mutation), not used by the oracle
    pub desc: String,
    /// family tag used for outcome classes
    pub family: &'static str,
}

impl Scenario {
    pub fn to_json(&self) -> Value {
        json!({
            "desc": self.desc,
            "handle": {"positive": self.cfg.positive.map(|(a, b)| vec![a, b]), "negative": self.cfg.negative.map(|(a, b)| vec![a, b]), "cache_size": self.cfg.cache_size},
            "anchors": self.anchors.iter().map(|(a, k)| json!({"alg": a, "key": hex::enc(k)})).collect::<Vec<_>>(),
            "query": {"name": self.query.0, "type": self.query.1},
            "t0": self.t0,
            "worlds": self.worlds.iter().map(|w| w.iter().map(|((n, t), b)| json!({"name": n, "type": t, "response": hex::enc(b)})).collect::<Vec<_>>()).collect::<Vec<_>>(),
            "steps": self.steps.iter().map(|s| match s {
                Step::Validate { world, clone } => json!({"validate": world, "clone": clone}),
                Step::Advance(s) => json!({"advance": s}),
                Step::JumpTo(s) => json!({"jump_to": s}),
            }).collect::<Vec<_>>(),
        })
    }
    pub fn from_json(v: &Value) -> Option<Scenario> {
        let anchors = v["anchors"].as_array()?.iter().map(|a| Some((a["alg"].as_u64()? as u8, hex::dec(a["key"].as_str()?)?))).collect::<Option<Vec<_>>>()?;
        let worlds = v["worlds"]
            .as_array()?
            .iter()
            .map(|w| {
                w.as_array()?
                    .iter()
                    .map(|e| Some(((e["name"].as_str()?.to_string(), e["type"].as_u64()? as u16), hex::dec(e["response"].as_str()?)?)))
                    .collect::<Option<Table>>()
            })
            .collect::<Option<Vec<_>>>()?;
        let steps = v["steps"]
            .as_array()?
            .iter()
            .map(|s| {
                if let Some(w) = s.get("validate") {
                    Some(Step::Validate { world: w.as_u64()? as usize, clone: s["clone"].as_bool().unwrap_or(false) })
                } else if let Some(a) = s.get("advance") {
                    Some(Step::Advance(a.as_u64()?))
                } else {
                    Some(Step::JumpTo(s.get("jump_to")?.as_u64()?))
                }
            })
            .collect::<Option<Vec<_>>>()?;
        let range = |x: &Value| -> Option<(u64, u64)> { Some((x.get(0)?.as_u64()?, x.get(1)?.as_u64()?)) };
        let cfg = HandleCfg { positive: range(&v["handle"]["positive"]), negative: range(&v["handle"]["negative"]), cache_size: v["handle"]["cache_size"].as_u64().map(|n| n as usize) };
        Some(Scenario {
            cfg,
            anchors,
            query: (v["query"]["name"].as_str()?.to_string(), v["query"]["type"].as_u64()? as u16),
            t0: v["t0"].as_u64()?,
            worlds,
            steps,
            desc: v["desc"].as_str().unwrap_or("").to_string(),
            family: "replay",
        })
    }
}

#[derive(Clone, Debug, PartialEq, Eq)]
pub struct RecObs {
    pub owner: Labels,
    pub rtype: u16,
    pub class: u16,
    pub ttl: u32,
    pub proof: u8, // 3 secure, 2 insecure, 1 bogus, 0 indeterminate
    /// RDATA as hickory holds it (uncompressed encoding, case kept)
    pub rdata: Vec<u8>,
}

#[derive(Clone, Debug, PartialEq, Eq)]
pub enum Obs {
    Answers(Vec<RecObs>),
    Error(String),
    Panic(String),
}

fn labels_of(n: &Name) -> Labels {
    n.iter().map(|l| l.to_ascii_lowercase()).collect()
}

fn proof_u8(p: Proof) -> u8 {
    match p {
        Proof::Secure => 3,
        Proof::Insecure => 2,
        Proof::Bogus => 1,
        Proof::Indeterminate => 0,
    }
}

fn err_class(e: &str) -> String {
    // coarse, stable classification of the error text
    let e = e.to_ascii_lowercase();
    for (pat, c) in [
        ("nsec", "nsec"),
        ("rrsigs", "rrsigs"),
        ("label", "decode"),
        ("decod", "decode"),
        ("unexpected end", "decode"),
        ("not a response", "not-a-response"),
        ("depth", "depth"),
    ] {
        if e.contains(pat) {
            return c.to_string();
        }
    }
    "other".to_string()
}

pub fn anchors_of(list: &[(u8, Vec<u8>)]) -> Arc<TrustAnchors> {
    let mut a = TrustAnchors::empty();
    for (alg, key) in list {
        a.insert(&PublicKeyBuf::new(key.clone(), Algorithm::from_u8(*alg)));
    }
    Arc::new(a)
}

pub fn name_of_key(s: &str) -> Name {
    Name::from_ascii(s).expect("query name")
}

/// Execute the scenario on the real handle; one `Obs` per Validate step.
pub fn execute(sc: &Scenario, rt: &tokio::runtime::Runtime) -> Vec<(u32, Obs)> {
    vsim::reset_clocks(sc.t0);
    vsim::install_hook_clock();
    let up = TableUpstream::new();
    let mut h = DnssecDnsHandle::with_trust_anchor(up.clone(), anchors_of(&sc.anchors));
    let secs = std::time::Duration::from_secs;
    if let Some(n) = sc.cfg.cache_size {
        h = h.validation_cache_size(n);
    }
    if let Some((a, b)) = sc.cfg.positive {
        h = h.positive_validation_ttl(secs(a)..=secs(b));
    }
    if let Some((a, b)) = sc.cfg.negative {
        h = h.negative_validation_ttl(secs(a)..=secs(b));
    }
    let h2 = h.clone();
    let q = Query::new(name_of_key(&sc.query.0), RecordType::from(sc.query.1));
    let mut out = vec![];
    for st in &sc.steps {
        match st {
            Step::Advance(s) => vsim::advance_secs(*s),
            Step::JumpTo(s) => {
                let target = sc.t0 + s;
                if target > vsim::unix() {
                    vsim::advance_secs(target - vsim::unix());
                }
            }
            Step::Validate { world, clone } => {
                {
                    let mut g = up.inner.lock().unwrap();
                    g.table = sc.worlds[*world].iter().map(|(k, v)| (k.clone(), v.clone())).collect();
                    g.log.clear();
                }
                let now = vsim::unix() as u32;
                let handle = if *clone { &h2 } else { &h };
                let res = catch(|| rt.block_on(async { handle.lookup(q.clone(), DnsRequestOptions::default()).next().await }));
                let obs = match res {
                    Err(p) => Obs::Panic(format!("{}|{}", vcore::short_loc(&p.loc), p.msg)),
                    Ok(None) => Obs::Error("no-response".into()),
                    Ok(Some(Err(e))) => Obs::Error(err_class(&e.to_string())),
                    Ok(Some(Ok(resp))) => Obs::Answers(
                        resp.answers
                            .iter()
                            .map(|r| RecObs {
                                owner: labels_of(&r.name),
                                rtype: u16::from(r.record_type()),
                                class: u16::from(r.dns_class),
                                ttl: r.ttl,
                                proof: proof_u8(r.proof),
                                rdata: {
                                    use hickory_proto::serialize::binary::BinEncodable;
                                    r.data.to_bytes().unwrap_or_default()
                                },
                            })
                            .collect(),
                    ),
                };
                out.push((now, obs));
            }
        }
    }
    out
}

fn content_key(table: &Table, k: &(String, u16)) -> u64 {
    // answer-section content without TTLs / id (what a verdict cache could legitimately key on)
    let Some(b) = table.get(k) else { return 0 };
    let Some(p) = refpred::parse(b) else { return fnv64(b) };
    let mut items: Vec<Vec<u8>> = p
        .answers
        .iter()
        .map(|r| {
            let mut v = vec![];
            vref::wire::emit_name(&vref::wire::lower(&r.owner), &mut v);
            v.extend_from_slice(&r.rtype.to_be_bytes());
            v.extend_from_slice(&r.class.to_be_bytes());
            v.extend_from_slice(&r.rdata);
            v
        })
        .collect();
    items.sort();
    fnv64(&items.concat())
}

pub struct Judged {
    /// (clause key, what)
    pub violations: Vec<(String, String)>,
    pub outcomes: Vec<String>,
    /// reference said "not allowed" with exactly one failing clause (tells predicates apart)
    pub distinguishing: Vec<String>,
    pub secure_groups: usize,
    pub allowed_groups: usize,
}

/// Judge the observations of one scenario.
pub fn judge(sc: &Scenario, obs: &[(u32, Obs)]) -> Judged {
    let mut j = Judged { violations: vec![], outcomes: vec![], distinguishing: vec![], secure_groups: 0, allowed_groups: 0 };
    // which (answer content) / (dnskey responses content) were returned Secure earlier in this history
    let mut secure_answer_contents: Vec<u64> = vec![];
    let mut secure_key_contents: Vec<u64> = vec![];
    let mut vi = 0;
    for st in &sc.steps {
        let Step::Validate { world, .. } = st else { continue };
        let (now, o) = &obs[vi];
        vi += 1;
        let table = &sc.worlds[*world];
        let verdicts: Vec<GroupVerdict> = refpred::evaluate(table, &sc.anchors, &sc.query, *now).unwrap_or_default();
        for v in &verdicts {
            if v.allowed {
                j.allowed_groups += 1;
            } else if !v.unknown && !v.why.contains('+') {
                j.distinguishing.push(v.why.clone());
            }
        }
        let a_content = content_key(table, &sc.query);
        let k_content = {
            let mut h = 0u64;
            for (k, _) in table.iter().filter(|(k, _)| k.1 == vref::sigref::T_DNSKEY) {
                h ^= content_key(table, k).rotate_left(7);
            }
            h
        };
        let keys_seen_before = secure_key_contents.contains(&k_content);
        // the DNSKEY RRset verdict may be cached by any earlier validation that fetched it
        secure_key_contents.push(k_content);
        match o {
            Obs::Panic(p) => {
                // a panic is not "Secure": C06's statement is silent about it. It is logged here and
                // judged by C07 ("the outcome is an error/Bogus").
                let loc = p.split('|').next().unwrap_or("");
                j.outcomes.push(format!("obs:panic:{loc}(judged-under-C07)"));
            }
            Obs::Error(c) => j.outcomes.push(format!("error:{c}")),
            Obs::Answers(recs) => {
                let mut any_secure = false;
                let mut classes: Vec<String> = vec![];
                for r in recs.iter().filter(|r| r.rtype != vref::sigref::T_RRSIG) {
                    let pname = ["indeterminate", "bogus", "insecure", "secure"][r.proof as usize];
                    classes.push(pname.to_string());
                    if r.proof != 3 {
                        // completeness is not C06's subject (only-if oracle); counted so that the
                        // report can say how often a fully valid (RRSIG, key) pair was not honoured
                        if verdicts.iter().any(|v| v.allowed && v.owner == r.owner && v.class == r.class && v.rtype == r.rtype) {
                            j.outcomes.push("obs:valid-rrsig-and-key-present-but-record-not-secure(not-judged)".into());
                        }
                        continue;
                    }
                    any_secure = true;
                    j.secure_groups += 1;
                    // per record: the RRset (same owner, CLASS and type) this very record is a
                    // member of; a record of another class, or with RDATA the upstream never
                    // served, belongs to no RRset the signature could speak for
                    let v = verdicts.iter().find(|v| v.owner == r.owner && v.class == r.class && v.rtype == r.rtype && v.members.iter().any(|m| m.eq_ignore_ascii_case(&r.rdata)));
                    let scene = if secure_answer_contents.contains(&a_content) {
                        "cached"
                    } else if keys_seen_before {
                        "cached-keys"
                    } else {
                        "fresh"
                    };
                    match v {
                        None => j.violations.push((
                            format!("secure-record-not-in-response:{scene}"),
                            format!("record {} class {} type {} returned Secure but the upstream answer holds no such record (owner, class, type, RDATA)", vref::wire::name_to_string(&r.owner), r.class, r.rtype),
                        )),
                        Some(v) if v.unknown => j.outcomes.push("obs:reference-undecided".into()),
                        Some(v) if !v.allowed => j.violations.push((
                            format!("secure-disallowed:{}:{scene}", v.why),
                            format!(
                                "{} class {} type {} returned Secure at now={} although no (RRSIG, DNSKEY) pair passes for the RRset (owner, class, type) this record belongs to: closest candidate fails [{}]",
                                vref::wire::name_to_string(&r.owner), r.class, r.rtype, now, v.why
                            ),
                        )),
                        Some(v) => {
                            if v.passing_signer_not_enclosing {
                                j.outcomes.push("obs:secure-with-signer-not-enclosing-owner(judged-under-C07)".into());
                            }
                            let rem = v.remaining.unwrap_or(0);
                            if r.ttl > rem {
                                j.violations.push((
                                    format!("ttl-exceeds-remaining-signature-life:{scene}"),
                                    format!("Secure record carries TTL {} but the signature has {} s left at now={}", r.ttl, rem, now),
                                ));
                            }
                            if r.ttl > v.max_original_ttl.unwrap_or(u32::MAX) {
                                j.outcomes.push(format!("obs:ttl-exceeds-original-ttl:{scene}"));
                            }
                            if r.ttl > v.max_received_ttl {
                                j.outcomes.push(format!("obs:ttl-exceeds-received-ttl:{scene}"));
                            }
                        }
                    }
                }
                if any_secure {
                    secure_answer_contents.push(a_content);
                }
                classes.sort();
                classes.dedup();
                j.outcomes.push(if classes.is_empty() { "answers:none".into() } else { format!("answers:{}", classes.join("+")) });
            }
        }
    }
    j
}

/// Execute + judge + report into `l`. Violating scenarios are executed a second time and must give
/// identical observations (else the violation is reported as nondeterminism, exit 2 upstream).
pub fn run(sc: &Scenario, rt: &tokio::runtime::Runtime, l: &mut Local, nondeterminism: &std::sync::atomic::AtomicBool) -> Judged {
    let obs = execute(sc, rt);
    let j = judge(sc, &obs);
    l.evals_add(obs.len() as u64);
    for o in &j.outcomes {
        if o.starts_with("obs:") {
            l.outcome_sample(o, || json!(sc.desc));
        } else {
            l.outcome(&format!("{}:{}", sc.family, o));
        }
    }
    for d in &j.distinguishing {
        l.outcome(&format!("distinguishes:{d}"));
        l.nontrivial(fnv64(format!("{}|{}", sc.desc, d).as_bytes()));
    }
    if !j.violations.is_empty() {
        let obs2 = execute(sc, rt);
        if obs2 != obs {
            nondeterminism.store(true, std::sync::atomic::Ordering::SeqCst);
            eprintln!("nondeterministic scenario: {}", sc.desc);
        }
        for (k, what) in &j.violations {
            l.violation(k, what, || {
                let mut v = sc.to_json();
                v["observed"] = json!(format!("{obs:?}"));
                v
            });
        }
    }
    j
}
