//! The reference "only-if" acceptance predicate of C06, evaluated on the raw (mutated) wire
//! responses with `vref::wire` + `vref::sigref` + `ring`. Nothing in here uses hickory code.
//!
//! An RRset S may be Secure only if some RRSIG r presented with it and some DNSKEY k presented for
//! r's signer pass ALL clauses below (the clause names are used in violation keys):
//!
//!   sig-owner     r's owner is S's owner
//!   type-covered  r's Type Covered is S's type
//!   labels        r's Labels field is not above S's owner label count
//!   inception     inception <= now   (RFC 1982)
//!   expiration    now <= expiration  (RFC 1982)
//!   key-owner     k's owner is r's Signer's Name
//!   key-alg       k's algorithm is r's Algorithm
//!   key-tag       key tag computed over k's RDATA is r's Key Tag
//!   zone-flag     k has the Zone Key flag
//!   revoked       k does not have the REVOKE flag
//!   key-auth      k is authenticated: it is a trust anchor, or it sits in a DNSKEY RRset that is
//!                 signed (all clauses, recursively with key-auth = "is a trust anchor") by a
//!                 trust-anchor key of that RRset  (the smallest chain: no DS level exists)
//!   crypto        r's signature verifies with k over the RFC 4035 5.3.2 signed data rebuilt from
//!                 r's fields and S (canonical form, original TTL, wildcard owner)
//!
//! The RRSIG record's own class and TTL are not part of the statement and are not judged.

use std::collections::BTreeMap;
use vref::sigref::{self, Dnskey, Rr, Rrsig};
use vref::wire::{self, Labels};

pub const CLAUSES: [&str; 12] = [
    "sig-owner", "type-covered", "labels", "inception", "expiration", "key-owner", "key-alg", "key-tag", "zone-flag",
    "revoked", "key-auth", "crypto",
];

pub type Table = BTreeMap<(String, u16), Vec<u8>>;

pub fn name_key(l: &Labels) -> String {
    wire::name_to_string(&wire::lower(l))
}

#[derive(Clone, Debug)]
pub struct GroupVerdict {
    /// section of the response the RRset stands in (0 answer, 1 authority); an RRset and its
    /// RRSIGs are looked for within one section, as the validator does
    pub sec: u8,
    pub owner: Labels,
    pub class: u16,
    pub rtype: u16,
    /// RDATA (names expanded, case kept) of the members of this RRset as served
    pub members: Vec<Vec<u8>>,
    pub allowed: bool,
    /// the reference could not decide (unsupported algorithm somewhere): do not judge
    pub unknown: bool,
    /// smallest set of failing clauses over all (RRSIG, DNSKEY) candidates ("" when allowed)
    pub why: String,
    /// max over passing candidates of (expiration - now)
    pub remaining: Option<u32>,
    pub max_original_ttl: Option<u32>,
    pub max_received_ttl: u32,
    /// some passing candidate's signer does not enclose the owner (judged under C07, not here)
    pub passing_signer_not_enclosing: bool,
}

struct KeyCand {
    owner: Labels,
    rdata: Vec<u8>,
    key: Dnskey,
    authenticated: bool,
}

pub struct Parsed {
    pub answers: Vec<Rr>,
    pub authorities: Vec<Rr>,
}

pub fn parse(bytes: &[u8]) -> Option<Parsed> {
    let w = wire::walk(bytes).ok()?;
    Some(Parsed { answers: w.answers.iter().map(|r| sigref::expand(bytes, r)).collect(), authorities: w.authorities.iter().map(|r| sigref::expand(bytes, r)).collect() })
}

fn is_anchor(anchors: &[(u8, Vec<u8>)], k: &Dnskey) -> bool {
    anchors.iter().any(|(a, b)| *a == k.algorithm && *b == k.key)
}

/// Failing clauses of (r, S, k) except key-auth. `None` = cannot decide (unsupported algorithm).
fn failing(
    r_owner: &Labels,
    r: &Rrsig,
    s_owner: &Labels,
    s_class: u16,
    s_type: u16,
    s_canon: Option<&Vec<Vec<u8>>>,
    k_owner: &Labels,
    k_rdata: &[u8],
    k: &Dnskey,
    now: u32,
) -> Option<Vec<&'static str>> {
    let mut f = vec![];
    if wire::lower(r_owner) != wire::lower(s_owner) {
        f.push("sig-owner");
    }
    if r.type_covered != s_type {
        f.push("type-covered");
    }
    if r.labels as usize > sigref::label_count(s_owner) {
        f.push("labels");
    }
    if !sigref::serial_le(r.inception, now, true) {
        f.push("inception");
    }
    if !sigref::serial_le(now, r.expiration, true) {
        f.push("expiration");
    }
    if wire::lower(k_owner) != wire::lower(&r.signer) {
        f.push("key-owner");
    }
    if k.algorithm != r.algorithm {
        f.push("key-alg");
    }
    if sigref::key_tag(k_rdata) != r.key_tag {
        f.push("key-tag");
    }
    if !k.zone() {
        f.push("zone-flag");
    }
    if k.revoked() {
        f.push("revoked");
    }
    let ok = match s_canon.and_then(|c| sigref::signed_data(r, s_owner, s_class, s_type, c, true)) {
        None => Some(false),
        Some(data) => sigref::verify(k.algorithm, &k.key, &data, &r.signature),
    };
    match ok {
        None => return None,
        Some(false) => f.push("crypto"),
        Some(true) => {}
    }
    Some(f)
}

struct Group<'a> {
    owner: Labels,
    class: u16,
    rtype: u16,
    rrs: Vec<&'a Rr>,
}

fn groups(rrs: &[Rr]) -> Vec<Group<'_>> {
    let mut out: Vec<Group<'_>> = vec![];
    for r in rrs.iter().filter(|r| r.rtype != sigref::T_RRSIG) {
        let lo = wire::lower(&r.owner);
        if let Some(g) = out.iter_mut().find(|g| g.owner == lo && g.class == r.class && g.rtype == r.rtype) {
            g.rrs.push(r);
        } else {
            out.push(Group { owner: lo, class: r.class, rtype: r.rtype, rrs: vec![r] });
        }
    }
    out
}

fn canon_of(g: &Group<'_>) -> Option<Vec<Vec<u8>>> {
    g.rrs.iter().map(|r| if r.rdata_ok { sigref::canonical_rdata(r.rtype, &r.rdata) } else { None }).collect()
}

fn rrsigs(rrs: &[Rr]) -> Vec<(Labels, Rrsig)> {
    rrs.iter()
        .filter(|r| r.rtype == sigref::T_RRSIG && r.rdata_ok)
        .filter_map(|r| sigref::parse_rrsig(&r.rdata).map(|s| (r.owner.clone(), s)))
        .collect()
}

/// The keys presented for `signer`, with their authentication status. `unknown` is set when an
/// unsupported algorithm prevents a decision.
fn key_candidates(table: &Table, anchors: &[(u8, Vec<u8>)], signer: &Labels, now: u32, unknown: &mut bool) -> Vec<KeyCand> {
    let Some(bytes) = table.get(&(name_key(signer), sigref::T_DNSKEY)) else {
        return vec![];
    };
    let Some(p) = parse(bytes) else {
        return vec![];
    };
    let sigs = rrsigs(&p.answers);
    let mut out = vec![];
    for g in groups(&p.answers).iter().filter(|g| g.rtype == sigref::T_DNSKEY) {
        let keys: Vec<(&Rr, Dnskey)> = g.rrs.iter().filter_map(|r| sigref::parse_dnskey(&r.rdata).map(|k| (*r, k))).collect();
        let canon = canon_of(g);
        // is the RRset signed by a trust-anchor key that is part of it?
        let mut set_signed = false;
        for (r_owner, r) in &sigs {
            for (krr, k) in &keys {
                if !is_anchor(anchors, k) {
                    continue;
                }
                match failing(r_owner, r, &g.owner, g.class, g.rtype, canon.as_ref(), &krr.owner, &krr.rdata, k, now) {
                    None => *unknown = true,
                    Some(f) if f.is_empty() => set_signed = true,
                    _ => {}
                }
            }
        }
        for (krr, k) in keys {
            let authenticated = set_signed || is_anchor(anchors, &k);
            out.push(KeyCand { owner: krr.owner.clone(), rdata: krr.rdata.clone(), key: k, authenticated });
        }
    }
    out
}

fn encloses(signer: &Labels, owner: &Labels) -> bool {
    let s = wire::lower(signer);
    let o = wire::lower(owner);
    s.len() <= o.len() && o[o.len() - s.len()..] == s[..]
}

/// Evaluate the predicate for every RRset in the answer and authority sections of the response to `query`.
pub fn evaluate(table: &Table, anchors: &[(u8, Vec<u8>)], query: &(String, u16), now: u32) -> Option<Vec<GroupVerdict>> {
    let bytes = table.get(query)?;
    let p = parse(bytes)?;
    let mut out = vec![];
    for (sec, rrs) in [(0u8, &p.answers), (1u8, &p.authorities)] {
      let sigs = rrsigs(rrs);
      for g in groups(rrs) {
        let canon = canon_of(&g);
        let mut unknown = false;
        let mut best: Option<Vec<&'static str>> = None;
        let mut remaining = None;
        let mut max_orig = None;
        let mut not_enclosing = false;
        let mut some_enclosing = false;
        for (r_owner, r) in &sigs {
            let cands = key_candidates(table, anchors, &r.signer, now, &mut unknown);
            if cands.is_empty() {
                // no key at all for this signer: every key clause fails
                let f = vec!["key-auth", "key-owner"];
                if best.as_ref().map(|b| (f.len(), &f) < (b.len(), b)).unwrap_or(true) {
                    best = Some(f);
                }
            }
            for k in &cands {
                let Some(mut f) = failing(r_owner, r, &g.owner, g.class, g.rtype, canon.as_ref(), &k.owner, &k.rdata, &k.key, now) else {
                    unknown = true;
                    continue;
                };
                if !k.authenticated {
                    f.push("key-auth");
                }
                f.sort();
                if f.is_empty() {
                    let rem = r.expiration.wrapping_sub(now);
                    remaining = Some(remaining.map_or(rem, |x: u32| x.max(rem)));
                    max_orig = Some(max_orig.map_or(r.original_ttl, |x: u32| x.max(r.original_ttl)));
                    if encloses(&r.signer, &g.owner) {
                        some_enclosing = true;
                    } else {
                        not_enclosing = true;
                    }
                }
                if best.as_ref().map(|b| (f.len(), &f) < (b.len(), b)).unwrap_or(true) {
                    best = Some(f);
                }
            }
        }
        let (allowed, why) = match &best {
            None => (false, "no-rrsig".to_string()),
            Some(f) if f.is_empty() => (true, String::new()),
            Some(f) => (false, f.join("+")),
        };
        out.push(GroupVerdict {
            sec,
            owner: g.owner.clone(),
            class: g.class,
            rtype: g.rtype,
            members: g.rrs.iter().map(|r| r.rdata.clone()).collect(),
            allowed,
            unknown,
            why,
            remaining,
            max_original_ttl: max_orig,
            max_received_ttl: g.rrs.iter().map(|r| r.ttl).max().unwrap_or(0),
            // every passing candidate has a signer that does not enclose the owner
            passing_signer_not_enclosing: not_enclosing && !some_enclosing,
        });
      }
    }
    Some(out)
}
