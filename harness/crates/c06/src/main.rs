//! C06 — a signature is accepted only for the exact RRset, key and time window.
//!
//! Seam: `DnssecDnsHandle::with_trust_anchor(TableUpstream, anchors).lookup(..)`; the upstream
//! serves raw response bytes (decoded by hickory's real decoder); the validator clock is the
//! virtual wall clock (`SimProvider::Timer`), the validation-cache clock is the hooked monotonic
//! clock. Smallest chain: the answer and one DNSKEY sub-query (zone key = trust anchor).
//!
//! Space (E-ENUM + short histories): base cases {A x1, A x2, TXT, MX, NS, CNAME, wildcard A} x
//! {ED25519, ECDSAP256SHA256, RSASHA256} x key layouts {single key, KSK+ZSK, KSK+2 ZSK, KSK+3
//! equal-tag ZSKs}; per base: EVERY single-bit flip of both responses, the single-field
//! replacements / re-made RRSIGs / DNSKEY-set edits of `gen::field_replacements`, the clock grid of
//! `gen::clock_grid` (incl. u32 wrap and RFC 1982 edge lengths), and all op sequences of a fixed
//! length over {validate(4 worlds), validate via clone, advance, jump to 5 instants} on one handle.
//!
//! Oracle: `refpred` (only-if predicate on the mutated bytes, evaluated at the time of each
//! validate) + "TTL of a Secure record <= remaining signature life".

mod gen;
mod refpred;
mod scen;

use std::sync::atomic::{AtomicBool, Ordering};

use serde_json::json;
use vcore::Ctx;

use gen::{Base, FlipBlock, HistoryBlock, WarmBlock, WarmShape};
use scen::Scenario;

enum Block {
    Flip(FlipBlock),
    List(std::sync::Arc<Vec<Scenario>>),
    History(HistoryBlock),
    Warm(WarmBlock),
}

impl Block {
    fn count(&self) -> u64 {
        match self {
            Block::Flip(f) => f.count(),
            Block::List(l) => l.len() as u64,
            Block::History(h) => h.count(),
            Block::Warm(w) => w.count(),
        }
    }
}

fn main() {
    // a stack overflow / abort in the code under test must become a verdict, not a dead check
    vcore::supervise("C06");
    vcore::install_log_evaluation(); // logging is part of the environment: log arguments are evaluated as under a real subscriber
    let ctx = Ctx::from_args("C06", "exploration");
    let nondet = AtomicBool::new(false);

    if let Some((_key, case)) = ctx.replay_case() {
        let Some(sc) = Scenario::from_json(&case) else { vcore::machinery_exit("replay file does not hold a C06 scenario") };
        let rt = vsim::rt();
        ctx.with_local(|l| {
            let j = scen::run(&sc, &rt, l, &nondet);
            eprintln!("replayed: {} violation(s), outcomes {:?}", j.violations.len(), j.outcomes);
        });
        ctx.finish(false);
    }

    let thorough = !ctx.quick();
    ctx.set_rule(
        "alphabet: 9 RRset kinds (A x1/x2/x3, TXT, MX, NS, CNAME, wildcard A, apex TXT) x 5 algorithms (ED25519, ECDSAP256, ECDSAP384, RSASHA256, \
         RSASHA512) x key layouts (126 base cases) + 9 RRset kinds with a DOMAIN NAME INSIDE THE RDATA, letters of both cases in it - on the RFC 4034 6.2 item 3 list \
         (SOA, SRV, PTR, NAPTR; also MX, NS, CNAME above: names lower-cased in the signed data, a case flip is the same RRset, Secure allowed) and off it (NSEC next name, SVCB / HTTPS TargetName, \
         ANAME, an unknown type carrying name-like octets: case kept, RFC 6840 5.1 / RFC 3597 7, a flipped case bit is ANOTHER RRset) - Ed25519, single key [thorough: + KSK/ZSK]; for these EVERY single-bit flip of the \
         answer response, i.e. of every RDATA octet of every record incl. the 0x20 bit of the letters of embedded names, in both tiers. Each signed by hickory's own signer; per base \
         [quick: the Ed25519 bases in layouts L1, L2, the A x1 single-key base of every algorithm, the P-256 wildcard bases] EVERY single-bit flip of the answer response and of the DNSKEY response (whole message), ~150 single-field \
         replacements / re-made RRSIGs (type covered, labels 0..n+1, original TTL, key tag, algorithm, signer name, other \
         keys: other ZSK, no-ZONE key, revoked key, injected attacker key, sibling-zone key) / records added-removed / \
         received TTLs / DNSKEY-set edits, SEVERAL RRSIGs over the RRset in every order (all ordered pairs of {valid, expired, future, wrong key tag, broken, \
         50 s left, other key, sibling zone}, ordered triples, a valid one behind 7..10 broken ones; before / after the records), \
         the OWNER of the key record as its own dimension (the DNSKEY answer carries the genuine RRset plus an extra, itself Secure \
         DNSKEY RRset owned by {the zone, a descendant, a deeper descendant, an ancestor, a sibling, the zone in other case} holding \
         {the genuine key, another trusted key}; RRSIG made with it, signer field in {zone, that owner, ancestor}, key tag matching / \
         off by one), an injection family (ONE extra record at every position of the answer section that \
         differs from a genuine record in exactly one of RDATA / class {CH,HS,NONE,ANY,0x00fe} / TTL / owner case / owner, plus \
         class + new RDATA), a clock grid (now = inception/expiration -2..+2, midpoints, +-2^31; windows \
         plain, across the u32 wrap, lengths 0,1,2^31-1,2^31,2^31+1) applied to the answer RRSIG and to the DNSKEY RRSIG, \
         and all op sequences of length 4 (quick) / 5 (thorough) over {validate x 4 worlds, validate via a clone of the \
         handle, advance 1 s, jump to t0+99/100/101/301/1001} on one shared handle; the same op sequences one step shorter for 13 handle CONFIGURATIONS \
         (positive / negative validation-cache TTL ranges from {0..=0, 5..=10, 200..=400, 0..=1, 1000..=1000}, both, cache size 1) \
         with signature lifetimes (100 s, 1000 s) below and above the configured minimum (5 worlds: honest, signature bit flipped, longer-lived RRSIG, received TTL 50, \
         honest plus a forged record served twice). MULTISET family (answer section as a multiset): a forged record / the class-CH twin of a genuine \
         record added 1..4 times at every position (side by side and apart), a genuine record duplicated 1..3 times / removed / replaced by X, X X, X X X X, \
         X Y, X X Y Y, its class-CH twin (once, twice), two different forged records in five patterns, all genuine records replaced, the RRSIG duplicated / \
         removed / replaced by / accompanied by {expired, future, broken, sibling-zone, other-key, other-tag} ones, every order of the records x RRSIG \
         position, the signed RRset once more under a sibling owner / in class CH (two RRsets in one response), received TTLs. WARM family: EVERY content \
         mutation P of the field / injection / key-owner / several-RRSIG / multiset families is presented to a handle with a history - \
         honest ; P, honest-with-every-record-twice ; P, P ; honest ; P, honest ; P ; P, honest ; P ; honest, honest ; P via a clone \
         [quick: multiset - first three shapes for every base, all for the core bases; other families - honest ; P for every base (several-RRSIG: core bases)] \
         and the multiset family also under the 13 handle configurations [quick: 4 Ed25519 bases]. Oracle: only-if acceptance predicate \
         (12 clauses, refpred.rs), applied PER RECORD of the answer AND authority sections to the RRset (same section, owner, CLASS, type) the returned record is a member of, on the mutated bytes with vref::sigref + ring at the time of EACH validate; TTL of Secure \
         records <= expiration - now. A verdict for answer content (records + RRSIGs) that was returned Secure earlier in the same history may rest on the \
         DNSKEY response presented THEN (judged at the time of THIS validate). Differential side: every validate step after the first is also given to a \
         FRESH handle (same configuration, same time); Secure only on the warm handle while the reference cannot decide is a violation, the other \
         differences are logged. distinct_nontrivial = cases where the reference rejects with exactly ONE failing \
         clause (they tell the reference from the predicate without that clause).",
    );
    ctx.assume("ring's Ed25519/ECDSA/RSA verification and vref::sigref (RFC 4034 6.2/6.3, 4035 5.3.2 signed data, appendix B key tag, RFC 1982) are the reference");
    ctx.assume("the 'signer name encloses the owner' requirement is not part of C06's statement: sibling-signer cases are enumerated, logged as obs and judged under C07");
    ctx.assume("RFC 1982 comparisons at distance exactly 2^31 are undefined: the reference accepts both answers there");
    ctx.assume("a cached Secure verdict stays allowed while both signature windows hold even if the upstream meanwhile serves another DNSKEY RRset (the validation cache is keyed by RRset + RRSIGs, not by the keys): ordinary caching, logged as obs");
    ctx.assume("TTL clauses judged: remaining signature lifetime only (statement); TTL above original/received TTL is logged as obs");

    // ---- bases
    let mut bases: Vec<Base> = vec![];
    for kind in gen::rrset_kinds() {
        for alg in gen::algs() {
            for layout in gen::layouts_for(alg) {
                bases.push(gen::base(kind, alg, layout));
            }
        }
    }
    // RRset kinds with a domain name inside the RDATA (on and off the RFC 4034 6.2 list): Ed25519,
    // single key in z. and KSK+ZSK in the root zone
    for kind in gen::name_kinds() {
        for layout in if thorough { vec!["L1", "L2"] } else { vec!["L1"] } {
            bases.push(gen::base(kind, hickory_proto::dnssec::Algorithm::ED25519, layout));
        }
    }
    ctx.set("base_cases", json!(bases.len()));

    // ---- vacuity: every honest base case must be Secure on hickory and allowed by the reference
    {
        let rt = vsim::rt();
        ctx.with_local(|l| {
            for b in &bases {
                let w = gen::wide(gen::T0);
                let sc = b.single("honest", "vacuity guard".into(), gen::T0, &b.honest(w, w));
                let j = scen::run(&sc, &rt, l, &nondet);
                if j.secure_groups == 0 || j.allowed_groups == 0 || !j.violations.is_empty() {
                    ctx.machinery_failure(&format!(
                        "honest base case {} is not Secure/allowed (secure={} allowed={} violations={:?} outcomes={:?})",
                        b.name, j.secure_groups, j.allowed_groups, j.violations, j.outcomes
                    ));
                }
            }
        });
    }

    // ---- blocks
    let mut blocks: Vec<Block> = vec![];
    let build = std::sync::Mutex::new(Vec::<(usize, Vec<Block>)>::new());
    ctx.par_run(bases.len() as u64, 1, |i, _l| {
        let b = &bases[i as usize];
        let mut v = vec![];
        // quick tier: every single-bit flip (and the clock grid) for the Ed25519 bases in layouts L1, L2
        // (A x1: all layouts), the A x1 single-key base of every other algorithm and the P-256
        // wildcard bases; thorough: all bases
        let l12 = b.name.ends_with("/L1") || b.name.ends_with("/L2");
        let core = (b.name.contains("ED25519") && (l12 || b.name.starts_with("A1/"))) || (b.name.starts_with("A1/") && b.name.ends_with("/L1")) || (b.name.starts_with("WILDA/") && l12 && b.name.contains("ECDSAP256"));
        let name_kind = gen::name_kinds().iter().any(|k| b.name.starts_with(&format!("{k}/")));
        if name_kind {
            // every single-bit flip of the answer response - every RDATA octet of every record,
            // incl. the 0x20 bit of the letters inside embedded names - in both tiers
            v.push(Block::Flip(FlipBlock::with_targets(b, thorough)));
        } else if thorough || core {
            v.push(Block::Flip(FlipBlock::new(b)));
        }
        use std::sync::Arc;
        let field = Arc::new(gen::field_replacements(b));
        let inject = Arc::new(gen::injections(b));
        let kown = Arc::new(gen::key_owners(b));
        let msig = Arc::new(gen::multi_sigs(b, thorough, thorough || b.name.contains("ED25519")));
        let mset = Arc::new(gen::multisets(b));
        for l in [&field, &inject, &kown, &msig, &mset] {
            v.push(Block::List(l.clone()));
        }
        if thorough || core {
            v.push(Block::List(Arc::new(gen::clock_grid(b, thorough))));
        }
        // WARM presentations: every content mutation P of the cold families presented to a handle
        // that has validated the honest world before. Multiset family: every shape; the other
        // families: honest ; P (quick), every shape (thorough).
        let dflt = vec![scen::HandleCfg::default()];
        let all_shapes = vec![WarmShape::HP, WarmShape::DP, WarmShape::PHP, WarmShape::HPP, WarmShape::HPH, WarmShape::HPclone];
        // multiset family: quick - honest ; P and honest-twice ; P for every base, + P ; honest ; P and
        // honest ; P ; P for the core bases; thorough - every shape for every base
        let shapes = if thorough {
            all_shapes.clone()
        } else if core {
            vec![WarmShape::HP, WarmShape::DP, WarmShape::PHP, WarmShape::HPP]
        } else {
            vec![WarmShape::HP, WarmShape::DP]
        };
        v.push(Block::Warm(WarmBlock::new(b, mset.clone(), shapes, dflt.clone())));
        // the other content families: quick - honest ; P for every base (several-RRSIG family: core
        // bases), plus honest-twice ; P for the core bases; thorough - every shape for every base
        for (l, every_base) in [(&field, true), (&inject, true), (&kown, true), (&msig, false)] {
            let shapes = if thorough {
                // (the several-RRSIG family is the largest one: three shapes)
                if every_base { all_shapes.clone() } else { vec![WarmShape::HP, WarmShape::DP, WarmShape::PHP] }
            } else if core && every_base {
                vec![WarmShape::HP, WarmShape::DP]
            } else if core || every_base {
                vec![WarmShape::HP]
            } else {
                continue;
            };
            v.push(Block::Warm(WarmBlock::new(b, l.clone(), shapes, dflt.clone())));
        }
        // ... crossed with the 13 handle configurations (multiset family; quick: the Ed25519 A x1 /
        // x2 / x3 bases with a single key and the KSK+ZSK A x1 base)
        let cfg_base = b.name.contains("ED25519") && ((b.name.ends_with("/L1") && b.name.starts_with('A')) || b.name == "A1/ED25519/L2");
        if thorough || cfg_base {
            v.push(Block::Warm(WarmBlock::new(b, mset.clone(), if thorough { vec![WarmShape::HP, WarmShape::DP, WarmShape::PHP] } else { vec![WarmShape::HP] }, gen::handle_configs())));
        }
        build.lock().unwrap().push((i as usize, v));
    });
    let mut built = build.into_inner().unwrap();
    built.sort_by_key(|x| x.0);
    for (_, v) in built {
        blocks.extend(v);
    }
    // histories: single key in z. (both DNSKEY-RRSIG configurations), KSK+ZSK in the root zone,
    // and in the thorough tier also the other algorithms and the wildcard answer
    let depth = if thorough { 5 } else { 4 };
    let mut hist: Vec<(&str, hickory_proto::dnssec::Algorithm, &str, bool)> = vec![
        ("A1", hickory_proto::dnssec::Algorithm::ED25519, "L1", false),
        ("A1", hickory_proto::dnssec::Algorithm::ED25519, "L2", true),
    ];
    if thorough {
        hist.push(("A1", hickory_proto::dnssec::Algorithm::ED25519, "L1", true));
        hist.push(("A1", hickory_proto::dnssec::Algorithm::ED25519, "L2", false));
        hist.push(("A2", hickory_proto::dnssec::Algorithm::ECDSAP256SHA256, "L1", false));
        hist.push(("WILDA", hickory_proto::dnssec::Algorithm::ED25519, "L1", false));
    }
    for (kind, alg, layout, narrow) in hist {
        // (quick: the fifth world - a forged record served twice - only in the configuration blocks below)
        blocks.push(Block::History(HistoryBlock::new(&gen::base(kind, alg, layout), depth, narrow, thorough)));
    }
    // the handle CONFIGURATION as a dimension of the histories: every configuration x all op
    // sequences of length 3 (quick) / 4 (thorough), single-key and KSK+ZSK layouts
    let cfgs = gen::handle_configs();
    ctx.set("handle_configurations", json!(cfgs.iter().map(|c| c.tag()).collect::<Vec<_>>()));
    for cfg in &cfgs {
        for (layout, narrow) in [("L1", false), ("L2", true)] {
            blocks.push(Block::History(HistoryBlock::new(&gen::base("A1", hickory_proto::dnssec::Algorithm::ED25519, layout), depth - 1, narrow, true).with_cfg(cfg.clone())));
        }
    }

    let mut starts = vec![];
    let mut total = 0u64;
    let (mut n_flip, mut n_field, mut n_hist, mut n_warm) = (0u64, 0u64, 0u64, 0u64);
    for b in &blocks {
        starts.push(total);
        total += b.count();
        match b {
            Block::Flip(_) => n_flip += b.count(),
            Block::List(_) => n_field += b.count(),
            Block::History(_) => n_hist += b.count(),
            Block::Warm(_) => n_warm += b.count(),
        }
    }
    ctx.set("space", json!(total));
    ctx.set("scenarios_bitflip", json!(n_flip));
    ctx.set("scenarios_field_and_clock", json!(n_field));
    ctx.set("scenarios_history", json!(n_hist));
    ctx.set("scenarios_warm_presentation", json!(n_warm));
    ctx.set("history_depth", json!(depth));

    // permute block-local order only through the seed (enumeration order, never the set)
    let seed = ctx.seed;
    ctx.par_run_init(
        total,
        64,
        |_| vsim::rt(),
        |i, l, rt| {
            let i = if seed == 0 { i } else { (i + seed) % total };
            let bi = match starts.binary_search(&i) {
                Ok(x) => x,
                Err(x) => x - 1,
            };
            let off = i - starts[bi];
            let owned;
            let sc: &Scenario = match &blocks[bi] {
                Block::Flip(f) => {
                    owned = f.scenario(off);
                    &owned
                }
                Block::List(v) => &v[off as usize],
                Block::History(h) => {
                    owned = h.scenario(off);
                    &owned
                }
                Block::Warm(w) => {
                    owned = w.scenario(off);
                    &owned
                }
            };
            scen::run(sc, rt, l, &nondet);
            if i % 50_021 == 0 {
                l.sample(json!(sc.desc));
            }
        },
    );

    if nondet.load(Ordering::SeqCst) {
        ctx.machinery_failure("a violating scenario gave different observations when executed twice");
    }
    // vacuity: every clause of the reference predicate must have been the ONLY failing clause of
    // some executed case (otherwise the space cannot tell the predicate from a weaker one)
    for c in refpred::CLAUSES {
        if ctx.outcome_count(&format!("distinguishes:{c}")) == 0 {
            ctx.machinery_failure(&format!("vacuous: no case isolates clause '{c}'"));
        }
    }
    let mut dist = serde_json::Map::new();
    for c in refpred::CLAUSES {
        dist.insert(c.to_string(), json!(ctx.outcome_count(&format!("distinguishes:{c}"))));
    }
    ctx.set("cases_isolating_each_clause", serde_json::Value::Object(dist));
    ctx.finish(true);
}
