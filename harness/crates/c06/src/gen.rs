//! Base cases and mutation families of C06.

use std::collections::HashMap;
use std::sync::{Arc, Mutex, OnceLock};

use hickory_proto::dnssec::rdata::{DNSSECRData, NSEC, RRSIG};
use hickory_proto::dnssec::{Algorithm, SigningKey};
use hickory_proto::op::Query;
use hickory_proto::rr::rdata::{A, ANAME, CNAME, HTTPS, MX, NAPTR, NS, NULL, PTR, SOA, SRV, SVCB, TXT};
use hickory_proto::rr::{DNSClass, Name, RData, Record, RecordType, SerialNumber};
use vsec::keys::{self, KeyMat, ZoneKey, F_KSK, F_NOZONE, F_REVOKED, F_ZSK};
use vsec::sign::{self, SigSpec};
use vsec::upstream::key_of;

use crate::refpred::Table;
use crate::scen::{Scenario, Step};

pub const T0: u64 = 1_700_000_000;
pub const TTL: u32 = 300;

fn sk(m: &KeyMat) -> Arc<Box<dyn SigningKey>> {
    m.shared()
}

/// Signatures are memoised per (records, key, spec): the same honest RRSIG bytes come back for the
/// same request, whichever family asks (ECDSA signing is randomised; a warm-up world and a
/// presentation derived from "the" honest world must carry the very same RRSIG).
pub fn make_sig(records: &[Record], key: &ZoneKey, spec: &SigSpec) -> Record {
    use std::hash::{Hash, Hasher};
    static MEMO: OnceLock<Mutex<HashMap<(u64, u64), Record>>> = OnceLock::new();
    let text = format!("{records:?}|{}|{}|{}|{}|{spec:?}", key.mat.id, u8::from(key.mat.alg), key.zone, key.flags);
    let mut h = std::collections::hash_map::DefaultHasher::new();
    text.hash(&mut h);
    let k = (h.finish(), vcore::fnv64(text.as_bytes()));
    let memo = MEMO.get_or_init(|| Mutex::new(HashMap::new()));
    if let Some(r) = memo.lock().unwrap().get(&k) {
        return r.clone();
    }
    let r = sign::sign_rrset(records, key, &**sk(&key.mat), spec);
    memo.lock().unwrap().insert(k, r.clone());
    r
}

#[derive(Clone)]
pub struct Base {
    pub name: String,
    pub zone: Name,
    pub qname: Name,
    pub qtype: RecordType,
    pub records: Vec<Record>,
    /// Labels value an honest signer uses (smaller than the owner's count for the wildcard case)
    pub labels: u8,
    /// unsigned authority RRsets that go with the answer (NSEC for the wildcard expansion)
    pub authority: Vec<Vec<Record>>,
    pub keys: Vec<ZoneKey>,
    pub anchors: Vec<usize>,
    pub ans_signer: usize,
    pub dk_signers: Vec<usize>,
    /// the sibling zone `e.` (own key = trust anchor): its DNSKEY response is part of every world
    pub sibling: ZoneKey,
    /// two forged RDATA values of the RRset's own type (kinds with an embedded name; the older
    /// kinds take theirs from `new_rdata`)
    pub forged: Vec<RData>,
}

#[derive(Clone)]
pub struct WorldSpec {
    pub ans_records: Vec<Record>,
    pub ans_sigs: Vec<Record>,
    pub authority: Vec<Record>,
    pub dnskeys: Vec<Record>,
    pub dnskey_sigs: Vec<Record>,
    /// RRSIGs first in the DNSKEY / answer sections
    pub sigs_first: bool,
    /// one extra record inserted at that position of the answer section
    pub inject: Option<(usize, Record)>,
    /// the complete answer section as served (multiset family); overrides the fields above
    pub answer_section: Option<Vec<Record>>,
}

pub fn rrset_kinds() -> Vec<&'static str> {
    // A3: three records; APEX: an RRset at the zone apex (Labels = label count of the zone, 0 in
    // the root zone)
    vec!["A1", "A2", "A3", "TXT", "MX", "NS", "CNAME", "WILDA", "APEX"]
}

/// RRset kinds whose RDATA holds a domain name, with letters of both cases in it. ON the list of
/// RFC 4034 6.2 item 3 (names lower-cased in the signed data, so the letter case is not part of
/// "the exact RRset"): SOA, SRV, PTR, NAPTR (+ MX, NS, CNAME above). OFF the list (RFC 6840 5.1,
/// RFC 3597 7: case kept, a flipped case bit is another RRset): NSEC, SVCB, HTTPS, ANAME and an
/// unknown type carrying name-like octets.
pub fn name_kinds() -> Vec<&'static str> {
    vec!["SOA", "SRV", "PTR", "NAPTR", "NSEC", "SVCB", "HTTPS", "ANAME", "OPAQUE"]
}

fn child(zone: &Name, label: &str) -> Name {
    Name::from_ascii(label).unwrap().append_domain(zone).unwrap()
}

pub fn layouts_for(alg: Algorithm) -> Vec<&'static str> {
    match alg {
        Algorithm::ED25519 => vec!["L1", "L2", "L3", "L4"],
        Algorithm::ECDSAP256SHA256 | Algorithm::ECDSAP384SHA384 => vec!["L1", "L2", "L3"],
        _ => vec!["L1", "L2"],
    }
}

pub fn algs() -> Vec<Algorithm> {
    vec![Algorithm::ED25519, Algorithm::ECDSAP256SHA256, Algorithm::RSASHA256, Algorithm::ECDSAP384SHA384, Algorithm::RSASHA512]
}

fn alg_keys(alg: Algorithm) -> Vec<KeyMat> {
    match alg {
        Algorithm::ED25519 => keys::ED[1..4].to_vec(),
        Algorithm::ECDSAP256SHA256 => keys::P256.to_vec(),
        Algorithm::ECDSAP384SHA384 => keys::P384.to_vec(),
        Algorithm::RSASHA512 => keys::RSA512.to_vec(),
        _ => keys::RSA.to_vec(),
    }
}

fn opaque(rdata: &[u8]) -> RData {
    RData::Unknown { code: RecordType::Unknown(65280), rdata: NULL::with(rdata.to_vec()) }
}

pub fn base(kind: &str, alg: Algorithm, layout: &str) -> Base {
    // L1 lives in zone `z.` (its single key is the trust anchor). The multi-key layouts live in the
    // root zone: for any other zone hickory needs a DS as soon as one key of the DNSKEY RRset is not
    // a trust anchor, and DS chains are C07's subject.
    let zone = if layout == "L1" { vsec::n("z.") } else { Name::root() };
    let ak = alg_keys(alg);
    let (keys, anchors, ans_signer, dk_signers): (Vec<ZoneKey>, Vec<usize>, usize, Vec<usize>) = match layout {
        "L1" => (vec![ZoneKey::new(ak[0], &zone, F_KSK)], vec![0], 0, vec![0]),
        // KSK (Ed25519, anchor) + ZSK of the algorithm under test
        "L2" => (vec![ZoneKey::new(keys::ED[0], &zone, F_KSK), ZoneKey::new(ak[0], &zone, F_ZSK)], vec![0], 1, vec![0]),
        // KSK + two ZSKs, the second one signs
        "L3" => (
            vec![ZoneKey::new(keys::ED[0], &zone, F_KSK), ZoneKey::new(ak[0], &zone, F_ZSK), ZoneKey::new(ak[1], &zone, F_ZSK)],
            vec![0],
            2,
            vec![0],
        ),
        // KSK + three ZSKs with one and the same key tag, the first of them signs
        "L4" => (
            vec![
                ZoneKey::new(keys::ED[0], &zone, F_KSK),
                ZoneKey::new(keys::TAG[0], &zone, F_ZSK),
                ZoneKey::new(keys::TAG[1], &zone, F_ZSK),
                ZoneKey::new(keys::TAG[2], &zone, F_ZSK),
            ],
            vec![0],
            1,
            vec![0],
        ),
        _ => unreachable!(),
    };
    let www = child(&zone, "www");
    let zl = zone.num_labels();
    let (qname, qtype, records, labels, authority): (Name, RecordType, Vec<Record>, u8, Vec<Vec<Record>>) = match kind {
        "A1" => (www.clone(), RecordType::A, vec![Record::from_rdata(www.clone(), TTL, RData::A(A::new(192, 0, 2, 1)))], zl + 1, vec![]),
        "A2" => (
            www.clone(),
            RecordType::A,
            vec![
                Record::from_rdata(www.clone(), TTL, RData::A(A::new(192, 0, 2, 1))),
                Record::from_rdata(www.clone(), TTL, RData::A(A::new(192, 0, 2, 2))),
            ],
            zl + 1,
            vec![],
        ),
        "A3" => (
            www.clone(),
            RecordType::A,
            (1..=3).map(|i| Record::from_rdata(www.clone(), TTL, RData::A(A::new(192, 0, 2, i)))).collect(),
            zl + 1,
            vec![],
        ),
        "APEX" => (zone.clone(), RecordType::TXT, vec![Record::from_rdata(zone.clone(), TTL, RData::TXT(TXT::new(vec!["apex".to_string()])))], zl, vec![]),
        "TXT" => (www.clone(), RecordType::TXT, vec![Record::from_rdata(www.clone(), TTL, RData::TXT(TXT::new(vec!["hello".to_string()])))], zl + 1, vec![]),
        "MX" => (www.clone(), RecordType::MX, vec![Record::from_rdata(www.clone(), TTL, RData::MX(MX::new(10, child(&zone, "mail"))))], zl + 1, vec![]),
        "NS" => (www.clone(), RecordType::NS, vec![Record::from_rdata(www.clone(), TTL, RData::NS(NS(child(&zone, "ns1"))))], zl + 1, vec![]),
        "CNAME" => (www.clone(), RecordType::CNAME, vec![Record::from_rdata(www.clone(), TTL, RData::CNAME(CNAME(child(&zone, "target"))))], zl + 1, vec![]),
        "WILDA" => {
            // a.b.<zone> synthesised from *.<zone>; NSEC *.<zone> -> zz.<zone> proves there is no closer match
            let q = child(&child(&zone, "b"), "a");
            let star = child(&zone, "*");
            let nsec = Record::from_rdata(
                star,
                TTL,
                RData::DNSSEC(DNSSECRData::NSEC(NSEC::new(child(&zone, "zz"), [RecordType::A, RecordType::RRSIG, RecordType::NSEC]))),
            );
            (q.clone(), RecordType::A, vec![Record::from_rdata(q, TTL, RData::A(A::new(192, 0, 2, 7)))], zl, vec![vec![nsec]])
        }
        "SOA" => (
            zone.clone(),
            RecordType::SOA,
            vec![Record::from_rdata(zone.clone(), TTL, RData::SOA(SOA::new(child(&zone, "Ns.MasTer"), child(&zone, "HostMaster"), 7, 3600, 600, 86400, 60)))],
            zl,
            vec![],
        ),
        "SRV" => (www.clone(), RecordType::SRV, vec![Record::from_rdata(www.clone(), TTL, RData::SRV(SRV::new(1, 2, 443, child(&zone, "SrvHost"))))], zl + 1, vec![]),
        "PTR" => (www.clone(), RecordType::PTR, vec![Record::from_rdata(www.clone(), TTL, RData::PTR(PTR(child(&zone, "PtrHost"))))], zl + 1, vec![]),
        "NAPTR" => (
            www.clone(),
            RecordType::NAPTR,
            vec![Record::from_rdata(www.clone(), TTL, RData::NAPTR(NAPTR::new(10, 20, b"u".to_vec().into(), b"E2U+sip".to_vec().into(), b"".to_vec().into(), child(&zone, "RePlace"))))],
            zl + 1,
            vec![],
        ),
        "NSEC" => (
            www.clone(),
            RecordType::NSEC,
            vec![Record::from_rdata(www.clone(), TTL, RData::DNSSEC(DNSSECRData::NSEC(NSEC::new(child(&zone, "XyZ"), [RecordType::A, RecordType::RRSIG, RecordType::NSEC]))))],
            zl + 1,
            vec![],
        ),
        "SVCB" => (www.clone(), RecordType::SVCB, vec![Record::from_rdata(www.clone(), TTL, RData::SVCB(SVCB::new(1, child(&zone, "SvcHost"), vec![])))], zl + 1, vec![]),
        "HTTPS" => (www.clone(), RecordType::HTTPS, vec![Record::from_rdata(www.clone(), TTL, RData::HTTPS(HTTPS(SVCB::new(1, child(&zone, "WebHost"), vec![]))))], zl + 1, vec![]),
        "ANAME" => (www.clone(), RecordType::ANAME, vec![Record::from_rdata(www.clone(), TTL, RData::ANAME(ANAME(child(&zone, "ANameT"))))], zl + 1, vec![]),
        "OPAQUE" => (www.clone(), RecordType::Unknown(65280), vec![Record::from_rdata(www.clone(), TTL, opaque(b"\x00\x01\x08NameLike\x01e\x00"))], zl + 1, vec![]),
        _ => unreachable!(),
    };
    let forged: Vec<RData> = match kind {
        "SOA" => [8u32, 9].iter().map(|n| RData::SOA(SOA::new(child(&zone, "Ns.MasTer"), child(&zone, "HostMaster"), *n, 3600, 600, 86400, 60))).collect(),
        "SRV" => [444u16, 445].iter().map(|n| RData::SRV(SRV::new(1, 2, *n, vsec::n("evil.e.")))).collect(),
        "PTR" => ["evil.e.", "evil2.e."].iter().map(|n| RData::PTR(PTR(vsec::n(n)))).collect(),
        "NAPTR" => ["evil.e.", "evil2.e."].iter().map(|n| RData::NAPTR(NAPTR::new(10, 20, b"u".to_vec().into(), b"E2U+sip".to_vec().into(), b"".to_vec().into(), vsec::n(n)))).collect(),
        "NSEC" => ["evil.e.", "evil2.e."].iter().map(|n| RData::DNSSEC(DNSSECRData::NSEC(NSEC::new(vsec::n(n), [RecordType::A, RecordType::RRSIG, RecordType::NSEC])))).collect(),
        "SVCB" => ["evil.e.", "evil2.e."].iter().map(|n| RData::SVCB(SVCB::new(1, vsec::n(n), vec![]))).collect(),
        "HTTPS" => ["evil.e.", "evil2.e."].iter().map(|n| RData::HTTPS(HTTPS(SVCB::new(1, vsec::n(n), vec![])))).collect(),
        "ANAME" => ["evil.e.", "evil2.e."].iter().map(|n| RData::ANAME(ANAME(vsec::n(n)))).collect(),
        "OPAQUE" => vec![opaque(b"\x00\x01\x04evil\x01e\x00"), opaque(b"\x00\x02\x04evil\x01e\x00")],
        _ => vec![],
    };
    Base {
        forged,
        name: format!("{kind}/{alg:?}/{layout}"),
        zone,
        qname,
        qtype,
        records,
        labels,
        authority,
        keys,
        anchors,
        ans_signer,
        dk_signers,
        sibling: ZoneKey::new(keys::ED[8], &vsec::n("e."), F_KSK),
    }
}

pub type Win = (u32, u32);

pub fn wide(now: u64) -> Win {
    ((now as u32).wrapping_sub(1 << 20), (now as u32).wrapping_add(1 << 20))
}

impl Base {
    pub fn dnskey_records(&self, keys: &[ZoneKey]) -> Vec<Record> {
        keys.iter().map(|k| sign::dnskey_record(&k.zone, TTL, k.dnskey())).collect()
    }

    pub fn ans_spec(&self, win: Win) -> SigSpec {
        SigSpec { inception: win.0, expiration: win.1, labels: Some(self.labels), ..Default::default() }
    }

    pub fn honest(&self, ans_win: Win, dk_win: Win) -> WorldSpec {
        let ans_sigs = vec![make_sig(&self.records, &self.keys[self.ans_signer], &self.ans_spec(ans_win))];
        let mut authority = vec![];
        for set in &self.authority {
            authority.extend(set.iter().cloned());
            authority.push(make_sig(set, &self.keys[self.ans_signer], &SigSpec::window(ans_win.0, ans_win.1)));
        }
        let dnskeys = self.dnskey_records(&self.keys);
        let dnskey_sigs = self.dk_signers.iter().map(|i| make_sig(&dnskeys, &self.keys[*i], &SigSpec::window(dk_win.0, dk_win.1))).collect();
        WorldSpec { ans_records: self.records.clone(), ans_sigs, authority, dnskeys, dnskey_sigs, sigs_first: false, inject: None, answer_section: None }
    }

    pub fn resign_dnskeys(&self, spec: &mut WorldSpec, dk_win: Win) {
        spec.dnskey_sigs = self.dk_signers.iter().map(|i| make_sig(&spec.dnskeys, &self.keys[*i], &SigSpec::window(dk_win.0, dk_win.1))).collect();
    }

    pub fn assemble(&self, spec: &WorldSpec, now: u64) -> Table {
        let mut t = Table::new();
        let q = Query::new(self.qname.clone(), self.qtype);
        let mut an = vec![];
        if spec.sigs_first {
            an.extend(spec.ans_sigs.iter().cloned());
            an.extend(spec.ans_records.iter().cloned());
        } else {
            an.extend(spec.ans_records.iter().cloned());
            an.extend(spec.ans_sigs.iter().cloned());
        }
        if let Some((pos, rec)) = &spec.inject {
            an.insert((*pos).min(an.len()), rec.clone());
        }
        if let Some(full) = &spec.answer_section {
            an = full.clone();
        }
        t.insert(key_of(&self.qname, self.qtype), sign::response(&q, an, spec.authority.clone()).to_vec().unwrap());
        let dq = Query::new(self.zone.clone(), RecordType::DNSKEY);
        let mut an = vec![];
        if spec.sigs_first {
            an.extend(spec.dnskey_sigs.iter().cloned());
            an.extend(spec.dnskeys.iter().cloned());
        } else {
            an.extend(spec.dnskeys.iter().cloned());
            an.extend(spec.dnskey_sigs.iter().cloned());
        }
        t.insert(key_of(&self.zone, RecordType::DNSKEY), sign::response(&dq, an, vec![]).to_vec().unwrap());
        // the independently trusted sibling zone e.
        let e = &self.sibling;
        let ek = vec![sign::dnskey_record(&e.zone, TTL, e.dnskey())];
        let w = wide(now);
        let esig = make_sig(&ek, e, &SigSpec::window(w.0, w.1));
        let eq = Query::new(e.zone.clone(), RecordType::DNSKEY);
        t.insert(key_of(&e.zone, RecordType::DNSKEY), sign::response(&eq, vec![ek[0].clone(), esig], vec![]).to_vec().unwrap());
        t
    }

    pub fn anchor_list(&self) -> Vec<(u8, Vec<u8>)> {
        use hickory_proto::dnssec::PublicKey;
        let mut v: Vec<(u8, Vec<u8>)> = self.anchors.iter().map(|i| (u8::from(self.keys[*i].mat.alg), self.keys[*i].public.public_bytes().to_vec())).collect();
        v.push((u8::from(self.sibling.mat.alg), self.sibling.public.public_bytes().to_vec()));
        v
    }

    pub fn scenario(&self, family: &'static str, desc: String, now: u64, worlds: Vec<Table>, steps: Vec<Step>) -> Scenario {
        Scenario { cfg: Default::default(), anchors: self.anchor_list(), query: key_of(&self.qname, self.qtype), t0: now, worlds, steps, desc: format!("{} {}: {}", family, self.name, desc), family }
    }

    pub fn single(&self, family: &'static str, desc: String, now: u64, spec: &WorldSpec) -> Scenario {
        self.scenario(family, desc, now, vec![self.assemble(spec, now)], vec![Step::Validate { world: 0, clone: false }])
    }
}

// ------------------------------------------------------------------------------------------
// F1: single-bit flips of the two responses (addressed lazily)

pub struct FlipBlock {
    pub base: Base,
    pub honest: Table,
    /// (table key, byte length)
    pub targets: Vec<((String, u16), usize)>,
}

impl FlipBlock {
    pub fn new(b: &Base) -> Self {
        Self::with_targets(b, true)
    }
    /// `dnskey_too == false`: the bits of the answer response only (the DNSKEY response of a base
    /// case does not depend on the RRset kind)
    pub fn with_targets(b: &Base, dnskey_too: bool) -> Self {
        let spec = b.honest(wide(T0), wide(T0));
        let honest = b.assemble(&spec, T0);
        let mut keys = vec![key_of(&b.qname, b.qtype)];
        if dnskey_too {
            keys.push(key_of(&b.zone, RecordType::DNSKEY));
        }
        let targets = keys.into_iter().map(|k| (k.clone(), honest[&k].len())).collect();
        FlipBlock { base: b.clone(), honest, targets }
    }
    pub fn count(&self) -> u64 {
        self.targets.iter().map(|t| t.1 as u64 * 8).sum()
    }
    pub fn scenario(&self, mut i: u64) -> Scenario {
        for (k, len) in &self.targets {
            let bits = *len as u64 * 8;
            if i < bits {
                let mut t = self.honest.clone();
                let b = t.get_mut(k).unwrap();
                b[(i / 8) as usize] ^= 0x80 >> (i % 8);
                let which = if k.1 == 48 { "dnskey-response" } else { "answer-response" };
                return self.base.scenario("flip", format!("{which} byte {} bit {}", i / 8, i % 8), T0, vec![t], vec![Step::Validate { world: 0, clone: false }]);
            }
            i -= bits;
        }
        unreachable!()
    }
}

// ------------------------------------------------------------------------------------------
// F2: single-field replacements, records added / removed, re-made RRSIGs, DNSKEY set edits

fn rrsig_of(r: &Record) -> &RRSIG {
    match &r.data {
        RData::DNSSEC(DNSSECRData::RRSIG(s)) => s,
        _ => panic!("not an RRSIG"),
    }
}

fn raw_edit(sig: &Record, f: impl FnOnce(&mut hickory_proto::dnssec::rdata::SigInput)) -> Record {
    let s = rrsig_of(sig);
    let mut input = s.input().clone();
    f(&mut input);
    let mut r = sig.clone();
    r.data = RData::DNSSEC(DNSSECRData::RRSIG(RRSIG::from_sig(input, s.sig().to_vec())));
    r
}

fn first_label_replaced(n: &Name, with: &str) -> Name {
    child(&n.base_name(), with)
}

pub fn field_replacements(b: &Base) -> Vec<Scenario> {
    let now = T0;
    let w = wide(now);
    let h = b.honest(w, w);
    let signer_key = b.keys[b.ans_signer].clone();
    let mut out: Vec<Scenario> = vec![];
    let mut push = |desc: String, spec: WorldSpec| out.push(b.single("field", desc, now, &spec));

    push("honest".into(), h.clone());
    {
        let mut s = h.clone();
        s.sigs_first = true;
        push("honest, RRSIGs before the records".into(), s);
    }

    // owners
    let owner = b.records[0].name.clone();
    let upper = Name::from_ascii(owner.to_ascii().to_uppercase()).unwrap();
    let owner_alts: Vec<(&str, Name)> = vec![
        ("sibling", first_label_replaced(&owner, "wwx")),
        ("parent", owner.base_name()),
        ("child", child(&owner, "c")),
        ("case-variant", upper),
    ];
    for (what, alt) in &owner_alts {
        let mut s = h.clone();
        s.ans_records.iter_mut().for_each(|r| r.name = alt.clone());
        push(format!("owner of the records -> {what} {alt}"), s);
        let mut s = h.clone();
        s.ans_sigs.iter_mut().for_each(|r| r.name = alt.clone());
        push(format!("owner of the RRSIG -> {what} {alt}"), s);
        let mut s = h.clone();
        s.ans_records.iter_mut().chain(s.ans_sigs.iter_mut()).for_each(|r| r.name = alt.clone());
        push(format!("owner of records and RRSIG -> {what} {alt}"), s);
    }
    // class
    {
        let mut s = h.clone();
        s.ans_records[0].dns_class = DNSClass::CH;
        push("class of record 0 -> CH".into(), s);
        let mut s = h.clone();
        s.ans_records.iter_mut().for_each(|r| r.dns_class = DNSClass::CH);
        push("class of all records -> CH".into(), s);
        let mut s = h.clone();
        s.ans_sigs[0].dns_class = DNSClass::CH;
        push("class of the RRSIG -> CH".into(), s);
        let mut s = h.clone();
        s.ans_records.iter_mut().chain(s.ans_sigs.iter_mut()).for_each(|r| r.dns_class = DNSClass::CH);
        push("class of records and RRSIG -> CH".into(), s);
    }
    // received TTLs
    for ttl in [0u32, TTL - 1, TTL + 1, 1 << 31, u32::MAX] {
        let mut s = h.clone();
        s.ans_records.iter_mut().for_each(|r| r.ttl = ttl);
        push(format!("received TTL of the records -> {ttl}"), s);
        let mut s = h.clone();
        s.ans_sigs.iter_mut().for_each(|r| r.ttl = ttl);
        push(format!("received TTL of the RRSIG -> {ttl}"), s);
        let mut s = h.clone();
        s.ans_records.iter_mut().chain(s.ans_sigs.iter_mut()).for_each(|r| r.ttl = ttl);
        push(format!("received TTL of records and RRSIG -> {ttl}"), s);
    }
    // records added / removed
    {
        let mut s = h.clone();
        let mut extra = s.ans_records[0].clone();
        extra.data = match b.qtype {
            _ if !b.forged.is_empty() => b.forged[0].clone(),
            RecordType::A => RData::A(A::new(6, 6, 6, 6)),
            RecordType::TXT => RData::TXT(TXT::new(vec!["evil".into()])),
            RecordType::MX => RData::MX(MX::new(1, vsec::n("evil.e."))),
            RecordType::NS => RData::NS(NS(vsec::n("evil.e."))),
            _ => RData::CNAME(CNAME(vsec::n("evil.e."))),
        };
        s.ans_records.push(extra.clone());
        push("record added (new RDATA)".into(), s);
        let mut s = h.clone();
        s.ans_records.insert(0, extra);
        push("record added in front (new RDATA)".into(), s);
        let mut s = h.clone();
        let dup = s.ans_records[0].clone();
        s.ans_records.push(dup);
        push("record added (duplicate of record 0)".into(), s);
        let mut s = h.clone();
        s.ans_records.pop();
        push("last record removed".into(), s);
        if h.ans_records.len() > 1 {
            let mut s = h.clone();
            s.ans_records.remove(0);
            push("first record removed".into(), s);
            let mut s = h.clone();
            s.ans_records.reverse();
            push("records reordered".into(), s);
        }
        let mut s = h.clone();
        s.ans_sigs.clear();
        push("RRSIG removed".into(), s);
    }

    // RRSIG fields: re-made (validly signed over the changed field) and raw (stale signature)
    let honest_spec = b.ans_spec(w);
    let n_labels = owner.num_labels();
    let mut remade = |desc: String, spec: SigSpec, key: &ZoneKey| {
        let mut s = h.clone();
        s.ans_sigs = vec![make_sig(&b.records, key, &spec)];
        out.push(b.single("field", format!("RRSIG re-made: {desc}"), now, &s));
    };
    for t in [RecordType::AAAA, RecordType::TXT, RecordType::A] {
        if t != b.qtype {
            // hickory's signer would sign an empty record list here (it filters by type covered), so
            // this one is made over the reference signed data
            remade(format!("type covered -> {t}"), SigSpec { type_covered: Some(t), reference_tbs: true, ..honest_spec.clone() }, &signer_key);
        }
    }
    for l in 0..=n_labels + 1 {
        if l != b.labels {
            remade(format!("labels -> {l} (owner has {n_labels})"), SigSpec { labels: Some(l), reference_tbs: l > n_labels, ..honest_spec.clone() }, &signer_key);
        }
    }
    for ot in [TTL - 1, TTL + 1, 0, 10] {
        remade(format!("original TTL -> {ot}"), SigSpec { original_ttl: Some(ot), ..honest_spec.clone() }, &signer_key);
    }
    {
        let tag = signer_key.tag();
        remade("key tag -> tag+1".into(), SigSpec { key_tag: Some(tag.wrapping_add(1)), ..honest_spec.clone() }, &signer_key);
        remade("key tag -> tag^0x8000".into(), SigSpec { key_tag: Some(tag ^ 0x8000), ..honest_spec.clone() }, &signer_key);
        if let Some(other) = b.keys.iter().find(|k| k.tag() != tag) {
            remade("key tag -> tag of another key of the set".into(), SigSpec { key_tag: Some(other.tag()), ..honest_spec.clone() }, &signer_key);
        }
        // the Algorithm field set to every other supported algorithm (signature made with the real key)
        for other_alg in algs() {
            if other_alg != signer_key.mat.alg {
                remade(format!("algorithm field -> {other_alg:?}"), SigSpec { algorithm: Some(other_alg), ..honest_spec.clone() }, &signer_key);
            }
        }
    }
    // signer names, signed by the zone's own key
    let mut signer_alts: Vec<(&str, Name)> = vec![("child", owner.clone()), ("sibling-zone", vsec::n("e.")), ("unrelated", vsec::n("nokeys."))];
    if !b.zone.is_root() {
        signer_alts.push(("parent", b.zone.base_name()));
        signer_alts.push(("case-variant", Name::from_ascii(b.zone.to_ascii().to_uppercase()).unwrap()));
    }
    for (what, alt) in &signer_alts {
        remade(format!("signer name -> {what} {alt} (made with the zone's key)"), SigSpec { signer: Some(alt.clone()), ..honest_spec.clone() }, &signer_key);
    }
    // made with other keys
    for (i, k) in b.keys.iter().enumerate() {
        if i != b.ans_signer {
            remade(format!("made with key #{i} of the DNSKEY set (flags {})", k.flags), honest_spec.clone(), k);
        }
    }
    remade("made with an attacker key that is in no DNSKEY set".into(), honest_spec.clone(), &ZoneKey::new(keys::ED[9], &b.zone, F_ZSK));
    remade("made with the sibling zone's key, signer e. (judged under C07)".into(), SigSpec { signer: Some(vsec::n("e.")), ..honest_spec.clone() }, &b.sibling);
    remade("made with the sibling zone's key, signer claims the zone".into(), honest_spec.clone(), &ZoneKey::new(b.sibling.mat, &b.zone, F_KSK));
    drop(remade);

    // the signing key presented with other flags (DNSKEY set re-signed, RRSIG re-made with the new tag)
    for (what, flags) in [("no ZONE flag (0x0001)", F_NOZONE), ("no flags (0x0000)", 0), ("REVOKE (0x0181)", F_REVOKED), ("REVOKE (0x0180)", 0x0180), ("reserved bit 0x8100", 0x8100), ("SEP toggled", signer_key.flags ^ 1)] {
        let mut keyset = b.keys.clone();
        keyset[b.ans_signer].flags = flags;
        let mut s = h.clone();
        s.dnskeys = b.dnskey_records(&keyset);
        // DNSKEY RRset signed by the (possibly re-flagged) signers
        s.dnskey_sigs = b.dk_signers.iter().map(|i| make_sig(&s.dnskeys, &keyset[*i], &SigSpec::window(w.0, w.1))).collect();
        s.ans_sigs = vec![make_sig(&b.records, &keyset[b.ans_signer], &honest_spec)];
        out.push(b.single("field", format!("signing key presented with {what}; DNSKEY set and RRSIG re-made"), now, &s));
    }
    // the key that signs the DNSKEY RRset (KSK) and a sibling key presented with other flags; DNSKEY
    // RRset re-made with the re-flagged keys (tags follow the flags)
    if b.keys.len() > 1 {
        for (who, idx) in [("DNSKEY-signing key", b.dk_signers[0]), ("uninvolved sibling key", (0..b.keys.len()).find(|i| *i != b.ans_signer && !b.dk_signers.contains(i)).unwrap_or(usize::MAX))] {
            if idx == usize::MAX {
                continue;
            }
            for (what, flags) in [("REVOKE (0x0181)", F_REVOKED), ("REVOKE without SEP (0x0180)", 0x0180u16), ("no ZONE flag (0x0001)", F_NOZONE), ("no flags", 0)] {
                let mut keyset = b.keys.clone();
                keyset[idx].flags = flags;
                let mut s = h.clone();
                s.dnskeys = b.dnskey_records(&keyset);
                s.dnskey_sigs = b.dk_signers.iter().map(|i| make_sig(&s.dnskeys, &keyset[*i], &SigSpec::window(w.0, w.1))).collect();
                out.push(b.single("field", format!("{who} presented with {what}; DNSKEY RRset re-made and re-signed"), now, &s));
            }
        }
    }
    // attacker key injected into the DNSKEY set
    {
        let atk = ZoneKey::new(keys::ED[9], &b.zone, F_ZSK);
        let mut s = h.clone();
        s.dnskeys.push(sign::dnskey_record(&b.zone, TTL, atk.dnskey()));
        s.ans_sigs = vec![make_sig(&b.records, &atk, &honest_spec)];
        out.push(b.single("field", "attacker DNSKEY injected (DNSKEY RRSIG untouched), RRSIG made with it".into(), now, &s));
        let mut s2 = s.clone();
        s2.dnskey_sigs = vec![make_sig(&s2.dnskeys, &atk, &SigSpec::window(w.0, w.1))];
        out.push(b.single("field", "attacker DNSKEY injected and DNSKEY set signed by the attacker key, RRSIG made with it".into(), now, &s2));
        let mut s3 = h.clone();
        s3.dnskeys = vec![sign::dnskey_record(&b.zone, TTL, atk.dnskey())];
        s3.dnskey_sigs = vec![make_sig(&s3.dnskeys, &atk, &SigSpec::window(w.0, w.1))];
        s3.ans_sigs = vec![make_sig(&b.records, &atk, &honest_spec)];
        out.push(b.single("field", "DNSKEY set replaced by a self-signed attacker set, RRSIG made with it".into(), now, &s3));
    }

    // raw edits of the RRSIG fields (signature left as it was)
    let raw = |desc: String, f: &dyn Fn(&mut hickory_proto::dnssec::rdata::SigInput)| {
        let mut s = h.clone();
        s.ans_sigs = vec![raw_edit(&h.ans_sigs[0], |i| f(i))];
        b.single("field", format!("RRSIG field edited in place: {desc}"), now, &s)
    };
    out.push(raw("type covered -> AAAA".into(), &|i| i.type_covered = RecordType::AAAA));
    out.push(raw("labels+1".into(), &|i| i.num_labels += 1));
    if b.labels > 0 {
        out.push(raw("labels-1".into(), &|i| i.num_labels -= 1));
    }
    out.push(raw("original TTL+1".into(), &|i| i.original_ttl += 1));
    out.push(raw("original TTL-1".into(), &|i| i.original_ttl -= 1));
    out.push(raw("expiration+1".into(), &|i| i.sig_expiration = SerialNumber::new(i.sig_expiration.get().wrapping_add(1))));
    out.push(raw("inception-1".into(), &|i| i.sig_inception = SerialNumber::new(i.sig_inception.get().wrapping_sub(1))));
    out.push(raw("key tag+1".into(), &|i| i.key_tag = i.key_tag.wrapping_add(1)));
    out.push(raw("signer -> e.".into(), &|i| i.signer_name = vsec::n("e.")));
    if !b.zone.is_root() {
        out.push(raw("signer -> case variant".into(), &|i| i.signer_name = Name::from_ascii(i.signer_name.to_ascii().to_uppercase()).unwrap()));
    }

    // DNSKEY response edits, answer untouched
    for flags in [0u16, F_NOZONE, 0x0180, F_REVOKED, F_ZSK, F_KSK, 0x8100] {
        if flags == signer_key.flags {
            continue;
        }
        let mut keyset = b.keys.clone();
        keyset[b.ans_signer].flags = flags;
        let mut s = h.clone();
        s.dnskeys = b.dnskey_records(&keyset);
        out.push(b.single("field", format!("DNSKEY flags of the signing key -> {flags:#06x} in place"), now, &s));
        let mut s2 = s.clone();
        s2.dnskey_sigs = b.dk_signers.iter().map(|i| make_sig(&s2.dnskeys, &keyset[*i], &SigSpec::window(w.0, w.1))).collect();
        out.push(b.single("field", format!("DNSKEY flags of the signing key -> {flags:#06x}, DNSKEY set re-signed"), now, &s2));
    }
    {
        let mut s = h.clone();
        s.dnskey_sigs.clear();
        out.push(b.single("field", "DNSKEY RRSIG removed".into(), now, &s));
        let mut s = h.clone();
        s.dnskeys.remove(b.ans_signer);
        out.push(b.single("field", "signing key removed from the DNSKEY set in place".into(), now, &s));
        if b.keys.len() > 1 {
            let mut s2 = s.clone();
            b.resign_dnskeys(&mut s2, w);
            out.push(b.single("field", "signing key removed from the DNSKEY set, set re-signed".into(), now, &s2));
        }
        for (what, alt) in [("sibling", vsec::n("e.")), ("other", vsec::n("y."))] {
            let mut s = h.clone();
            s.dnskeys.iter_mut().chain(s.dnskey_sigs.iter_mut()).for_each(|r| r.name = alt.clone());
            out.push(b.single("field", format!("owner of DNSKEY records and their RRSIG -> {what} {alt}"), now, &s));
            let mut s = h.clone();
            s.dnskeys.iter_mut().for_each(|r| r.name = alt.clone());
            out.push(b.single("field", format!("owner of DNSKEY records -> {what} {alt}"), now, &s));
        }
        for ttl in [0u32, 1, u32::MAX] {
            let mut s = h.clone();
            s.dnskeys.iter_mut().chain(s.dnskey_sigs.iter_mut()).for_each(|r| r.ttl = ttl);
            out.push(b.single("field", format!("received TTL of the DNSKEY RRset -> {ttl}"), now, &s));
        }
        // a second, broken RRSIG next to the good one (both orders) — semantically neutral
        let broken = raw_edit(&h.ans_sigs[0], |i| i.key_tag = i.key_tag.wrapping_add(1));
        let mut s = h.clone();
        s.ans_sigs.insert(0, broken.clone());
        out.push(b.single("field", "a broken RRSIG added before the good one".into(), now, &s));
        let mut s = h.clone();
        s.ans_sigs.push(broken);
        out.push(b.single("field", "a broken RRSIG added after the good one".into(), now, &s));
    }
    out
}

// ------------------------------------------------------------------------------------------
// F2b: injection family — ONE extra record next to the signed RRset, at every position of the
// answer section, differing from a genuine record of the RRset in exactly one of {RDATA, class,
// TTL, owner case, owner}, and the pairs class + new RDATA

fn new_rdata(b: &Base) -> RData {
    if let Some(f) = b.forged.first() {
        return f.clone();
    }
    match b.qtype {
        RecordType::A => RData::A(A::new(6, 6, 6, 6)),
        RecordType::TXT => RData::TXT(TXT::new(vec!["evil".into()])),
        RecordType::MX => RData::MX(MX::new(1, vsec::n("evil.e."))),
        RecordType::NS => RData::NS(NS(vsec::n("evil.e."))),
        _ => RData::CNAME(CNAME(vsec::n("evil.e."))),
    }
}

pub fn injections(b: &Base) -> Vec<Scenario> {
    let now = T0;
    let w = wide(now);
    let h = b.honest(w, w);
    let g = b.records[0].clone();
    let classes: [(&str, DNSClass); 5] = [("CH", DNSClass::CH), ("HS", DNSClass::HS), ("NONE", DNSClass::NONE), ("ANY", DNSClass::ANY), ("0x00fe", DNSClass::Unknown(0x00fe))];
    let mut variants: Vec<(String, Record)> = vec![];
    {
        let mut r = g.clone();
        r.data = new_rdata(b);
        variants.push(("new RDATA".into(), r));
        let mut r = g.clone();
        r.ttl = g.ttl + 1;
        variants.push(("copy with TTL+1".into(), r));
        let mut r = g.clone();
        r.name = Name::from_ascii(g.name.to_ascii().to_uppercase()).unwrap();
        variants.push(("copy with owner in upper case".into(), r));
        let mut r = g.clone();
        r.name = first_label_replaced(&g.name, "wwx");
        variants.push(("copy at a sibling owner".into(), r));
        for (cn, c) in classes {
            let mut r = g.clone();
            r.dns_class = c;
            variants.push((format!("exact copy except class {cn}"), r));
            let mut r = g.clone();
            r.dns_class = c;
            r.data = new_rdata(b);
            variants.push((format!("class {cn} and new RDATA"), r));
        }
    }
    let positions = h.ans_records.len() + h.ans_sigs.len() + 1;
    let mut out = vec![];
    for (what, rec) in &variants {
        for pos in 0..positions {
            let mut s = h.clone();
            s.inject = Some((pos, rec.clone()));
            out.push(b.single("inject", format!("one record injected at answer position {pos}: {what}"), now, &s));
        }
    }
    out
}

// ------------------------------------------------------------------------------------------
// F2d: the OWNER of the key record as a dimension of its own. The answer to the `<signer> DNSKEY`
// lookup carries the genuine DNSKEY RRset plus an EXTRA DNSKEY RRset under another owner whose
// records are themselves Secure (self-signed, key = trust anchor); the RRSIG over the answer is
// made with the key of that extra record. owner x key material x RRSIG signer field x key tag.

pub fn key_owners(b: &Base) -> Vec<Scenario> {
    use hickory_proto::dnssec::PublicKey;
    let now = T0;
    let w = wide(now);
    let h = b.honest(w, w);
    let zone = b.zone.clone();
    let genuine = b.keys[b.ans_signer].clone();
    let other = keys::ED[9];
    let mut owners: Vec<(&str, Name)> = vec![
        ("the signer zone itself (genuine owner)", zone.clone()),
        ("a strict descendant", child(&zone, "c")),
        ("a deeper descendant", child(&child(&zone, "c"), "d")),
        ("a sibling / unrelated name", vsec::n("y.")),
    ];
    if !zone.is_root() {
        owners.push(("a strict ancestor", zone.base_name()));
        owners.push(("the same labels in other case", Name::from_ascii(zone.to_ascii().to_uppercase()).unwrap()));
    }
    let mut out = vec![];
    for (oname, owner) in &owners {
        for (kname, mat) in [("the genuine zone key", genuine.mat), ("another (trusted) key", other)] {
            // the key record as presented: material `mat` under owner `owner`
            let presented = ZoneKey::new(mat, owner, genuine.flags);
            if *owner == zone && mat == genuine.mat {
                continue; // that is the honest case
            }
            let mut signers: Vec<(&str, Name)> = vec![("the zone", zone.clone()), ("the key record's owner", owner.clone())];
            if !zone.is_root() {
                signers.push(("an ancestor of the zone", zone.base_name()));
            }
            signers.dedup_by(|a, c| a.1 == c.1);
            for (sname, signer) in &signers {
                for tag_ok in [true, false] {
                    let mut s = h.clone();
                    // the extra DNSKEY RRset, self-signed under its own owner
                    let extra = sign::dnskey_record(owner, TTL, presented.dnskey());
                    let extra_sig = make_sig(&[extra.clone()], &presented, &SigSpec::window(w.0, w.1));
                    if *owner != zone {
                        s.dnskeys.push(extra);
                        s.dnskey_sigs.push(extra_sig);
                    } else {
                        // same owner: the key joins the zone's own RRset, which the zone key re-signs
                        s.dnskeys.push(extra);
                        b.resign_dnskeys(&mut s, w);
                    }
                    let tag = if tag_ok { presented.tag() } else { presented.tag().wrapping_add(1) };
                    s.ans_sigs = vec![make_sig(&b.records, &presented, &SigSpec { signer: Some(signer.clone()), key_tag: Some(tag), ..b.ans_spec(w) })];
                    let mut sc = b.single(
                        "keyowner",
                        format!("key record owned by {oname} ({owner}) holding {kname}; RRSIG made with it, signer field = {sname} ({signer}), key tag {}", if tag_ok { "matching" } else { "off by one" }),
                        now,
                        &s,
                    );
                    // the mixed DNSKEY answer is what the upstream serves for whatever signer the
                    // RRSIG names; the other key is a trust anchor so that its record is Secure
                    let mixed = sc.worlds[0][&key_of(&zone, RecordType::DNSKEY)].clone();
                    for n in [signer, owner] {
                        sc.worlds[0].entry(key_of(n, RecordType::DNSKEY)).or_insert_with(|| mixed.clone());
                    }
                    sc.anchors.push((u8::from(other.alg), other.public().public_bytes().to_vec()));
                    out.push(sc);
                }
            }
        }
    }
    out
}

// ------------------------------------------------------------------------------------------
// F2c: SEVERAL RRSIGs over the one RRset, every order

fn flip_sig(sig: &Record) -> Record {
    let s = rrsig_of(sig);
    let mut bytes = s.sig().to_vec();
    let last = bytes.len() - 1;
    bytes[last] ^= 1;
    let mut r = sig.clone();
    r.data = RData::DNSSEC(DNSSECRData::RRSIG(RRSIG::from_sig(s.input().clone(), bytes)));
    r
}

/// The RRSIG candidates: V valid, E expired (validly made), F not yet valid, T wrong key tag
/// (validly made over it), X broken signature, L valid but only 50 s left, K valid by another key
/// of the DNSKEY set (multi-key layouts), S made by the trusted sibling zone e.
pub fn sig_candidates(b: &Base, now: u64) -> Vec<(char, Record)> {
    let t = now as u32;
    let w = wide(now);
    let key = &b.keys[b.ans_signer];
    let mk = |win: Win| make_sig(&b.records, key, &b.ans_spec(win));
    let v = mk(w);
    let mut out = vec![
        ('V', v.clone()),
        ('E', mk((t - 2000, t - 1000))),
        ('F', mk((t + 1000, t + 2000))),
        ('T', make_sig(&b.records, key, &SigSpec { key_tag: Some(key.tag().wrapping_add(1)), ..b.ans_spec(w) })),
        ('X', flip_sig(&v)),
        ('L', mk((t - 1000, t + 50))),
        ('S', make_sig(&b.records, &b.sibling, &SigSpec { signer: Some(vsec::n("e.")), ..b.ans_spec(w) })),
    ];
    if let Some((_, k2)) = b.keys.iter().enumerate().find(|(i, k)| *i != b.ans_signer && k.flags & 0x0100 != 0) {
        out.push(('K', make_sig(&b.records, k2, &b.ans_spec(w))));
    }
    out
}

pub fn multi_sigs(b: &Base, thorough: bool, triples: bool) -> Vec<Scenario> {
    let now = T0;
    let w = wide(now);
    let h = b.honest(w, w);
    let cands = sig_candidates(b, now);
    let get = |c: char| cands.iter().find(|x| x.0 == c).map(|x| x.1.clone());
    let mut seqs: Vec<String> = vec![];
    // every ordered pair of distinct candidates
    for (a, _) in &cands {
        for (c, _) in &cands {
            if a != c {
                seqs.push(format!("{a}{c}"));
            }
        }
    }
    // every ordered triple over {V, E, T, X, L} (quick) / over all candidates (thorough)
    let tri: Vec<char> = if !triples { vec![] } else if thorough { cands.iter().map(|x| x.0).collect() } else { vec!['V', 'E', 'T', 'X', 'L'] };
    for a in &tri {
        for c in &tri {
            for d in &tri {
                if a != c && c != d && a != d {
                    seqs.push(format!("{a}{c}{d}"));
                }
            }
        }
    }
    // a valid RRSIG behind k broken ones (the validator looks at a bounded number of RRSIGs)
    for k in [7usize, 8, 9, 10] {
        seqs.push(format!("{}V", "X".repeat(k)));
        seqs.push(format!("{}L", "E".repeat(k)));
    }
    let mut out = vec![];
    for seq in seqs {
        let mut s = h.clone();
        s.ans_sigs = seq.chars().filter_map(|c| get(c)).enumerate().map(|(i, mut r)| {
            // repeated broken candidates must differ from one another (no exact duplicates)
            if seq.len() > 3 && i + 1 < seq.len() {
                let sg = rrsig_of(&r);
                let mut bytes = sg.sig().to_vec();
                bytes[0] ^= i as u8;
                r.data = RData::DNSSEC(DNSSECRData::RRSIG(RRSIG::from_sig(sg.input().clone(), bytes)));
            }
            r
        }).collect();
        out.push(b.single("multisig", format!("RRSIGs served in this order: {seq} (V valid, E expired, F future, T wrong key tag, X broken, L 50 s left, K other key, S sibling zone)"), now, &s));
        let mut s2 = s.clone();
        s2.sigs_first = true;
        out.push(b.single("multisig", format!("RRSIGs {seq}, served before the records"), now, &s2));
    }
    out
}

// ------------------------------------------------------------------------------------------
// F2e: MULTISET mutations of the answer section: forged records added k times, genuine records
// duplicated / removed / replaced, two different forged records, RRSIGs duplicated / replaced /
// removed, every order of the records, the RRset copied under another owner / class. Cold these
// are one more content family; their point is the WARM presentation (WarmBlock below).

fn new_rdata2(b: &Base) -> RData {
    if let Some(f) = b.forged.get(1) {
        return f.clone();
    }
    match b.qtype {
        RecordType::A => RData::A(A::new(7, 7, 7, 7)),
        RecordType::TXT => RData::TXT(TXT::new(vec!["evil-too".into()])),
        RecordType::MX => RData::MX(MX::new(2, vsec::n("evil2.e."))),
        RecordType::NS => RData::NS(NS(vsec::n("evil2.e."))),
        _ => RData::CNAME(CNAME(vsec::n("evil2.e."))),
    }
}

fn permutations(n: usize) -> Vec<Vec<usize>> {
    fn rec(cur: &mut Vec<usize>, used: &mut Vec<bool>, out: &mut Vec<Vec<usize>>) {
        if cur.len() == used.len() {
            out.push(cur.clone());
            return;
        }
        for i in 0..used.len() {
            if !used[i] {
                used[i] = true;
                cur.push(i);
                rec(cur, used, out);
                cur.pop();
                used[i] = false;
            }
        }
    }
    let mut out = vec![];
    rec(&mut vec![], &mut vec![false; n], &mut out);
    out
}

/// (description, complete answer section) of every multiset mutation of the honest answer
pub fn multiset_sections(b: &Base, h: &WorldSpec, now: u64) -> Vec<(String, Vec<Record>)> {
    let g = h.ans_records.clone();
    let n = g.len();
    let s = h.ans_sigs[0].clone();
    let x = {
        let mut r = g[0].clone();
        r.data = new_rdata(b);
        r
    };
    let y = {
        let mut r = g[0].clone();
        r.data = new_rdata2(b);
        r
    };
    // the first genuine record in class CH: same owner, type and RDATA, another class
    let c = {
        let mut r = g[0].clone();
        r.dns_class = DNSClass::CH;
        r
    };
    let honest: Vec<Record> = g.iter().cloned().chain([s.clone()]).collect();
    let mut out: Vec<(String, Vec<Record>)> = vec![];
    let rep = |r: &Record, k: usize| -> Vec<Record> { std::iter::repeat(r.clone()).take(k).collect() };
    let with_at = |base: &[Record], pos: usize, add: Vec<Record>| -> Vec<Record> {
        let mut v = base.to_vec();
        let p = pos.min(v.len());
        v.splice(p..p, add);
        v
    };
    // (a) a forged record k times, the copies side by side at every position
    for (fname, f) in [("forged record X (new RDATA)", &x), ("class-CH twin C of the first genuine record", &c)] {
        for k in 1..=4usize {
            for pos in 0..=n + 1 {
                out.push((format!("{fname} added {k} time(s) at position {pos}"), with_at(&honest, pos, rep(f, k))));
            }
        }
        // (b) the copies apart from one another
        let mut v = with_at(&honest, 0, rep(f, 1));
        v.push(f.clone());
        out.push((format!("{fname} added twice: in front and at the end"), v));
        let mut v = with_at(&honest, 0, rep(f, 2));
        v.extend(rep(f, 2));
        out.push((format!("{fname} added four times: two in front, two at the end"), v));
        let mut v = with_at(&honest, 1, rep(f, 1));
        v.push(f.clone());
        out.push((format!("{fname} added twice: behind the first record and at the end"), v));
    }
    // (c) a genuine record duplicated
    for i in 0..n {
        for k in 1..=3usize {
            out.push((format!("genuine record {i} duplicated: {k} extra copies next to it"), with_at(&honest, i + 1, rep(&g[i], k))));
        }
        let mut v = honest.clone();
        v.push(g[i].clone());
        out.push((format!("genuine record {i} duplicated: one extra copy behind the RRSIG"), v));
    }
    let mut v = vec![];
    for r in &g {
        v.extend(rep(r, 2));
    }
    v.push(s.clone());
    out.push(("every genuine record twice".into(), v));
    // (d) a genuine record removed / (e) replaced
    for i in 0..n {
        let mut v = honest.clone();
        v.remove(i);
        out.push((format!("genuine record {i} removed"), v.clone()));
        for (what, add) in [
            ("X", rep(&x, 1)),
            ("X X", rep(&x, 2)),
            ("X X X X", rep(&x, 4)),
            ("X Y", vec![x.clone(), y.clone()]),
            ("X X Y Y", vec![x.clone(), x.clone(), y.clone(), y.clone()]),
            ("its class-CH twin", rep(&{ let mut r = g[i].clone(); r.dns_class = DNSClass::CH; r }, 1)),
            ("its class-CH twin twice", rep(&{ let mut r = g[i].clone(); r.dns_class = DNSClass::CH; r }, 2)),
        ] {
            out.push((format!("genuine record {i} replaced by {what}"), with_at(&v, i, add)));
        }
    }
    // (f) two different forged records
    for (what, add) in [
        ("X Y", vec![x.clone(), y.clone()]),
        ("X X Y", vec![x.clone(), x.clone(), y.clone()]),
        ("X X Y Y", vec![x.clone(), x.clone(), y.clone(), y.clone()]),
        ("X Y X Y", vec![x.clone(), y.clone(), x.clone(), y.clone()]),
        ("X Y Y X", vec![x.clone(), y.clone(), y.clone(), x.clone()]),
    ] {
        for pos in [0, n, n + 1] {
            out.push((format!("forged records {what} added at position {pos}"), with_at(&honest, pos, add.clone())));
        }
    }
    // (g) every genuine record replaced
    for (what, add) in [("X", rep(&x, 1)), ("X X", rep(&x, 2)), ("X X Y Y", vec![x.clone(), x.clone(), y.clone(), y.clone()]), ("X Y", vec![x.clone(), y.clone()])] {
        let mut v = add.clone();
        v.push(s.clone());
        out.push((format!("all genuine records replaced by {what}"), v));
    }
    // (h) the RRSIG duplicated / removed / replaced
    let cands = sig_candidates(b, now);
    let get = |ch: char| cands.iter().find(|c| c.0 == ch).map(|c| c.1.clone());
    for k in 1..=3usize {
        out.push((format!("RRSIG duplicated: {k} extra copies"), with_at(&honest, n + 1, rep(&s, k))));
    }
    out.push(("RRSIG duplicated: one copy in front of the records".into(), with_at(&honest, 0, rep(&s, 1))));
    out.push(("RRSIG removed".into(), g.clone()));
    out.push(("RRSIG removed, X X added".into(), with_at(&g, n, rep(&x, 2))));
    out.push(("RRSIG twice and X twice".into(), with_at(&with_at(&honest, n + 1, rep(&s, 1)), n, rep(&x, 2))));
    out.push(("X between two copies of the RRSIG, X at the end".into(), { let mut v = with_at(&honest, n + 1, vec![x.clone(), s.clone()]); v.push(x.clone()); v }));
    for (ch, what) in [('E', "an expired one"), ('F', "a not yet valid one"), ('X', "a broken one"), ('S', "one made by the sibling zone"), ('K', "one made by another key of the zone"), ('T', "one with another key tag")] {
        let Some(o) = get(ch) else { continue };
        out.push((format!("RRSIG replaced by {what}"), g.iter().cloned().chain([o.clone()]).collect()));
        out.push((format!("{what} in front of the RRSIG"), with_at(&honest, n, vec![o.clone()])));
        out.push((format!("{what} behind the RRSIG"), with_at(&honest, n + 1, vec![o.clone()])));
        out.push((format!("RRSIG replaced by {what}, X X added"), g.iter().cloned().chain(rep(&x, 2)).chain([o.clone()]).collect()));
    }
    // (i) every order of the records x RRSIG in front / in the middle / at the end
    if n <= 3 {
        for perm in permutations(n) {
            let recs: Vec<Record> = perm.iter().map(|i| g[*i].clone()).collect();
            for spos in (0..=n).rev() {
                if perm.iter().enumerate().all(|(a, b)| a == *b) && spos == n {
                    continue;
                }
                out.push((format!("records in order {perm:?}, RRSIG at position {spos}"), with_at(&recs, spos, vec![s.clone()])));
            }
        }
    }
    // (j) the signed RRset once more under another owner / class (two RRsets in one response)
    let other = first_label_replaced(&g[0].name, "wwx");
    let reowned = |name: &Name, class: DNSClass, with_sig: bool| -> Vec<Record> {
        let mut v: Vec<Record> = g.iter().cloned().collect();
        if with_sig {
            v.push(s.clone());
        }
        for r in v.iter_mut() {
            r.name = name.clone();
            r.dns_class = class;
        }
        v
    };
    for (what, add) in [
        ("a copy of records + RRSIG under a sibling owner", reowned(&other, DNSClass::IN, true)),
        ("a copy of the records under a sibling owner, no RRSIG", reowned(&other, DNSClass::IN, false)),
        ("a copy of records + RRSIG in class CH", reowned(&g[0].name, DNSClass::CH, true)),
        ("a copy of records + RRSIG under a sibling owner in class CH", reowned(&other, DNSClass::CH, true)),
    ] {
        out.push((format!("{what}, behind the answer"), with_at(&honest, n + 1, add.clone())));
        out.push((format!("{what}, in front of the answer"), with_at(&honest, 0, add.clone())));
    }
    out.push(("records + RRSIG ONLY under a sibling owner".into(), reowned(&other, DNSClass::IN, true)));
    out.push(("records + RRSIG ONLY in class CH".into(), reowned(&g[0].name, DNSClass::CH, true)));
    // (k) received TTLs (the validation-cache key leaves TTLs out)
    for ttl in [0u32, 50, TTL + 1, 3000] {
        let mut v = honest.clone();
        v.iter_mut().for_each(|r| r.ttl = ttl);
        out.push((format!("every received TTL {ttl}"), v));
        let mut v = honest.clone();
        v[0].ttl = ttl;
        out.push((format!("received TTL of the first record {ttl}"), v));
    }
    out
}

pub fn multisets(b: &Base) -> Vec<Scenario> {
    let now = T0;
    let w = wide(now);
    let h = b.honest(w, w);
    multiset_sections(b, &h, now)
        .into_iter()
        .map(|(what, an)| {
            let mut s = h.clone();
            s.answer_section = Some(an);
            b.single("multiset", what, now, &s)
        })
        .collect()
}

/// The honest world and the honest world with every genuine record served twice (RFC 2181 5:
/// duplicates are suppressed) - the two warm-ups of the warm family.
pub fn warmups(b: &Base, now: u64) -> Vec<(&'static str, Table)> {
    let w = wide(now);
    let h = b.honest(w, w);
    let mut dup = h.clone();
    let mut an = vec![];
    for r in &h.ans_records {
        an.push(r.clone());
        an.push(r.clone());
    }
    an.extend(h.ans_sigs.iter().cloned());
    dup.answer_section = Some(an);
    vec![("honest", b.assemble(&h, now)), ("honest-every-record-twice", b.assemble(&dup, now))]
}

// ------------------------------------------------------------------------------------------
// F5: WARM presentations. Every content mutation P of the cold families (one world, one validate)
// is presented again to a handle that has validated the honest world before (and in further
// orders), optionally under a handle configuration. Addressed lazily.

#[derive(Clone, Copy, PartialEq, Eq, Debug)]
pub enum WarmShape {
    /// honest ; P
    HP,
    /// honest with every record twice ; P
    DP,
    /// P ; honest ; P
    PHP,
    /// honest ; P ; P
    HPP,
    /// honest ; P ; honest
    HPH,
    /// honest via the handle, P via a clone of the handle
    HPclone,
}

pub struct WarmBlock {
    pub base: Base,
    pub cold: Arc<Vec<Scenario>>,
    pub warm: Vec<(&'static str, Table)>,
    pub shapes: Vec<WarmShape>,
    pub cfgs: Vec<crate::scen::HandleCfg>,
}

impl WarmBlock {
    pub fn new(b: &Base, cold: Arc<Vec<Scenario>>, shapes: Vec<WarmShape>, cfgs: Vec<crate::scen::HandleCfg>) -> Self {
        WarmBlock { base: b.clone(), cold, warm: warmups(b, T0), shapes, cfgs }
    }
    pub fn count(&self) -> u64 {
        (self.cold.len() * self.shapes.len() * self.cfgs.len()) as u64
    }
    pub fn scenario(&self, i: u64) -> Scenario {
        let i = i as usize;
        let c = &self.cold[i % self.cold.len()];
        let rest = i / self.cold.len();
        let shape = self.shapes[rest % self.shapes.len()];
        let cfg = &self.cfgs[rest / self.shapes.len()];
        assert!(c.worlds.len() == 1 && c.t0 == T0, "warm family: cold scenario with one world at T0 expected");
        let p = c.worlds[0].clone();
        let v = |world: usize| Step::Validate { world, clone: false };
        // world 0 = warm-up, world 1 = P
        let (warm, steps, how) = match shape {
            WarmShape::HP => (0, vec![v(0), v(1)], "honest ; P"),
            WarmShape::DP => (1, vec![v(0), v(1)], "honest with every record twice ; P"),
            WarmShape::PHP => (0, vec![v(1), v(0), v(1)], "P ; honest ; P"),
            WarmShape::HPP => (0, vec![v(0), v(1), v(1)], "honest ; P ; P"),
            WarmShape::HPH => (0, vec![v(0), v(1), v(0)], "honest ; P ; honest"),
            WarmShape::HPclone => (0, vec![v(0), Step::Validate { world: 1, clone: true }], "honest ; P via a clone of the handle"),
        };
        let what = c.desc.splitn(2, ": ").nth(1).unwrap_or(&c.desc);
        let fam = c.family;
        let mut sc = self.base.scenario("warm", format!("[{how}; handle {}] P = {fam}: {what}", cfg.tag()), T0, vec![self.warm[warm].1.clone(), p], steps);
        sc.cfg = cfg.clone();
        // (the key-owner family adds a trust anchor of its own)
        sc.anchors = c.anchors.clone();
        sc.query = c.query.clone();
        sc
    }
}

// ------------------------------------------------------------------------------------------
// F3: clock grid

pub fn clock_grid(b: &Base, thorough: bool) -> Vec<Scenario> {
    let mut out = vec![];
    // (inception, expiration) windows: plain, straddling the u32 wrap, ending right before the wrap,
    // starting right after it, and the RFC 1982 edge lengths
    let mut wins: Vec<(&str, Win)> = vec![
        ("plain", (T0 as u32, T0 as u32 + 100)),
        ("straddles-wrap", (0xffff_ff00, 0x0000_0100)),
        ("ends-before-wrap", (0xffff_fe00, 0xffff_fffe)),
        ("starts-after-wrap", (0x0000_0001, 0x0000_0200)),
    ];
    for (what, len) in [("len0", 0u32), ("len1", 1), ("len2^31-1", 0x7fff_ffff), ("len2^31", 0x8000_0000), ("len2^31+1", 0x8000_0001)] {
        wins.push((what, (T0 as u32, (T0 as u32).wrapping_add(len))));
        if thorough {
            wins.push((what, (0xffff_fff0, 0xffff_fff0u32.wrapping_add(len))));
        }
    }
    for (wname, win) in wins {
        let mut nows: Vec<u32> = vec![];
        for d in -2i64..=2 {
            nows.push((win.0 as i64 + d) as u32);
            nows.push((win.1 as i64 + d) as u32);
        }
        nows.push(win.0.wrapping_add(win.1.wrapping_sub(win.0) / 2));
        nows.push(win.0.wrapping_add(0x8000_0000));
        nows.push(win.1.wrapping_add(0x8000_0000));
        nows.push(win.1.wrapping_add(0x7fff_ffff));
        // instants at which the remaining signature life is just below / at / above the record TTL
        // (the TTL cap bites or not), counted back from the expiration in serial arithmetic: for a
        // window that straddles the wrap these lie BEFORE the wrap while the expiration lies after
        // it, so `expiration - now` underflows as plain integers (seed C06-7)
        for d in [1, TTL / 2, TTL - 1, TTL, TTL + 1] {
            nows.push(win.1.wrapping_sub(d));
        }
        nows.sort();
        nows.dedup();
        for now in nows {
            // virtual unix time: the validator truncates to u32, so add one 2^32 period
            let unix = (1u64 << 32) + now as u64;
            let wd = wide(unix);
            // (a) the answer's RRSIG carries the window, the DNSKEY RRSIG is valid throughout
            let s = b.honest(win, wd);
            out.push(b.single("clock", format!("answer RRSIG window {wname} [{:#x},{:#x}] now={now:#x}", win.0, win.1), unix, &s));
            // (b) the DNSKEY RRSIG carries the window, the answer's RRSIG is valid throughout
            let s = b.honest(wd, win);
            out.push(b.single("clock", format!("DNSKEY RRSIG window {wname} [{:#x},{:#x}] now={now:#x}", win.0, win.1), unix, &s));
        }
    }
    out
}

/// The handle configurations of the history family: TTL bounds of the validation cache below,
/// around and above the signature lifetimes used in the histories (100 s and 1000 s), degenerate
/// ranges, and a tiny cache.
pub fn handle_configs() -> Vec<crate::scen::HandleCfg> {
    use crate::scen::HandleCfg;
    let ranges: [(u64, u64); 5] = [(0, 0), (5, 10), (200, 400), (0, 1), (1000, 1000)];
    let mut v = vec![];
    for r in ranges {
        v.push(HandleCfg { positive: Some(r), ..Default::default() });
        v.push(HandleCfg { negative: Some(r), ..Default::default() });
    }
    v.push(HandleCfg { positive: Some((200, 400)), negative: Some((200, 400)), cache_size: None });
    v.push(HandleCfg { positive: Some((1000, 1000)), negative: Some((5, 10)), cache_size: Some(1) });
    v.push(HandleCfg { cache_size: Some(1), ..Default::default() });
    v
}

// ------------------------------------------------------------------------------------------
// F4: histories on one shared handle (validation cache)

pub struct HistoryBlock {
    pub base: Base,
    pub worlds: Vec<Table>,
    pub world_names: Vec<&'static str>,
    pub ops: Vec<Step>,
    pub depth: u32,
    pub config: &'static str,
    /// configuration of the handle under test
    pub cfg: crate::scen::HandleCfg,
}

impl HistoryBlock {
    /// `dk_narrow`: the DNSKEY RRSIG expires together with the answer's RRSIG (t0+100)
    pub fn new(b: &Base, depth: u32, dk_narrow: bool, forged_world: bool) -> Self {
        let t0 = T0 as u32;
        let win = (t0 - 10, t0 + 100);
        let long = (t0 - 10, t0 + 1000);
        let dk = if dk_narrow { win } else { wide(T0) };
        let h = b.honest(win, dk);
        let mut flipped = h.clone();
        {
            // same records, RRSIG with one signature bit flipped
            let s = rrsig_of(&h.ans_sigs[0]);
            let mut sig = s.sig().to_vec();
            sig[0] ^= 1;
            flipped.ans_sigs[0].data = RData::DNSSEC(DNSSECRData::RRSIG(RRSIG::from_sig(s.input().clone(), sig)));
        }
        let mut other_sig = h.clone();
        other_sig.ans_sigs = vec![make_sig(&b.records, &b.keys[b.ans_signer], &b.ans_spec(long))];
        let mut low_ttl = h.clone();
        low_ttl.ans_records.iter_mut().chain(low_ttl.ans_sigs.iter_mut()).for_each(|r| r.ttl = 50);
        // same RRSIG, a forged record served twice next to the genuine ones
        let mut forged_twice = h.clone();
        {
            let mut x = h.ans_records[0].clone();
            x.data = new_rdata(b);
            let mut an = h.ans_records.clone();
            an.push(x.clone());
            an.push(x);
            an.extend(h.ans_sigs.iter().cloned());
            forged_twice.answer_section = Some(an);
        }
        let worlds = vec![b.assemble(&h, T0), b.assemble(&flipped, T0), b.assemble(&other_sig, T0), b.assemble(&low_ttl, T0), b.assemble(&forged_twice, T0)];
        let world_names = vec!["honest", "signature-bit-flipped", "honest-with-longer-lived-RRSIG", "honest-received-ttl-50", "honest-plus-forged-record-twice"];
        let mut ops = vec![];
        for w in 0..worlds.len() - if forged_world { 0 } else { 1 } {
            ops.push(Step::Validate { world: w, clone: false });
        }
        ops.push(Step::Validate { world: 0, clone: true });
        ops.push(Step::Advance(1));
        for t in [99u64, 100, 101, 301, 1001] {
            ops.push(Step::JumpTo(t));
        }
        HistoryBlock { base: b.clone(), worlds, world_names, ops, depth, config: if dk_narrow { "dnskey-rrsig-expires-too" } else { "dnskey-rrsig-long" }, cfg: Default::default() }
    }
    pub fn with_cfg(mut self, cfg: crate::scen::HandleCfg) -> Self {
        self.cfg = cfg;
        self
    }
    pub fn count(&self) -> u64 {
        (self.ops.len() as u64).pow(self.depth)
    }
    pub fn scenario(&self, mut i: u64) -> Scenario {
        let k = self.ops.len() as u64;
        let mut steps = vec![];
        let mut desc = vec![];
        for _ in 0..self.depth {
            let op = self.ops[(i % k) as usize].clone();
            i /= k;
            desc.push(match &op {
                Step::Validate { world, clone } => format!("validate({}{})", self.world_names[*world], if *clone { ",clone" } else { "" }),
                Step::Advance(s) => format!("advance({s}s)"),
                Step::JumpTo(s) => format!("to(t0+{s})"),
            });
            steps.push(op);
        }
        // record TTL 300, signature window [t0-10, t0+100]
        let mut sc = self.base.scenario("history", format!("[{}; handle {}] {}", self.config, self.cfg.tag(), desc.join(" ; ")), T0, self.worlds.clone(), steps);
        sc.cfg = self.cfg.clone();
        sc
    }
}
