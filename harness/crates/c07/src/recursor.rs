//! The validating RECURSOR (`hickory_resolver::recursor::Recursor`, DnssecPolicy
//! ValidateWithStaticKey) over a simulated hierarchy: every zone is a real authoritative `Catalog`
//! reachable at its own address (198.51.100.(i+1)); the recursor iterates from the root through
//! real referrals. The fault script tampers with the authoritative responses, addressed by
//! (query name, query type) like everywhere else. Ground-truth oracle unchanged (`oracle::judge`).

use std::future::Future;
use std::net::IpAddr;
use std::pin::Pin;
use std::sync::{Arc, Mutex};
use std::time::Instant;

use futures_util::stream::{self, Stream};
use hickory_net::xfer::{DnsHandle, Protocol};
use hickory_net::NetError;
use hickory_proto::dnssec::TrustAnchors;
use hickory_proto::op::{DnsRequest, DnsResponse, Edns, Message, MessageType, OpCode, Query};
use hickory_proto::rr::{Name, RecordType};
use hickory_resolver::config::ConnectionConfig;
use hickory_resolver::recursor::{DnssecConfig, DnssecPolicy, Recursor, RecursorOptions};
use hickory_resolver::{ConnectionProvider, PoolContext};
use vcore::catch;
use vsec::hier::Tamper;
use vsec::upstream::{key_of, respond_bytes, Key};
use vsim::SimProvider;

use crate::faults::{Fault, Script};
use crate::hiers::{Hier, T0};
use crate::oracle::{view_record, Outcome, Run};

#[derive(Clone)]
pub struct RecNet {
    hier: Arc<Hier>,
    script: Arc<Script>,
    pub log: Arc<Mutex<Vec<Key>>>,
    rt: SimProvider,
}

#[derive(Clone)]
pub struct RecConn {
    net: RecNet,
    ip: IpAddr,
}

impl DnsHandle for RecConn {
    type Response = Pin<Box<dyn Stream<Item = Result<DnsResponse, NetError>> + Send>>;
    type Runtime = SimProvider;

    fn send(&self, request: DnsRequest) -> Self::Response {
        let Some(q) = request.queries.first().cloned() else {
            return Box::pin(stream::once(async { Err(NetError::from("no query")) }));
        };
        let this = self.clone();
        let id = request.id;
        let dnssec_ok = request.edns.as_ref().map(|e| e.flags().dnssec_ok).unwrap_or(false);
        Box::pin(stream::once(async move {
            this.net.log.lock().unwrap().push(key_of(&q.name, q.query_type));
            let zi = match this.ip {
                IpAddr::V4(v) if v.octets()[..3] == [198, 51, 100] => (v.octets()[3] as usize).wrapping_sub(1),
                _ => usize::MAX,
            };
            let Some(zone) = this.net.hier.h.zones.get(zi) else {
                return Err(NetError::from("no such server"));
            };
            // The in-memory authoritative code answers names at / below a zone cut from the parent's
            // own data (AA=1, no glue, no DS): a conforming referral (RFC 4035 3.1.4) is assembled
            // here from the zone's genuine published records instead.
            if let Some(referral) = referral(zone, &q, dnssec_ok) {
                if std::env::var("C07_REC_DEBUG").is_ok() {
                    eprintln!("   [{} <- {} {}] referral ns={:?} ar={:?}", this.ip, q.name, q.query_type, referral.authorities.iter().map(|r| format!("{} {}", r.name, r.record_type())).collect::<Vec<_>>(), referral.additionals.iter().map(|r| format!("{} {}", r.name, r.record_type())).collect::<Vec<_>>());
                }
                return respond_bytes(this.net.script.apply(&q, referral.to_vec().unwrap()), id);
            }
            // otherwise the authoritative answer of THAT server
            let mut m = Message::new(1, MessageType::Query, OpCode::Query);
            m.add_query(q.clone());
            let mut e = Edns::new();
            e.set_max_payload(4096);
            if dnssec_ok {
                e.enable_dnssec();
            }
            m.set_edns(e);
            let honest = match vsim::serve(&zone.catalog, &m.to_vec().unwrap(), Protocol::Tcp).await.and_then(|v| v.into_iter().next()) {
                Some(b) => b,
                None => return Err(NetError::from("no response")),
            };
            if std::env::var("C07_REC_DEBUG").is_ok() {
                if let Ok(m) = Message::from_vec(&honest) {
                    eprintln!("   [{} <- {} {}] rcode={:?} aa={} an={:?} ns={:?} ar={:?}", this.ip, q.name, q.query_type, m.metadata.response_code, m.metadata.authoritative,
                        m.answers.iter().map(|r| format!("{} {}", r.name, r.record_type())).collect::<Vec<_>>(),
                        m.authorities.iter().map(|r| format!("{} {}", r.name, r.record_type())).collect::<Vec<_>>(),
                        m.additionals.iter().map(|r| format!("{} {}", r.name, r.record_type())).collect::<Vec<_>>());
                }
            }
            respond_bytes(this.net.script.apply(&q, honest), id)
        }))
    }
}

/// The referral a conforming authoritative server of `zone` sends for `q`, if `q` lies at or below
/// one of its delegations: NS RRset (unsigned), DS RRset + RRSIG or the NSEC of the delegation
/// point + RRSIG (no DS), glue addresses.
fn referral(zone: &vsec::hier::Zone, q: &Query, dnssec_ok: bool) -> Option<Message> {
    use hickory_proto::dnssec::rdata::DNSSECRData;
    use hickory_proto::rr::RData;
    let cut = zone
        .published
        .iter()
        .filter(|r| r.record_type() == RecordType::NS && r.name != zone.origin && r.name.zone_of(&q.name))
        .map(|r| r.name.clone())
        .min_by_key(|n| n.num_labels())?;
    if q.name == cut && q.query_type == RecordType::DS {
        return None; // the parent answers DS itself
    }
    let mut m = Message::new(0, MessageType::Response, OpCode::Query);
    m.add_query(q.clone());
    let covers = |r: &hickory_proto::rr::Record, t: RecordType| matches!(&r.data, RData::DNSSEC(DNSSECRData::RRSIG(s)) if s.input().type_covered == t);
    let mut targets = vec![];
    for r in zone.published.iter().filter(|r| r.name == cut && r.record_type() == RecordType::NS) {
        if let RData::NS(ns) = &r.data {
            targets.push(ns.0.clone());
        }
        m.add_authority(r.clone());
    }
    if dnssec_ok && zone.signed() {
        let has_ds = zone.published.iter().any(|r| r.name == cut && r.record_type() == RecordType::DS);
        let t = if has_ds { RecordType::DS } else { RecordType::NSEC };
        for r in zone.published.iter().filter(|r| r.name == cut && (r.record_type() == t || covers(r, t))) {
            m.add_authority(r.clone());
        }
    }
    for r in zone.published.iter().filter(|r| matches!(r.record_type(), RecordType::A | RecordType::AAAA) && targets.contains(&r.name)) {
        m.add_additional(r.clone());
    }
    Some(m)
}

impl ConnectionProvider for RecNet {
    type Conn = RecConn;
    type FutureConn = Pin<Box<dyn Future<Output = Result<RecConn, NetError>> + Send>>;
    type RuntimeProvider = SimProvider;

    fn new_connection(&self, ip: IpAddr, _config: &ConnectionConfig, _cx: &PoolContext) -> Result<Self::FutureConn, NetError> {
        let net = self.clone();
        Ok(Box::pin(async move { Ok(RecConn { net, ip }) }))
    }
    fn runtime_provider(&self) -> &SimProvider {
        &self.rt
    }
}

pub fn run_recursor_case(hier: &Arc<Hier>, q: &(Name, RecordType), faults: &[Fault], dnssec_ok: bool, rt: &tokio::runtime::Runtime) -> Run {
    vsim::reset_clocks(T0 + 100);
    vsim::install_hook_clock();
    let script = Arc::new(Script::new(hier.clone(), faults.to_vec()));
    let net = RecNet { hier: hier.clone(), script: script.clone(), log: Default::default(), rt: SimProvider::default() };
    let mut a = TrustAnchors::empty();
    for k in &hier.h.anchors {
        a.insert(k);
    }
    let query = Query::new(q.0.clone(), q.1);
    let log = net.log.clone();
    let res = catch(|| {
        rt.block_on(async {
            let opts = RecursorOptions { deny_server: vec![], ..RecursorOptions::default() };
            let mut cfg = DnssecConfig::default();
            cfg.trust_anchor = Some(Arc::new(a));
            let policy = DnssecPolicy::ValidateWithStaticKey(cfg);
            let rec = Recursor::new(&["198.51.100.1".parse().unwrap()], policy, None, opts, net).map_err(|e| e.to_string())?;
            rec.resolve(query, Instant::now(), dnssec_ok).await.map_err(|e| e.to_string())
        })
    });
    let outcome = match res {
        Err(p) => Outcome::Panic(vcore::short_loc(&p.loc), p.msg),
        Ok(Err(e)) => Outcome::Err(e),
        Ok(Ok(resp)) => {
            let mut recs = vec![];
            for (s, v) in [(0u8, &resp.answers), (1u8, &resp.authorities), (2u8, &resp.additionals)] {
                recs.extend(v.iter().map(|r| view_record(s, r)));
            }
            Outcome::Ok { rcode: resp.metadata.response_code, recs }
        }
    };
    let log = log.lock().unwrap().clone();
    let inapplicable = *script.inapplicable.lock().unwrap();
    Run { outcome, log, inapplicable }
}
