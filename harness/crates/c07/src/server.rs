//! The server clause of C07: a real `Catalog` with a validating `ForwardZoneHandler` (real
//! `Resolver`: pool -> retry -> `DnssecDnsHandle` -> cache) whose only "name server" is the
//! scripted upstream. Client queries with CD / DO / AD in {0,1}; observed: rcode, AD, answers.

use std::net::IpAddr;
use std::sync::Arc;

use hickory_net::xfer::Protocol;
use hickory_net::NetError;
use hickory_proto::dnssec::TrustAnchors;
use hickory_proto::op::{Edns, Message, MessageType, OpCode, Query, ResponseCode};
use hickory_proto::rr::{Name, RecordType};
use hickory_resolver::config::{ConnectionConfig, NameServerConfig, ResolverOpts};
use hickory_resolver::{ConnectionProvider, PoolContext};
use hickory_server::store::forwarder::{ForwardConfig, ForwardZoneHandler};
use hickory_server::zone_handler::Catalog;
use vcore::catch;
use vsec::hier::HierUpstream;
use vsim::SimProvider;

use crate::faults::{Fault, Script};
use crate::hiers::{rdata_bytes, Hier, Status, T0};
use crate::oracle::Finding;

#[derive(Clone)]
pub struct SimConn {
    up: HierUpstream,
    rt: SimProvider,
}

impl ConnectionProvider for SimConn {
    type Conn = HierUpstream;
    type FutureConn = std::future::Ready<Result<HierUpstream, NetError>>;
    type RuntimeProvider = SimProvider;

    fn new_connection(&self, _ip: IpAddr, _config: &ConnectionConfig, _cx: &PoolContext) -> Result<Self::FutureConn, NetError> {
        Ok(std::future::ready(Ok(self.up.clone())))
    }
    fn runtime_provider(&self) -> &SimProvider {
        &self.rt
    }
}

#[derive(Clone, Copy, Debug, PartialEq, Eq)]
pub struct Client {
    pub cd: bool,
    pub dnssec_ok: bool,
    pub ad: bool,
}

pub const CLIENTS: [Client; 6] = [
    Client { cd: false, dnssec_ok: false, ad: false },
    Client { cd: false, dnssec_ok: true, ad: false },
    Client { cd: false, dnssec_ok: false, ad: true },
    Client { cd: true, dnssec_ok: false, ad: false },
    Client { cd: true, dnssec_ok: true, ad: false },
    Client { cd: true, dnssec_ok: true, ad: true },
];

#[derive(Clone, Debug, PartialEq, Eq)]
pub enum ServerOutcome {
    Response { rcode: ResponseCode, ad: bool, answers: Vec<(Name, RecordType, Vec<u8>)> },
    NoResponse,
    Panic(String, String),
}

pub fn run_server_case(hier: &Arc<Hier>, q: &(Name, RecordType), faults: &[Fault], client: Client, rt: &tokio::runtime::Runtime) -> ServerOutcome {
    vsim::reset_clocks(T0 + 100);
    vsim::install_hook_clock();
    let script = Arc::new(Script::new(hier.clone(), faults.to_vec()));
    let up = HierUpstream::new(hier.h.clone(), script);
    let mut a = TrustAnchors::empty();
    for k in &hier.h.anchors {
        a.insert(k);
    }
    let mut m = Message::new(0x4242, MessageType::Query, OpCode::Query);
    m.metadata.recursion_desired = true;
    m.metadata.checking_disabled = client.cd;
    m.metadata.authentic_data = client.ad;
    m.add_query(Query::new(q.0.clone(), q.1));
    let mut e = Edns::new();
    e.set_max_payload(4096);
    if client.dnssec_ok {
        e.enable_dnssec();
    }
    m.set_edns(e);
    let bytes = m.to_vec().unwrap();
    let res = catch(|| {
        rt.block_on(async {
            let mut opts = ResolverOpts::default();
            opts.attempts = 1;
            let cfg = ForwardConfig { name_servers: vec![NameServerConfig::tcp("192.0.2.53".parse().unwrap())], options: Some(opts) };
            let handler = ForwardZoneHandler::builder_with_config(cfg, SimConn { up, rt: SimProvider::default() })
                .with_trust_anchor(Arc::new(a))
                .build()
                .expect("forwarder");
            let mut catalog = Catalog::new();
            catalog.upsert(Name::root().into(), vec![Arc::new(handler)]);
            vsim::serve(&catalog, &bytes, Protocol::Tcp).await
        })
    });
    match res {
        Err(p) => ServerOutcome::Panic(vcore::short_loc(&p.loc), p.msg),
        Ok(None) => ServerOutcome::NoResponse,
        Ok(Some(v)) => match v.first().and_then(|b| Message::from_vec(b).ok()) {
            None => ServerOutcome::NoResponse,
            Some(r) => ServerOutcome::Response {
                rcode: r.metadata.response_code,
                ad: r.metadata.authentic_data,
                answers: r.answers.iter().filter(|x| x.record_type() != RecordType::RRSIG).map(|x| (x.name.clone(), x.record_type(), rdata_bytes(x))).collect(),
            },
        },
    }
}

/// Ground-truth oracle for the server clause.
pub fn judge_server(hier: &Hier, q: &(Name, RecordType), honest_answer: &Message, client: Client, out: &ServerOutcome) -> (Vec<Finding>, String) {
    let mut f = vec![];
    let (rcode, ad, answers) = match out {
        ServerOutcome::Panic(loc, msg) => {
            f.push(Finding { clause: crate::oracle::panic_key("server-panic", loc, msg), what: format!("the server task panicked at {loc}: {msg}") });
            return (f, "panic".into());
        }
        ServerOutcome::NoResponse => return (f, "no-response".into()),
        ServerOutcome::Response { rcode, ad, answers } => (*rcode, *ad, answers),
    };
    let qstatus = hier.status(&q.0, q.1);
    let truth_positive = !honest_answer.answers.is_empty();
    let published = |r: &(Name, RecordType, Vec<u8>)| {
        hier.published.contains_key(&(r.0.to_lowercase().to_ascii(), u16::from(r.1), r.2.clone())) || honest_answer.answers.iter().any(|h| h.name == r.0 && h.record_type() == r.1 && rdata_bytes(h) == r.2)
    };
    let class = format!(
        "server:{}{}{}",
        if rcode == ResponseCode::ServFail { "servfail" } else if answers.is_empty() { "negative" } else { "data" },
        if ad { "+AD" } else { "" },
        if client.cd { ":cd" } else { "" }
    );
    if ad {
        if !(client.ad || client.dnssec_ok) {
            f.push(Finding { clause: "server-ad-set-unasked".into(), what: "AD set although the client set neither AD nor DO".into() });
        }
        for r in answers {
            let st = hier.status(&r.0, r.1);
            if st != Status::Secure || !published(r) {
                f.push(Finding {
                    clause: format!("server-ad-set-on-{}", if st != Status::Secure { "data-of-an-insecure-zone" } else { "unpublished-data" }),
                    what: format!("AD=1 on a response that carries {} {} which is not authenticated published data", r.0, r.1),
                });
            }
        }
        if answers.is_empty() && rcode != ResponseCode::ServFail && (qstatus != Status::Secure || truth_positive) {
            f.push(Finding { clause: "server-ad-set-on-false-or-unprovable-denial".into(), what: format!("AD=1 on a negative answer for {} {}", q.0, q.1) });
        }
    }
    if !client.cd {
        for r in answers {
            if hier.status(&r.0, r.1) == Status::Secure && !published(r) {
                f.push(Finding {
                    clause: "server-serves-unpublished-data-of-signed-zone-with-cd=0".into(),
                    what: format!("{} {} served to a CD=0 client (rcode {rcode}) although the signed zone publishes no such record", r.0, r.1),
                });
            }
        }
        if answers.is_empty() && rcode != ResponseCode::ServFail && qstatus == Status::Secure && truth_positive {
            f.push(Finding {
                clause: "server-denies-published-data-of-signed-zone-with-cd=0".into(),
                what: format!("{} {} exists in the signed zone but the CD=0 client got rcode {rcode} without data instead of SERVFAIL", q.0, q.1),
            });
        }
    }
    f.sort();
    f.dedup();
    (f, class)
}
