//! The simulated hierarchies of C07 and their ground truth.

use std::collections::HashMap;
use std::sync::Arc;

use hickory_proto::dnssec::rdata::{DNSSECRData, DS};
use hickory_proto::dnssec::{Algorithm, DigestType, Nsec3HashAlgorithm};
use hickory_proto::rr::rdata::{A, NS, TXT};
use hickory_proto::rr::{Name, RData, Record, RecordType};
use hickory_proto::serialize::binary::BinEncodable;
use hickory_server::dnssec::NxProofKind;
use vsec::hier::{Hierarchy, ZoneDef};
use vsec::keys::{self, KeyMat, F_KSK};
use vsec::n;

pub const T0: u64 = 1_700_000_000;

fn a(name: &str, ip: [u8; 4]) -> Record {
    Record::from_rdata(n(name), 300, RData::A(A::new(ip[0], ip[1], ip[2], ip[3])))
}
fn ns(name: &str) -> Record {
    Record::from_rdata(n(name), 300, RData::NS(NS(n("ns.o."))))
}
fn txt(name: &str, s: &str) -> Record {
    Record::from_rdata(n(name), 300, RData::TXT(TXT::new(vec![s.to_string()])))
}
fn ds_for(zone: &str, k: KeyMat, flags: u16) -> Record {
    let dnskey = hickory_proto::dnssec::rdata::DNSKEY::with_flags(flags, k.public());
    let tag = dnskey.calculate_key_tag().unwrap();
    let digest = dnskey.to_digest(&n(zone), DigestType::SHA256).unwrap();
    Record::from_rdata(n(zone), 300, RData::DNSSEC(DNSSECRData::DS(DS::new(tag, k.alg, DigestType::SHA256, digest.as_ref().to_vec()))))
}
fn ds_unsupported_alg(zone: &str, k: KeyMat, flags: u16) -> Record {
    let dnskey = hickory_proto::dnssec::rdata::DNSKEY::with_flags(flags, k.public());
    let tag = dnskey.calculate_key_tag().unwrap();
    let digest = dnskey.to_digest(&n(zone), DigestType::SHA256).unwrap();
    Record::from_rdata(n(zone), 300, RData::DNSSEC(DNSSECRData::DS(DS::new(tag, Algorithm::Unknown(200), DigestType::SHA256, digest.as_ref().to_vec()))))
}
fn ds_unsupported_digest(zone: &str, k: KeyMat, flags: u16) -> Record {
    let dnskey = hickory_proto::dnssec::rdata::DNSKEY::with_flags(flags, k.public());
    let tag = dnskey.calculate_key_tag().unwrap();
    Record::from_rdata(n(zone), 300, RData::DNSSEC(DNSSECRData::DS(DS::new(tag, k.alg, DigestType::Unknown(200), vec![0xab; 32]))))
}

fn nsec3(opt_out: bool) -> Option<NxProofKind> {
    Some(NxProofKind::Nsec3 { algorithm: Nsec3HashAlgorithm::SHA1, salt: Arc::new([0xab]), iterations: 1, opt_out })
}

/// zone content used by every non-root zone: www A, txt TXT, a wildcard two levels down
fn leaf_records(zone: &str, ip3: u8) -> Vec<Record> {
    vec![
        a(&format!("www.{zone}"), [192, 0, 2, ip3]),
        txt(&format!("txt.{zone}"), "published"),
        a(&format!("*.w.{zone}"), [192, 0, 2, 200]),
        // an explicit name below the wildcard's parent: the wildcard must NOT answer for it
        a(&format!("c.x.w.{zone}"), [192, 0, 2, 77]),
    ]
}

pub struct Hier {
    pub h: Arc<Hierarchy>,
    /// queries asked through the validator
    pub queries: Vec<(Name, RecordType)>,
    /// a name inside a genuinely insecure zone of this hierarchy (if any) — for the injection alphabet
    pub insecure_name: Option<Name>,
    /// a name inside a secure zone that is no ancestor of the queries' zone (if any)
    pub sibling_name: Option<Name>,
    /// (owner, type, rdata) -> indices of the zones that publish the record
    pub published: HashMap<(String, u16, Vec<u8>), Vec<usize>>,
    /// the order in which the honest upstream serves the records of one RRset (record order in a
    /// response is not covered by any signature): (query key, rdata in served order)
    pub serve_order: Option<((String, u16), Vec<Vec<u8>>)>,
    /// name as accepted by `build`
    pub name: String,
    status_cache: std::sync::OnceLock<Vec<Status>>,
}

fn std_queries(leaf: &str) -> Vec<(Name, RecordType)> {
    vec![
        (n(&format!("www.{leaf}")), RecordType::A),
        (n(&format!("www.{leaf}")), RecordType::AAAA),
        (n(&format!("nx.{leaf}")), RecordType::A),
        (n(&format!("a.b.w.{leaf}")), RecordType::A),
        (n(&format!("c.x.w.{leaf}")), RecordType::A),
        (n(leaf), RecordType::DS),
        (n(leaf), RecordType::DNSKEY),
        (n(leaf), RecordType::NS),
    ]
}

pub fn rdata_bytes(r: &Record) -> Vec<u8> {
    r.data.to_bytes().unwrap_or_default()
}

fn finish(h: Hierarchy, queries: Vec<(Name, RecordType)>, insecure_name: Option<&str>, sibling_name: Option<&str>) -> Hier {
    let mut published: HashMap<(String, u16, Vec<u8>), Vec<usize>> = HashMap::new();
    for (zi, z) in h.zones.iter().enumerate() {
        for r in &z.published {
            published.entry((r.name.to_lowercase().to_ascii(), u16::from(r.record_type()), rdata_bytes(r))).or_default().push(zi);
        }
    }
    let name = h.name.clone();
    Hier { h: Arc::new(h), queries, insecure_name: insecure_name.map(n), sibling_name: sibling_name.map(n), published, serve_order: None, name, status_cache: std::sync::OnceLock::new() }
}

pub fn names(thorough: bool) -> Vec<&'static str> {
    let mut v = vec![
        "all-signed",
        "leaf-unsigned-nsec",
        "leaf-unsigned-nsec3",
        "leaf-unsigned-nsec3-optout",
        "signed-next-to-insecure",
        "two-keys-ds-for-one",
        "ds-unsupported-algorithm-only",
        "island",
        "key-tag-collision",
        "apex-wildcards",
        "depth-4",
        // ("nsec3-plain" / "all-signed-nsec3" can be built but are not enumerated: the server attaches
        // NSEC3 records to positive answers of NSEC3-signed zones and the validator rejects those,
        // so honest runs below an NSEC3-signed parent are Bogus - re-checked after fix 9d82d09)
    ];
    if thorough {
        v.extend(["tld-unsigned", "two-ds-one-unsupported-digest", "p256-and-rsa"]);
    }
    v
}

/// The DS kinds of the `ds-mix:<sequence>` hierarchies: M = supported and matching the zone key,
/// N = supported but for another key, A = unsupported algorithm, D = unsupported digest type.
pub const DS_KINDS: [char; 4] = ['M', 'N', 'A', 'D'];

/// All sequences of 1..3 distinct DS kinds = every DS RRset composition in every served order.
pub fn ds_mix_sequences() -> Vec<String> {
    let mut out = vec![];
    for a in DS_KINDS {
        out.push(a.to_string());
        for b in DS_KINDS {
            if b != a {
                out.push(format!("{a}{b}"));
                for c in DS_KINDS {
                    if c != a && c != b {
                        out.push(format!("{a}{b}{c}"));
                    }
                }
            }
        }
    }
    out
}

fn ds_of_kind(kind: char, zone: &str, key: KeyMat) -> Record {
    match kind {
        'M' => ds_for(zone, key, F_KSK),
        'N' => ds_for(zone, keys::ED[7], F_KSK),
        'A' => ds_unsupported_alg(zone, key, F_KSK),
        'D' => ds_unsupported_digest(zone, key, F_KSK),
        other => panic!("unknown DS kind {other}"),
    }
}

/// root signed, t. signed with ed01, DS RRset of t. = the given kinds, served in that order;
/// u. insecure, e. secure.
fn build_ds_mix(name: &str, seq: &str) -> Hier {
    let ed = keys::ED;
    let nsec = Some(NxProofKind::Nsec);
    let mut rrec = vec![ns("t."), ns("u."), ns("e."), ds_for("e.", ed[3], F_KSK)];
    let dss: Vec<Record> = seq.chars().map(|k| ds_of_kind(k, "t.", ed[1])).collect();
    rrec.extend(dss.iter().cloned());
    let root = ZoneDef { origin: Name::root(), keys: vec![(ed[0], F_KSK)], nx: nsec.clone(), records: rrec };
    let t = ZoneDef { origin: n("t."), keys: vec![(ed[1], F_KSK)], nx: nsec.clone(), records: leaf_records("t.", 10) };
    let u = ZoneDef { origin: n("u."), keys: vec![], nx: None, records: leaf_records("u.", 40) };
    let e = ZoneDef { origin: n("e."), keys: vec![(ed[3], F_KSK)], nx: nsec, records: leaf_records("e.", 30) };
    let q = vec![(n("www.t."), RecordType::A), (n("nx.t."), RecordType::A), (n("t."), RecordType::DS), (n("t."), RecordType::DNSKEY)];
    let mut h = finish(Hierarchy::build(name, &[root, t, u, e], &[(0, 0)]), q, Some("x.u."), Some("www.e."));
    h.serve_order = Some((("t.".to_string(), u16::from(RecordType::DS)), dss.iter().map(rdata_bytes).collect()));
    h
}

/// Build a hierarchy by name. Must run with the virtual clock at T0 (signature inception).
pub fn build(name: &str) -> Hier {
    vsim::reset_clocks(T0);
    if let Some(seq) = name.strip_prefix("ds-mix:") {
        return build_ds_mix(name, seq);
    }
    let ed = keys::ED;
    let root_key = (ed[0], F_KSK);
    let nsec = Some(NxProofKind::Nsec);
    match name {
        // root -> t. -> l.t. all signed (NSEC), secure sibling e.t.
        "all-signed" | "all-signed-nsec3" | "apex-wildcards" => {
            let nx = if name == "all-signed-nsec3" { nsec3(false) } else { nsec.clone() };
            let mut rrec = vec![ns("t."), ds_for("t.", ed[1], F_KSK)];
            let mut trec = leaf_records("t.", 10);
            let mut lrec = leaf_records("l.t.", 20);
            if name == "apex-wildcards" {
                // a wildcard directly below the apex of the root, of t. and of l.t.: genuine
                // `*.<zone> NSEC` records whose RRSIG Labels field is below any name of the zone
                rrec.push(txt("*.", "wild"));
                trec.push(txt("*.t.", "wild"));
                lrec.push(txt("*.l.t.", "wild"));
            }
            let root = ZoneDef { origin: Name::root(), keys: vec![root_key], nx: nx.clone(), records: rrec };
            trec.extend([ns("l.t."), ds_for("l.t.", ed[2], F_KSK), ns("e.t."), ds_for("e.t.", ed[3], F_KSK)]);
            let t = ZoneDef { origin: n("t."), keys: vec![(ed[1], F_KSK)], nx: nx.clone(), records: trec };
            // (all-signed: two signed sibling delegations l.t. / e.t. under the signed t., and a signed
            // child x.l.t. below the victim l.t. - the zones an attacker may legitimately own)
            if name == "all-signed" {
                lrec.extend([ns("x.l.t."), ds_for("x.l.t.", ed[5], F_KSK)]);
            }
            let l = ZoneDef { origin: n("l.t."), keys: vec![(ed[2], F_KSK)], nx: nx.clone(), records: lrec };
            let x = ZoneDef { origin: n("x.l.t."), keys: vec![(ed[5], F_KSK)], nx: nx.clone(), records: leaf_records("x.l.t.", 50) };
            let e = ZoneDef { origin: n("e.t."), keys: vec![(ed[3], F_KSK)], nx, records: leaf_records("e.t.", 30) };
            let mut q = std_queries("l.t.");
            if name == "apex-wildcards" {
                // (a name one label below the apex is answered from `*.l.t.`; hickory cannot
                // validate an expansion directly below the closest encloser - a completeness
                // matter - so the NXDOMAIN query of the standard list is replaced)
                q.retain(|x| x.0 != n("nx.l.t."));
                q.push((n("www.t."), RecordType::A));
                q.push((n("a.nx.l.t."), RecordType::TXT));
            }
            if name == "all-signed" {
                return finish(Hierarchy::build(name, &[root, t, l, e, x], &[(0, 0)]), q, None, Some("www.e.t."));
            }
            finish(Hierarchy::build(name, &[root, t, l, e], &[(0, 0)]), q, None, Some("www.e.t."))
        }
        // NSEC3 everywhere, zones without wildcards and empty non-terminals
        "nsec3-plain" => {
            let nx = nsec3(false);
            let plain = |zone: &str, ip3: u8| vec![a(&format!("www.{zone}"), [192, 0, 2, ip3]), txt(&format!("txt.{zone}"), "published")];
            let root = ZoneDef { origin: Name::root(), keys: vec![root_key], nx: nx.clone(), records: vec![ns("t."), ds_for("t.", ed[1], F_KSK), ns("u.")] };
            let mut trec = plain("t.", 10);
            trec.extend([ns("l.t."), ds_for("l.t.", ed[2], F_KSK)]);
            let t = ZoneDef { origin: n("t."), keys: vec![(ed[1], F_KSK)], nx: nx.clone(), records: trec };
            let l = ZoneDef { origin: n("l.t."), keys: vec![(ed[2], F_KSK)], nx, records: plain("l.t.", 20) };
            let u = ZoneDef { origin: n("u."), keys: vec![], nx: None, records: plain("u.", 40) };
            let q = vec![
                (n("www.l.t."), RecordType::A),
                (n("www.l.t."), RecordType::AAAA),
                (n("nx.l.t."), RecordType::A),
                (n("l.t."), RecordType::DS),
                (n("l.t."), RecordType::DNSKEY),
                (n("l.t."), RecordType::NS),
                (n("u."), RecordType::DS),
            ];
            finish(Hierarchy::build(name, &[root, t, l, u], &[(0, 0)]), q, Some("x.u."), None)
        }
        // for the validating RECURSOR: in-zone name servers with glue; zone i is served at
        // 198.51.100.(i+1)
        "recursor" => {
            let nsr = |zone: &str, host: &str| Record::from_rdata(n(zone), 300, RData::NS(NS(n(host))));
            let root = ZoneDef {
                origin: Name::root(),
                keys: vec![root_key],
                nx: nsec.clone(),
                records: vec![a("ns.", [198, 51, 100, 1]), nsr("t.", "ns.t."), a("ns.t.", [198, 51, 100, 2]), ds_for("t.", ed[1], F_KSK), nsr("u.", "ns.u."), a("ns.u.", [198, 51, 100, 4])],
            };
            let mut trec = leaf_records("t.", 10);
            trec.extend([a("ns.t.", [198, 51, 100, 2]), nsr("l.t.", "ns.l.t."), a("ns.l.t.", [198, 51, 100, 3]), ds_for("l.t.", ed[2], F_KSK)]);
            let t = ZoneDef { origin: n("t."), keys: vec![(ed[1], F_KSK)], nx: nsec.clone(), records: trec };
            let mut lrec = leaf_records("l.t.", 20);
            lrec.push(a("ns.l.t.", [198, 51, 100, 3]));
            let l = ZoneDef { origin: n("l.t."), keys: vec![(ed[2], F_KSK)], nx: nsec, records: lrec };
            let mut urec = leaf_records("u.", 40);
            urec.push(a("ns.u.", [198, 51, 100, 4]));
            let u = ZoneDef { origin: n("u."), keys: vec![], nx: None, records: urec };
            let q = vec![(n("www.l.t."), RecordType::A), (n("www.l.t."), RecordType::AAAA), (n("nx.l.t."), RecordType::A), (n("www.t."), RecordType::A), (n("www.u."), RecordType::A)];
            finish(
                Hierarchy::build_ns(name, &[(root, n("ns.")), (t, n("ns.t.")), (l, n("ns.l.t.")), (u, n("ns.u."))], &[(0, 0)]),
                q,
                Some("x.u."),
                None,
            )
        }
        // four signed levels: root -> t. -> l.t. -> x.l.t.
        "depth-4" => {
            let root = ZoneDef { origin: Name::root(), keys: vec![root_key], nx: nsec.clone(), records: vec![ns("t."), ds_for("t.", ed[1], F_KSK), ns("u.")] };
            let mut trec = leaf_records("t.", 10);
            trec.extend([ns("l.t."), ds_for("l.t.", ed[2], F_KSK)]);
            let t = ZoneDef { origin: n("t."), keys: vec![(ed[1], F_KSK)], nx: nsec.clone(), records: trec };
            let mut lrec = leaf_records("l.t.", 20);
            lrec.extend([ns("x.l.t."), ds_for("x.l.t.", ed[5], F_KSK)]);
            let l = ZoneDef { origin: n("l.t."), keys: vec![(ed[2], F_KSK)], nx: nsec.clone(), records: lrec };
            let x = ZoneDef { origin: n("x.l.t."), keys: vec![(ed[5], F_KSK)], nx: nsec, records: leaf_records("x.l.t.", 50) };
            let u = ZoneDef { origin: n("u."), keys: vec![], nx: None, records: leaf_records("u.", 40) };
            finish(Hierarchy::build(name, &[root, t, l, x, u], &[(0, 0)]), std_queries("x.l.t."), Some("x.u."), None)
        }
        // l.t. unsigned, t. proves "no DS" with NSEC / NSEC3 / NSEC3 opt-out
        "leaf-unsigned-nsec" | "leaf-unsigned-nsec3" | "leaf-unsigned-nsec3-optout" => {
            let nx = match name {
                "leaf-unsigned-nsec" => nsec.clone(),
                "leaf-unsigned-nsec3" => nsec3(false),
                _ => nsec3(true),
            };
            let root = ZoneDef { origin: Name::root(), keys: vec![root_key], nx: nsec.clone(), records: vec![ns("t."), ds_for("t.", ed[1], F_KSK)] };
            let mut trec = leaf_records("t.", 10);
            trec.extend([ns("l.t."), ns("e.t."), ds_for("e.t.", ed[3], F_KSK)]);
            let t = ZoneDef { origin: n("t."), keys: vec![(ed[1], F_KSK)], nx, records: trec };
            let l = ZoneDef { origin: n("l.t."), keys: vec![], nx: None, records: leaf_records("l.t.", 20) };
            let e = ZoneDef { origin: n("e.t."), keys: vec![(ed[3], F_KSK)], nx: nsec, records: leaf_records("e.t.", 30) };
            let mut q = std_queries("l.t.");
            if name == "leaf-unsigned-nsec" {
                // (the server attaches NSEC3 records to positive answers of an NSEC3 zone and the
                // validator then rejects them: honest positive answers from an NSEC3-signed t. are
                // Bogus, so the neighbouring-zone query is only asked in the NSEC hierarchy)
                q.push((n("www.t."), RecordType::A));
            }
            finish(Hierarchy::build(name, &[root, t, l, e], &[(0, 0)]), q, Some("x.l.t."), Some("www.e.t."))
        }
        // the spike's shape: signed t. next to a genuinely insecure u. under a signed root
        "signed-next-to-insecure" => {
            let root = ZoneDef { origin: Name::root(), keys: vec![root_key], nx: nsec.clone(), records: vec![ns("t."), ds_for("t.", ed[1], F_KSK), ns("u."), ns("e."), ds_for("e.", ed[3], F_KSK)] };
            let mut trec = leaf_records("t.", 10);
            // CNAMEs out of the signed zone: into the insecure sibling and into the secure one
            trec.push(Record::from_rdata(n("cu.t."), 300, RData::CNAME(hickory_proto::rr::rdata::CNAME(n("www.u.")))));
            trec.push(Record::from_rdata(n("ce.t."), 300, RData::CNAME(hickory_proto::rr::rdata::CNAME(n("www.e.")))));
            let t = ZoneDef { origin: n("t."), keys: vec![(ed[1], F_KSK)], nx: nsec.clone(), records: trec };
            let u = ZoneDef { origin: n("u."), keys: vec![], nx: None, records: leaf_records("u.", 40) };
            let e = ZoneDef { origin: n("e."), keys: vec![(ed[3], F_KSK)], nx: nsec, records: leaf_records("e.", 30) };
            let mut q = std_queries("t.");
            q.push((n("www.u."), RecordType::A));
            q.push((n("cu.t."), RecordType::A));
            q.push((n("ce.t."), RecordType::A));
            finish(Hierarchy::build(name, &[root, t, u, e], &[(0, 0)]), q, Some("x.u."), Some("www.e."))
        }
        // every zone has two keys; only the first has a DS / is the trust anchor (the real server
        // publishes every key with flags 257 and signs every RRset with every key)
        "two-keys-ds-for-one" => {
            let root = ZoneDef { origin: Name::root(), keys: vec![root_key, (ed[4], F_KSK)], nx: nsec.clone(), records: vec![ns("t."), ds_for("t.", ed[1], F_KSK), ns("u.")] };
            let mut trec = leaf_records("t.", 10);
            trec.extend([ns("l.t."), ds_for("l.t.", ed[2], F_KSK)]);
            let t = ZoneDef { origin: n("t."), keys: vec![(ed[1], F_KSK), (ed[5], F_KSK)], nx: nsec.clone(), records: trec };
            let l = ZoneDef { origin: n("l.t."), keys: vec![(ed[2], F_KSK), (ed[6], F_KSK)], nx: nsec, records: leaf_records("l.t.", 20) };
            let u = ZoneDef { origin: n("u."), keys: vec![], nx: None, records: leaf_records("u.", 40) };
            finish(Hierarchy::build(name, &[root, t, l, u], &[(0, 0)]), std_queries("l.t."), Some("x.u."), None)
        }
        // t. is signed but its DS RRset only names an unsupported algorithm: t. is insecure
        "ds-unsupported-algorithm-only" => {
            let root = ZoneDef { origin: Name::root(), keys: vec![root_key], nx: nsec.clone(), records: vec![ns("t."), ds_unsupported_alg("t.", ed[1], F_KSK), ns("e."), ds_for("e.", ed[3], F_KSK)] };
            let t = ZoneDef { origin: n("t."), keys: vec![(ed[1], F_KSK)], nx: nsec.clone(), records: leaf_records("t.", 10) };
            let e = ZoneDef { origin: n("e."), keys: vec![(ed[3], F_KSK)], nx: nsec, records: leaf_records("e.", 30) };
            let mut q = std_queries("t.");
            q.push((n("www.e."), RecordType::A));
            finish(Hierarchy::build(name, &[root, t, e], &[(0, 0)]), q, Some("x.t."), Some("www.e."))
        }
        // l.t. is signed but t. publishes no DS for it (an island of security): l.t. is insecure
        "island" => {
            let root = ZoneDef { origin: Name::root(), keys: vec![root_key], nx: nsec.clone(), records: vec![ns("t."), ds_for("t.", ed[1], F_KSK)] };
            let mut trec = leaf_records("t.", 10);
            trec.extend([ns("l.t.")]);
            let t = ZoneDef { origin: n("t."), keys: vec![(ed[1], F_KSK)], nx: nsec.clone(), records: trec };
            let l = ZoneDef { origin: n("l.t."), keys: vec![(ed[2], F_KSK)], nx: nsec, records: leaf_records("l.t.", 20) };
            let mut q = std_queries("l.t.");
            q.push((n("www.t."), RecordType::A));
            finish(Hierarchy::build(name, &[root, t, l], &[(0, 0)]), q, Some("x.l.t."), None)
        }
        // t. is signed with keys/tag0; the attacker holds keys/tag1: same algorithm,
        // same key tag, different key
        "key-tag-collision" => {
            let root = ZoneDef { origin: Name::root(), keys: vec![root_key], nx: nsec.clone(), records: vec![ns("t."), ds_for("t.", keys::TAG[0], F_KSK), ns("u.")] };
            let t = ZoneDef { origin: n("t."), keys: vec![(keys::TAG[0], F_KSK)], nx: nsec, records: leaf_records("t.", 10) };
            let u = ZoneDef { origin: n("u."), keys: vec![], nx: None, records: leaf_records("u.", 40) };
            finish(Hierarchy::build(name, &[root, t, u], &[(0, 0)]), std_queries("t."), Some("x.u."), None)
        }
        "tld-unsigned" => {
            let root = ZoneDef { origin: Name::root(), keys: vec![root_key], nx: nsec.clone(), records: vec![ns("t."), ns("e."), ds_for("e.", ed[3], F_KSK)] };
            let mut trec = leaf_records("t.", 10);
            trec.extend([ns("l.t.")]);
            let t = ZoneDef { origin: n("t."), keys: vec![], nx: None, records: trec };
            let l = ZoneDef { origin: n("l.t."), keys: vec![], nx: None, records: leaf_records("l.t.", 20) };
            let e = ZoneDef { origin: n("e."), keys: vec![(ed[3], F_KSK)], nx: nsec, records: leaf_records("e.", 30) };
            let mut q = std_queries("l.t.");
            q.push((n("www.e."), RecordType::A));
            finish(Hierarchy::build(name, &[root, t, l, e], &[(0, 0)]), q, Some("x.t."), Some("www.e."))
        }
        "two-ds-one-unsupported-digest" => {
            let root = ZoneDef {
                origin: Name::root(),
                keys: vec![root_key],
                nx: nsec.clone(),
                records: vec![ns("t."), ds_unsupported_digest("t.", ed[1], F_KSK), ds_for("t.", ed[1], F_KSK), ns("u.")],
            };
            let t = ZoneDef { origin: n("t."), keys: vec![(ed[1], F_KSK)], nx: nsec, records: leaf_records("t.", 10) };
            let u = ZoneDef { origin: n("u."), keys: vec![], nx: None, records: leaf_records("u.", 40) };
            finish(Hierarchy::build(name, &[root, t, u], &[(0, 0)]), std_queries("t."), Some("x.u."), None)
        }
        "p256-and-rsa" => {
            let root = ZoneDef { origin: Name::root(), keys: vec![(keys::RSA[0], F_KSK)], nx: nsec.clone(), records: vec![ns("t."), ds_for("t.", keys::P256[0], F_KSK), ns("u.")] };
            let t = ZoneDef { origin: n("t."), keys: vec![(keys::P256[0], F_KSK)], nx: nsec, records: leaf_records("t.", 10) };
            let u = ZoneDef { origin: n("u."), keys: vec![], nx: None, records: leaf_records("u.", 40) };
            finish(Hierarchy::build(name, &[root, t, u], &[(0, 0)]), std_queries("t."), Some("x.u."), None)
        }
        other => panic!("unknown hierarchy {other}"),
    }
}

#[derive(Clone, Copy, Debug, PartialEq, Eq)]
pub enum Status {
    Secure,
    Insecure,
    /// a supported DS exists but none matches a key of the child: no validation can succeed
    Bogus,
}

impl Hier {
    /// What the honest upstream serves for `k`: the authoritative answer with the records of the
    /// designated RRset in this hierarchy's served order.
    pub fn served(&self, k: &(String, u16), bytes: Vec<u8>) -> Vec<u8> {
        let Some((key, order)) = &self.serve_order else { return bytes };
        if key != k {
            return bytes;
        }
        let Ok(mut m) = hickory_proto::op::Message::from_vec(&bytes) else { return bytes };
        let t = RecordType::from(k.1);
        let mut set: Vec<Record> = m.answers.iter().filter(|r| r.record_type() == t).cloned().collect();
        if set.len() != order.len() {
            return bytes;
        }
        set.sort_by_key(|r| order.iter().position(|o| *o == rdata_bytes(r)).unwrap_or(usize::MAX));
        let mut it = set.into_iter();
        for r in m.answers.iter_mut() {
            if r.record_type() == t {
                *r = it.next().unwrap();
            }
        }
        m.to_vec().unwrap_or(bytes)
    }

    /// Ground truth: is the zone that publishes (name, type) reachable from the trust anchor
    /// through published DS / DNSKEY links, or is there a published insecure delegation (no DS,
    /// or only unsupported DS) on the way?
    pub fn status(&self, name: &Name, t: RecordType) -> Status {
        match self.h.zone_for(name, t) {
            Some(z) => self.status_zone(z),
            None => Status::Insecure,
        }
    }

    pub fn status_zone(&self, target: usize) -> Status {
        self.status_cache.get_or_init(|| (0..self.h.zones.len()).map(|z| self.compute_status_zone(z)).collect())[target]
    }

    fn compute_status_zone(&self, target: usize) -> Status {
        let h = &self.h;
        // walk down from the root
        let mut chain: Vec<usize> = h.zones.iter().enumerate().filter(|(_, z)| z.origin.zone_of(&h.zones[target].origin)).map(|(i, _)| i).collect();
        chain.sort_by_key(|i| h.zones[*i].origin.num_labels());
        let root = chain[0];
        if !h.zones[root].signed() {
            return Status::Insecure;
        }
        for w in chain.windows(2) {
            let (p, c) = (w[0], w[1]);
            let corigin = &h.zones[c].origin;
            let dss: Vec<&DS> = h.zones[p]
                .published
                .iter()
                .filter(|r| r.name == *corigin)
                .filter_map(|r| match &r.data {
                    RData::DNSSEC(DNSSECRData::DS(ds)) => Some(ds),
                    _ => None,
                })
                .collect();
            if dss.is_empty() {
                return Status::Insecure;
            }
            if dss.iter().all(|d| !d.algorithm().is_supported() || !d.digest_type().is_supported()) {
                return Status::Insecure;
            }
            // a DS "matches" when it is the DS this file constructs for one of the child's keys
            let matching = dss.iter().any(|d| {
                d.algorithm().is_supported()
                    && d.digest_type().is_supported()
                    && h.zones[c].keys.iter().any(|k| match &ds_for(&corigin.to_ascii(), k.mat, k.flags).data {
                        RData::DNSSEC(DNSSECRData::DS(m)) => m == *d,
                        _ => false,
                    })
            });
            if !matching {
                return Status::Bogus;
            }
        }
        Status::Secure
    }
}
