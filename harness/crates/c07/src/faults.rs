//! The two fault layers of C07 and the `Tamper` that applies a fault script to the honest
//! upstream answers.
//!
//! (L1) record-level atomic faults at a record position (query, section, index) of an upstream
//!      response; (L2) response-level attacker moves addressed by the upstream query.

use std::sync::{Arc, Mutex};

use hickory_proto::dnssec::rdata::{DNSSECRData, DS, NSEC, NSEC3, RRSIG};
use hickory_proto::dnssec::{Algorithm, DigestType, Nsec3HashAlgorithm};
use hickory_proto::op::{Message, Query, ResponseCode};
use hickory_proto::rr::rdata::{A, AAAA, NS, SOA, TXT};
use hickory_proto::rr::{Name, RData, Record, RecordType};
use serde_json::{json, Value};
use vsec::hier::Tamper;
use vsec::keys::{self, ZoneKey, F_KSK};
use vsec::sign::{self, SigSpec};
use vsec::upstream::{key_of, Key};

use crate::hiers::{Hier, Status, T0};

/// Whose key the attacker signs with.
#[derive(Clone, Copy, Debug, PartialEq, Eq, Hash, PartialOrd, Ord)]
pub enum KeyChoice {
    /// the real key of a secure zone of the hierarchy that is neither ancestor nor descendant of
    /// the target's zone (a hostile operator of another signed zone); signer = that zone
    SiblingZone,
    /// the real key of a signed child zone of the target's zone; signer = the child zone
    ChildZone,
    /// the real key of the parent zone; signer = the parent zone (logged, not judged: whoever
    /// holds an ancestor's key legitimately controls the delegation)
    AncestorZone,
    /// a fresh attacker key; signer = the target's own zone; the attacker's DNSKEY is injected
    /// (unsigned) into every answer to that zone's DNSKEY query
    AttackerSameZone,
    /// a fresh attacker key; signer = `atk.` (a name that does not exist); the `atk. DNSKEY` query
    /// is answered with the attacker's self-signed DNSKEY set
    AttackerOwnZone,
    /// a fresh attacker key; signer = the apex of a genuinely insecure zone of the hierarchy; that
    /// zone's DNSKEY query is answered with the attacker's self-signed DNSKEY set
    InsecureZone,
    /// an attacker key with the SAME algorithm and key tag as the target zone's key (only where
    /// the zone is signed with keys/tag0); signer = the target's zone; that zone's DNSKEY query
    /// is answered with the attacker's self-signed DNSKEY set
    CollidingKey,
    /// the attacker OWNS a real, properly delegated zone of the hierarchy: the GENUINE key of a
    /// secure child zone of the target's zone, but the RRSIG names the TARGET's zone as signer
    /// (key tag / algorithm of the child key); the child's genuine, validly signed DNSKEY RRset is
    /// appended to every answer to the target zone's DNSKEY query
    OwnedChildZoneKeyClaimingTarget,
    /// as above with the genuine key of a secure sibling zone
    OwnedSiblingZoneKeyClaimingTarget,
}

pub const KEY_CHOICES: [KeyChoice; 9] = [
    KeyChoice::SiblingZone,
    KeyChoice::ChildZone,
    KeyChoice::AncestorZone,
    KeyChoice::AttackerSameZone,
    KeyChoice::AttackerOwnZone,
    KeyChoice::InsecureZone,
    KeyChoice::CollidingKey,
    KeyChoice::OwnedChildZoneKeyClaimingTarget,
    KeyChoice::OwnedSiblingZoneKeyClaimingTarget,
];

impl KeyChoice {
    pub fn tag(self) -> &'static str {
        match self {
            KeyChoice::SiblingZone => "sibling-zone-key",
            KeyChoice::ChildZone => "child-zone-key",
            KeyChoice::AncestorZone => "ancestor-zone-key",
            KeyChoice::AttackerSameZone => "attacker-key+injected-dnskey",
            KeyChoice::AttackerOwnZone => "attacker-zone-key",
            KeyChoice::InsecureZone => "insecure-zone-key",
            KeyChoice::CollidingKey => "attacker-key-with-colliding-tag",
            KeyChoice::OwnedChildZoneKeyClaimingTarget => "owned-child-zone-key-claiming-target-as-signer",
            KeyChoice::OwnedSiblingZoneKeyClaimingTarget => "owned-sibling-zone-key-claiming-target-as-signer",
        }
    }
    fn from_tag(s: &str) -> Option<Self> {
        KEY_CHOICES.into_iter().find(|k| k.tag() == s)
    }
}

#[derive(Clone, Copy, Debug, PartialEq, Eq, Hash, PartialOrd, Ord)]
pub enum RecFault {
    Drop,
    FlipBit,
    MarkerRdata,
    ChangeOwner,
    RaiseTtl,
    StripRrsigs,
    Resign(KeyChoice),
    /// ONE extra record inserted right behind this one: an exact copy except class CH
    /// (`forged` = false) or class CH with attacker RDATA (`forged` = true)
    InjectForeignClass { forged: bool },
}

#[derive(Clone, Copy, Debug, PartialEq, Eq, Hash, PartialOrd, Ord)]
pub enum OwnerSel {
    QName,
    ZoneApex,
    ParentApex,
    InsecureName,
    SiblingName,
}
pub const OWNER_SELS: [OwnerSel; 5] = [OwnerSel::QName, OwnerSel::ZoneApex, OwnerSel::ParentApex, OwnerSel::InsecureName, OwnerSel::SiblingName];

#[derive(Clone, Copy, Debug, PartialEq, Eq, Hash, PartialOrd, Ord)]
pub enum Signedness {
    Unsigned,
    /// the published record of that owner/type with its published RRSIGs (only when it exists)
    Genuine,
    /// fabricated and signed with the attacker key (signer = zone of the owner, DNSKEY injected)
    Attacker,
}
pub const SIGNEDNESS: [Signedness; 3] = [Signedness::Unsigned, Signedness::Genuine, Signedness::Attacker];
pub const DENIAL_TYPES: [RecordType; 7] =
    [RecordType::SOA, RecordType::NS, RecordType::A, RecordType::NSEC, RecordType::NSEC3, RecordType::DS, RecordType::DNSKEY];

/// New owner of a re-owned genuine RRset, relative to the upstream query it is served for.
#[derive(Clone, Copy, Debug, PartialEq, Eq, Hash, PartialOrd, Ord)]
pub enum ReTarget {
    /// the name of the upstream query
    QName,
    /// the apex of a signed child zone of the answering zone (a secure delegation point)
    DelegationPoint,
    /// `www.<apex>`: an existing signed name
    ExistingName,
    /// the query name cut to one label below the apex of the answering zone
    NextCloser,
}
pub const RE_TARGETS: [ReTarget; 4] = [ReTarget::QName, ReTarget::DelegationPoint, ReTarget::ExistingName, ReTarget::NextCloser];

#[derive(Clone, Copy, Debug, PartialEq, Eq, Hash, PartialOrd, Ord)]
pub enum AlongOwner {
    Own,
    Stray,
    ParentApex,
    Sibling,
}
pub const ALONG_OWNERS: [AlongOwner; 4] = [AlongOwner::Own, AlongOwner::Stray, AlongOwner::ParentApex, AlongOwner::Sibling];

#[derive(Clone, Copy, Debug, PartialEq, Eq, Hash, PartialOrd, Ord)]
pub enum Move {
    /// answer := one attacker record of the query type at the query name, no RRSIG; authority
    /// cleared; rcode NOERROR
    ForgeUnsigned,
    /// as above, with an RRSIG made with the chosen key
    ForgeSignedBy(KeyChoice),
    /// (DS queries) answer := a DS naming an unsupported algorithm, unsigned / signed with a key
    ForgeUnsupportedDs(Option<KeyChoice>),
    StripAnswer,
    StripAuthority,
    StripBoth,
    /// rcode := NOERROR(0) / SERVFAIL(2) / NXDOMAIN(3)
    Rcode(u8),
    /// answer emptied, rcode NOERROR, authority := one record R (+ its RRSIGs)
    Denial { rtype: RecordType, owner: OwnerSel, signed: Signedness },
    /// answer := the zone's genuine wildcard RRset that would match the query name if nothing
    /// closer existed, re-owned to the query name, with its genuine RRSIGs; authority cleared
    /// (`with_proof` = false) or left as it is
    ReplayWildcard { with_authority: bool },
    /// the records (`sigs` = false) or the RRSIGs (`sigs` = true) of the first RRset of the answer
    /// section (else of the authority section) that has at least two of them are served in
    /// another order: `perm` = index into the non-identity permutations (all 5 for three records;
    /// reverse / rotations / neighbour swaps beyond that). Nothing is signed over the order.
    Reorder { sigs: bool, perm: u8 },
    /// replace-by-denial with a GENUINE signed RRset re-owned: the `src`-th signed RRset (in
    /// `reown_sources` order) of the zone that answers this query (`parent` = false) or of its
    /// parent zone, with its genuine RRSIGs, RDATA and signatures untouched, the owner of all its
    /// records and RRSIGs rewritten to `target`; served alone in the authority (or answer) section
    Reowned { parent: bool, src: u16, target: ReTarget, answer: bool },
    /// "inject alongside": the response stays INTACT and an attacker-made record is ADDED: a DS for
    /// the attacker key (digest over the real zone name of this position), the attacker DNSKEY, an
    /// NS or an A record, under the RRset's own owner (breaks the signature), a stray / foreign
    /// owner, the parent apex or a sibling name; unsigned or with an attacker RRSIG; into the
    /// answer or the authority section
    InjectAlongside { what: RecordType, owner: AlongOwner, signed: bool, authority: bool },
    /// (DNSKEY positions) the GENUINE, validly signed DNSKEY RRset of another zone of the hierarchy
    /// (0 = a secure child of the queried zone, 1 = its parent, 2 = a secure sibling) is appended
    /// to the intact answer
    InjectGenuineDnskeySet { which: u8 },
    /// (DNSKEY positions) the attacker key is ADDED to the genuine DNSKEY RRset and an attacker
    /// RRSIG over the WHOLE augmented set is added next to the genuine RRSIGs
    /// `key`: 0 = the injected attacker key, 1 = the REAL key of an owned secure sibling zone, 2 = of
    /// an owned secure child zone (key material placed under the queried zone's apex)
    AugmentDnskeySet { key: u8 },
    /// a GENUINE signed RRset of the answering zone (`parent` = false) or its parent zone, the
    /// `src`-th in `reown_sources` order, with its genuine RRSIGs and its OWN owner name, replayed
    /// into this response: instead of the answer (`alongside` = false) or next to it, in the answer
    /// or the authority section
    ReplayGenuine { parent: bool, src: u16, answer: bool, alongside: bool },
    /// answer emptied, rcode NXDOMAIN, authority := the zone's genuine SOA with its RRSIGs plus a
    /// forged, unsigned NSEC at the apex that spans the whole zone (apex -> apex)
    ForgedApexNsecWithGenuineSoa,
}

#[derive(Clone, Debug, PartialEq, Eq, Hash, PartialOrd, Ord)]
pub enum Fault {
    /// `rt` = type of the record at that position in the honest answer (part of the scene)
    Rec { q: Key, sec: u8, idx: u16, rt: RecordType, kind: RecFault },
    Resp { q: Key, mv: Move },
}

impl Fault {
    pub fn q(&self) -> &Key {
        match self {
            Fault::Rec { q, .. } | Fault::Resp { q, .. } => q,
        }
    }
    /// coarse kind used in scenes / keys (no positions, no indices)
    pub fn kind_tag(&self) -> String {
        match self {
            Fault::Rec { kind, .. } => match kind {
                RecFault::Drop => "drop-record".into(),
                RecFault::FlipBit => "flip-rdata-bit".into(),
                RecFault::MarkerRdata => "replace-rdata".into(),
                RecFault::ChangeOwner => "change-owner".into(),
                RecFault::RaiseTtl => "raise-ttl".into(),
                RecFault::StripRrsigs => "strip-rrsigs".into(),
                RecFault::Resign(k) => format!("resign-rrset({})", k.tag()),
                RecFault::InjectForeignClass { forged } => format!("inject-class-CH-record({})", if *forged { "new-rdata" } else { "copy" }),
            },
            Fault::Resp { mv, .. } => match mv {
                Move::ForgeUnsigned => "forge-unsigned".into(),
                Move::ForgeSignedBy(k) => format!("forge-signed-by({})", k.tag()),
                Move::ForgeUnsupportedDs(None) => "forge-unsupported-ds(unsigned)".into(),
                Move::ForgeUnsupportedDs(Some(k)) => format!("forge-unsupported-ds({})", k.tag()),
                Move::StripAnswer => "strip-answer".into(),
                Move::StripAuthority => "strip-authority".into(),
                Move::StripBoth => "strip-answer+authority".into(),
                Move::Rcode(c) => format!("rcode:={c}"),
                Move::Denial { rtype, owner, signed } => format!("replace-by-denial({rtype},{owner:?},{signed:?})"),
                Move::ForgedApexNsecWithGenuineSoa => "replace-by-forged-apex-nsec+genuine-soa".into(),
                Move::ReplayWildcard { with_authority } => format!("replay-genuine-wildcard(authority-kept={with_authority})"),
                Move::InjectAlongside { what, owner, signed, authority } => format!("inject-alongside({what},{owner:?},{},{})", if *signed { "attacker-signed" } else { "unsigned" }, if *authority { "authority" } else { "answer" }),
                Move::AugmentDnskeySet { key } => format!("augment-dnskey-set({})", ["injected-key", "owned-sibling-zone-key", "owned-child-zone-key"][*key as usize % 3]),
                Move::ReplayGenuine { parent, src, answer, alongside } => format!("replay-genuine-rrset({},#{src},{},{})", if *parent { "parent-zone" } else { "own-zone" }, if *answer { "answer" } else { "authority" }, if *alongside { "alongside" } else { "instead" }),
                Move::InjectGenuineDnskeySet { which } => format!("inject-genuine-dnskey-set-of({})", ["child", "parent", "sibling"][*which as usize % 3]),
                Move::Reorder { sigs, perm } => format!("reorder-{}(perm {perm})", if *sigs { "rrsigs" } else { "rrset" }),
                Move::Reowned { parent, src, target, answer } => {
                    format!("reowned-genuine-rrset({},#{src},{target:?},{})", if *parent { "parent-zone" } else { "own-zone" }, if *answer { "answer" } else { "authority" })
                }
            },
        }
    }
    pub fn uses_ancestor_key(&self) -> bool {
        matches!(
            self,
            Fault::Rec { kind: RecFault::Resign(KeyChoice::AncestorZone), .. }
                | Fault::Resp { mv: Move::ForgeSignedBy(KeyChoice::AncestorZone) | Move::ForgeUnsupportedDs(Some(KeyChoice::AncestorZone)), .. }
        )
    }
    /// coarse class used in violation keys: what kind of attacker action, without the details
    /// that do not matter for the mechanism
    pub fn class_tag(&self) -> String {
        fn kc(k: &KeyChoice) -> &'static str {
            match k {
                KeyChoice::SiblingZone | KeyChoice::ChildZone => "key-of-another-secure-zone",
                KeyChoice::AncestorZone => "ancestor-key",
                KeyChoice::AttackerSameZone => "injected-key",
                KeyChoice::AttackerOwnZone | KeyChoice::InsecureZone => "key-of-insecure-or-nonexistent-zone",
                KeyChoice::CollidingKey => "colliding-tag-key",
                KeyChoice::OwnedChildZoneKeyClaimingTarget | KeyChoice::OwnedSiblingZoneKeyClaimingTarget => "real-key-of-an-owned-zone,signer:=target-zone",
            }
        }
        match self {
            Fault::Rec { kind, rt, .. } => match kind {
                RecFault::RaiseTtl => "raise-ttl".into(),
                RecFault::Resign(k) => format!("resign({})", kc(k)),
                RecFault::Drop => format!("drop-record({rt})"),
                RecFault::FlipBit | RecFault::MarkerRdata => format!("change-rdata({rt})"),
                RecFault::ChangeOwner => format!("change-owner({rt})"),
                RecFault::StripRrsigs => format!("strip-rrsigs({rt})"),
                RecFault::InjectForeignClass { .. } => format!("inject-class-CH-record({rt})"),
            },
            Fault::Resp { mv, .. } => match mv {
                Move::ForgeUnsigned => "forge-unsigned".into(),
                Move::ForgeSignedBy(k) => format!("forge-signed({})", kc(k)),
                Move::ForgeUnsupportedDs(None) => "forge-unsupported-ds(unsigned)".into(),
                Move::ForgeUnsupportedDs(Some(k)) => format!("forge-unsupported-ds({})", kc(k)),
                Move::StripAnswer | Move::StripAuthority | Move::StripBoth => "strip-section".into(),
                Move::Rcode(_) => "swap-rcode".into(),
                Move::Denial { rtype, owner, signed } => {
                    if *owner == OwnerSel::InsecureName {
                        // whatever its type or signature: a record that belongs to an insecure zone
                        return "inject-record-of-insecure-zone".into();
                    }
                    let tc = match rtype {
                        RecordType::NSEC | RecordType::NSEC3 => "NSEC*",
                        RecordType::DS | RecordType::DNSKEY => "DS/DNSKEY",
                        _ => "SOA/NS/A",
                    };
                    format!("inject({tc},{signed:?})")
                }
                Move::ForgedApexNsecWithGenuineSoa => "forged-apex-nsec+genuine-soa".into(),
                Move::ReplayWildcard { .. } => "replay-genuine-wildcard".into(),
                Move::Reorder { sigs, .. } => if *sigs { "reorder-rrsigs".into() } else { "reorder-rrset".into() },
                // the type class of the source is added by `Script::scene_tag`
                Move::Reowned { .. } => "reowned-genuine-rrset".into(),
                Move::InjectAlongside { what, owner, .. } => format!("inject-alongside({what},{})", if *owner == AlongOwner::Own { "own-owner" } else { "foreign-owner" }),
                Move::AugmentDnskeySet { key: 0 } => "augment-dnskey-set(attacker-key,self-signed)".into(),
                Move::AugmentDnskeySet { .. } => "augment-dnskey-set(real-key-of-an-owned-zone,self-signed)".into(),
                // the type class of the source is added by the scene
                Move::ReplayGenuine { alongside, .. } => format!("replay-genuine-rrset-of-other-owner({})", if *alongside { "alongside" } else { "instead" }),
                Move::InjectGenuineDnskeySet { .. } => "inject-genuine-dnskey-set-of-another-zone".into(),
            },
        }
    }
    pub fn to_json(&self) -> Value {
        match self {
            Fault::Rec { q, sec, idx, rt, kind } => json!({"at": {"name": q.0, "type": q.1}, "section": sec, "index": idx, "record_type": u16::from(*rt), "record_fault": self.kind_tag(), "k": match kind { RecFault::Resign(k) => k.tag(), _ => "" }}),
            Fault::Resp { q, mv } => {
                let mut v = json!({"at": {"name": q.0, "type": q.1}, "move": self.kind_tag()});
                match mv {
                    Move::ForgeSignedBy(k) | Move::ForgeUnsupportedDs(Some(k)) => v["k"] = json!(k.tag()),
                    Move::Rcode(c) => v["rcode"] = json!(c),
                    Move::Reorder { sigs, perm } => {
                        v["sigs"] = json!(sigs);
                        v["perm"] = json!(perm);
                    }
                    Move::ReplayGenuine { parent, src, answer, alongside } => {
                        v["parent"] = json!(parent);
                        v["src"] = json!(src);
                        v["answer"] = json!(answer);
                        v["alongside"] = json!(alongside);
                    }
                    Move::InjectAlongside { what, owner, signed, authority } => {
                        v["what"] = json!(u16::from(*what));
                        v["along_owner"] = json!(format!("{owner:?}"));
                        v["signed"] = json!(signed);
                        v["authority"] = json!(authority);
                    }
                    Move::Reowned { parent, src, target, answer } => {
                        v["parent"] = json!(parent);
                        v["src"] = json!(src);
                        v["target"] = json!(format!("{target:?}"));
                        v["answer"] = json!(answer);
                    }
                    Move::Denial { rtype, owner, signed } => {
                        v["rtype"] = json!(u16::from(*rtype));
                        v["owner"] = json!(format!("{owner:?}"));
                        v["signed"] = json!(format!("{signed:?}"));
                    }
                    _ => {}
                }
                v
            }
        }
    }
    pub fn from_json(v: &Value) -> Option<Fault> {
        let q = (v["at"]["name"].as_str()?.to_string(), v["at"]["type"].as_u64()? as u16);
        let k = || KeyChoice::from_tag(v["k"].as_str().unwrap_or(""));
        if let Some(rf) = v.get("record_fault").and_then(|x| x.as_str()) {
            let kind = match rf {
                "drop-record" => RecFault::Drop,
                "flip-rdata-bit" => RecFault::FlipBit,
                "replace-rdata" => RecFault::MarkerRdata,
                "change-owner" => RecFault::ChangeOwner,
                "raise-ttl" => RecFault::RaiseTtl,
                "strip-rrsigs" => RecFault::StripRrsigs,
                "inject-class-CH-record(copy)" => RecFault::InjectForeignClass { forged: false },
                "inject-class-CH-record(new-rdata)" => RecFault::InjectForeignClass { forged: true },
                _ => RecFault::Resign(k()?),
            };
            return Some(Fault::Rec { q, sec: v["section"].as_u64()? as u8, idx: v["index"].as_u64()? as u16, rt: RecordType::from(v["record_type"].as_u64().unwrap_or(0) as u16), kind });
        }
        let mv = v["move"].as_str()?;
        let mv = if mv == "forge-unsigned" {
            Move::ForgeUnsigned
        } else if mv.starts_with("forge-signed-by") {
            Move::ForgeSignedBy(k()?)
        } else if mv.starts_with("forge-unsupported-ds") {
            Move::ForgeUnsupportedDs(k())
        } else if mv == "strip-answer" {
            Move::StripAnswer
        } else if mv == "strip-authority" {
            Move::StripAuthority
        } else if mv == "strip-answer+authority" {
            Move::StripBoth
        } else if mv.starts_with("rcode") {
            Move::Rcode(v["rcode"].as_u64()? as u8)
        } else if mv == "replace-by-forged-apex-nsec+genuine-soa" {
            Move::ForgedApexNsecWithGenuineSoa
        } else if mv.starts_with("inject-alongside") {
            let owner = ALONG_OWNERS.into_iter().find(|o| format!("{o:?}") == v["along_owner"].as_str().unwrap_or(""))?;
            Move::InjectAlongside { what: RecordType::from(v["what"].as_u64()? as u16), owner, signed: v["signed"].as_bool()?, authority: v["authority"].as_bool()? }
        } else if mv.starts_with("augment-dnskey-set") {
            Move::AugmentDnskeySet { key: if mv.contains("sibling") { 1 } else if mv.contains("child") { 2 } else { 0 } }
        } else if mv.starts_with("replay-genuine-rrset(") {
            Move::ReplayGenuine { parent: v["parent"].as_bool()?, src: v["src"].as_u64()? as u16, answer: v["answer"].as_bool()?, alongside: v["alongside"].as_bool()? }
        } else if mv.starts_with("inject-genuine-dnskey-set-of") {
            Move::InjectGenuineDnskeySet { which: if mv.contains("child") { 0 } else if mv.contains("parent") { 1 } else { 2 } }
        } else if mv.starts_with("reowned-genuine-rrset") {
            let target = RE_TARGETS.into_iter().find(|o| format!("{o:?}") == v["target"].as_str().unwrap_or(""))?;
            Move::Reowned { parent: v["parent"].as_bool()?, src: v["src"].as_u64()? as u16, target, answer: v["answer"].as_bool()? }
        } else if mv.starts_with("reorder-") {
            Move::Reorder { sigs: v["sigs"].as_bool().unwrap_or(false), perm: v["perm"].as_u64()? as u8 }
        } else if mv.starts_with("replay-genuine-wildcard") {
            Move::ReplayWildcard { with_authority: mv.contains("=true") }
        } else {
            let owner = OWNER_SELS.into_iter().find(|o| format!("{o:?}") == v["owner"].as_str().unwrap_or(""))?;
            let signed = SIGNEDNESS.into_iter().find(|o| format!("{o:?}") == v["signed"].as_str().unwrap_or(""))?;
            Move::Denial { rtype: RecordType::from(v["rtype"].as_u64()? as u16), owner, signed }
        };
        Some(Fault::Resp { q, mv })
    }
}

// ------------------------------------------------------------------------------------------
// attacker material

fn window() -> SigSpec {
    SigSpec::window(T0 as u32 - 3600, T0 as u32 + 86_400)
}

fn attacker_key(choice: KeyChoice, signer: &Name) -> ZoneKey {
    let mat = match choice {
        KeyChoice::AttackerSameZone => keys::ED[10],
        KeyChoice::AttackerOwnZone => keys::ED[11],
        _ => keys::ED[12],
    };
    ZoneKey::new(mat, signer, F_KSK)
}

fn sign_with(records: &[Record], key: &ZoneKey) -> Record {
    let sk = key.mat.shared();
    sign::sign_rrset(records, key, &**sk, &window())
}

/// (signer zone key, DNSKEY injection to register) for signing a record owned by `owner`
/// (publishing zone index `tz`) with `choice`; `None` when the hierarchy has no such key.
fn resolve_key(hier: &Hier, choice: KeyChoice, tz: usize) -> Option<(ZoneKey, Option<Injection>)> {
    let h = &hier.h;
    let torigin = &h.zones[tz].origin;
    match choice {
        KeyChoice::SiblingZone => {
            let z = h.zones.iter().find(|z| {
                z.signed() && !z.origin.zone_of(torigin) && !torigin.zone_of(&z.origin) && hier.status(&z.origin, RecordType::SOA) == Status::Secure
            })?;
            Some((z.keys[0].clone(), None))
        }
        KeyChoice::ChildZone => {
            let z = h.zones.iter().find(|z| z.signed() && z.origin != *torigin && torigin.zone_of(&z.origin) && hier.status(&z.origin, RecordType::SOA) == Status::Secure)?;
            Some((z.keys[0].clone(), None))
        }
        KeyChoice::AncestorZone => {
            if torigin.is_root() {
                return None;
            }
            let p = h.deepest(&torigin.base_name())?;
            let z = &h.zones[p];
            if !z.signed() {
                return None;
            }
            Some((z.keys[0].clone(), None))
        }
        KeyChoice::AttackerSameZone => {
            let k = attacker_key(choice, torigin);
            Some((k.clone(), Some(Injection { at: key_of(torigin, RecordType::DNSKEY), key: k, genuine_set_of: None, replace: false })))
        }
        KeyChoice::AttackerOwnZone => {
            let signer = vsec::n("atk.");
            let k = attacker_key(choice, &signer);
            Some((k.clone(), Some(Injection { at: key_of(&signer, RecordType::DNSKEY), key: k, genuine_set_of: None, replace: true })))
        }
        KeyChoice::OwnedChildZoneKeyClaimingTarget | KeyChoice::OwnedSiblingZoneKeyClaimingTarget => {
            let child = choice == KeyChoice::OwnedChildZoneKeyClaimingTarget;
            let (zi, z) = h.zones.iter().enumerate().find(|(_, z)| {
                z.signed()
                    && z.origin != *torigin
                    && hier.status(&z.origin, RecordType::SOA) == Status::Secure
                    && if child { torigin.zone_of(&z.origin) } else { !torigin.zone_of(&z.origin) && !z.origin.zone_of(torigin) }
            })?;
            // the owned zone's real key material, presented as if it were a key of the target zone
            let k = ZoneKey::new(z.keys[0].mat, torigin, z.keys[0].flags);
            Some((k.clone(), Some(Injection { at: key_of(torigin, RecordType::DNSKEY), key: k, genuine_set_of: Some(zi), replace: false })))
        }
        KeyChoice::CollidingKey => {
            let z = &h.zones[tz];
            if z.keys.first().map(|k| k.mat.id) != Some("tag0") {
                return None;
            }
            let k = ZoneKey::new(keys::TAG[1], torigin, z.keys[0].flags);
            assert_eq!(k.tag(), z.keys[0].tag(), "colliding key tags differ");
            Some((k.clone(), Some(Injection { at: key_of(torigin, RecordType::DNSKEY), key: k, genuine_set_of: None, replace: true })))
        }
        KeyChoice::InsecureZone => {
            let iname = hier.insecure_name.as_ref()?;
            let zi = h.deepest(iname)?;
            let signer = h.zones[zi].origin.clone();
            if signer == *torigin {
                return None;
            }
            let k = attacker_key(choice, &signer);
            Some((k.clone(), Some(Injection { at: key_of(&signer, RecordType::DNSKEY), key: k, genuine_set_of: None, replace: true })))
        }
    }
}

#[derive(Clone, Debug)]
pub struct Injection {
    pub at: Key,
    pub key: ZoneKey,
    /// Some(zone index): instead of an attacker key, the GENUINE published DNSKEY RRset of that
    /// zone with its genuine RRSIGs is appended
    pub genuine_set_of: Option<usize>,
    /// true: the whole answer becomes the attacker's self-signed DNSKEY set; false: the attacker's
    /// DNSKEY is appended (unsigned) to the honest answer
    pub replace: bool,
}

fn marker_rdata(t: RecordType, owner: &Name, hier: &Hier) -> RData {
    match t {
        RecordType::A => RData::A(A::new(6, 6, 6, 6)),
        RecordType::AAAA => RData::AAAA(AAAA::new(0x2001, 0xdb8, 0, 0, 0, 0, 0, 0x666)),
        RecordType::NS => RData::NS(NS(vsec::n("evil.atk."))),
        RecordType::TXT => RData::TXT(TXT::new(vec!["evil".into()])),
        RecordType::SOA => RData::SOA(SOA::new(vsec::n("evil.atk."), vsec::n("h.atk."), 666, 1, 1, 1, 300)),
        RecordType::DS => {
            // a DS that matches the attacker's same-zone key for `owner`
            let k = attacker_key(KeyChoice::AttackerSameZone, owner);
            let dk = k.dnskey();
            let digest = dk.to_digest(owner, DigestType::SHA256).unwrap();
            RData::DNSSEC(DNSSECRData::DS(DS::new(k.tag(), k.mat.alg, DigestType::SHA256, digest.as_ref().to_vec())))
        }
        RecordType::DNSKEY => RData::DNSSEC(DNSSECRData::DNSKEY(attacker_key(KeyChoice::AttackerSameZone, owner).dnskey())),
        RecordType::NSEC => {
            let next = Name::from_labels(vec![&[0u8][..]]).unwrap().append_domain(owner).unwrap_or_else(|_| owner.clone());
            RData::DNSSEC(DNSSECRData::NSEC(NSEC::new(next, [RecordType::A, RecordType::RRSIG, RecordType::NSEC])))
        }
        RecordType::NSEC3 => RData::DNSSEC(DNSSECRData::NSEC3(NSEC3::new(Nsec3HashAlgorithm::SHA1, true, 1, vec![0xab], vec![0xff; 20], [RecordType::A]))),
        _ => {
            let _ = hier;
            RData::TXT(TXT::new(vec!["evil".into()]))
        }
    }
}

/// The non-identity orders of `n` records that are enumerated: all of them up to n = 3; reverse,
/// the two rotations and the swaps of the first / last two beyond that.
pub fn permutations_of(n: usize) -> Vec<Vec<usize>> {
    let id: Vec<usize> = (0..n).collect();
    let mut out: Vec<Vec<usize>> = vec![];
    if n <= 3 {
        fn rec(cur: &mut Vec<usize>, n: usize, out: &mut Vec<Vec<usize>>) {
            if cur.len() == n {
                out.push(cur.clone());
                return;
            }
            for i in 0..n {
                if !cur.contains(&i) {
                    cur.push(i);
                    rec(cur, n, out);
                    cur.pop();
                }
            }
        }
        rec(&mut vec![], n, &mut out);
    } else {
        let mut rev = id.clone();
        rev.reverse();
        let mut r1 = id.clone();
        r1.rotate_left(1);
        let mut r2 = id.clone();
        r2.rotate_right(1);
        let mut s1 = id.clone();
        s1.swap(0, 1);
        let mut s2 = id.clone();
        s2.swap(n - 2, n - 1);
        out.extend([rev, r1, r2, s1, s2]);
    }
    out.retain(|p| *p != id);
    out.dedup();
    out
}

fn is_rrsig_covering(r: &Record, owner: &Name, t: RecordType) -> bool {
    match &r.data {
        RData::DNSSEC(DNSSECRData::RRSIG(s)) => r.name == *owner && s.input().type_covered == t,
        _ => false,
    }
}

fn section_mut(m: &mut Message, sec: u8) -> &mut Vec<Record> {
    match sec {
        0 => &mut m.answers,
        1 => &mut m.authorities,
        _ => &mut m.additionals,
    }
}

// ------------------------------------------------------------------------------------------

pub struct Script {
    pub hier: Arc<Hier>,
    pub faults: Vec<Fault>,
    injections: Mutex<Vec<Injection>>,
    /// set when a fault could not be applied as described (position vanished, key not available)
    pub inapplicable: Mutex<bool>,
}

impl Script {
    pub fn new(hier: Arc<Hier>, faults: Vec<Fault>) -> Self {
        Script { hier, faults, injections: Mutex::new(vec![]), inapplicable: Mutex::new(false) }
    }

    fn register(&self, inj: Option<Injection>) {
        if let Some(i) = inj {
            let mut g = self.injections.lock().unwrap();
            if !g.iter().any(|x| x.at == i.at && x.key.mat == i.key.mat) {
                g.push(i);
            }
        }
    }

    fn publishing_zone(&self, owner: &Name, t: RecordType) -> usize {
        self.hier.h.zone_for(owner, t).unwrap_or(0)
    }

    fn owner_of(&self, sel: OwnerSel, q: &Query) -> Option<Name> {
        let h = &self.hier.h;
        let zi = h.zone_for(&q.name, q.query_type)?;
        let apex = h.zones[zi].origin.clone();
        match sel {
            OwnerSel::QName => Some(q.name.clone()),
            OwnerSel::ZoneApex => Some(apex),
            OwnerSel::ParentApex => {
                if apex.is_root() {
                    None
                } else {
                    Some(h.zones[h.deepest(&apex.base_name())?].origin.clone())
                }
            }
            OwnerSel::InsecureName => self.hier.insecure_name.clone(),
            OwnerSel::SiblingName => self.hier.sibling_name.clone(),
        }
    }

    /// The signed RRsets (owner, type) of zone `zi` in a fixed order.
    pub fn reown_sources(&self, zi: usize) -> Vec<(Name, RecordType)> {
        let z = &self.hier.h.zones[zi];
        let mut v: Vec<(Name, RecordType)> = z
            .published
            .iter()
            .filter(|r| r.record_type() != RecordType::RRSIG)
            .filter(|r| z.published.iter().any(|s| is_rrsig_covering(s, &r.name, r.record_type())))
            .map(|r| (r.name.clone(), r.record_type()))
            .collect();
        v.sort_by(|a, b| (a.0.to_ascii(), u16::from(a.1)).cmp(&(b.0.to_ascii(), u16::from(b.1))));
        v.dedup();
        v
    }

    /// (source zone, (owner, type) of the source RRset, new owner) of a `Reowned` move at `q`
    pub fn reowned_parts(&self, q: &Query, parent: bool, src: u16, target: ReTarget) -> Option<(usize, (Name, RecordType), Name)> {
        let h = &self.hier.h;
        let zq = h.zone_for(&q.name, q.query_type)?;
        let apex = h.zones[zq].origin.clone();
        let zs = if parent {
            if apex.is_root() {
                return None;
            }
            h.deepest(&apex.base_name())?
        } else {
            zq
        };
        if !h.zones[zs].signed() {
            return None;
        }
        let source = self.reown_sources(zs).get(src as usize)?.clone();
        let new_owner = match target {
            ReTarget::QName => q.name.clone(),
            ReTarget::DelegationPoint => h.zones.iter().find(|z| z.signed() && z.origin != apex && apex.zone_of(&z.origin) && z.origin.num_labels() == apex.num_labels() + 1)?.origin.clone(),
            ReTarget::ExistingName => Name::from_ascii("www").unwrap().append_domain(&apex).ok()?,
            ReTarget::NextCloser => {
                let want = apex.num_labels() as usize + 1;
                if (q.name.num_labels() as usize) <= want {
                    return None;
                }
                q.name.trim_to(want)
            }
        };
        if new_owner == source.0 {
            return None;
        }
        Some((zs, source, new_owner))
    }

    /// Is this move applicable at this query in this hierarchy (so that the enumeration does not
    /// count no-ops)? Mirrors `apply_move`.
    pub fn move_applicable(&self, q: &Query, mv: &Move) -> bool {
        let mut m = Message::response(0, hickory_proto::op::OpCode::Query);
        m.add_query(q.clone());
        self.apply_move(q, &mut m, mv, true)
    }

    fn forged(&self, q: &Query, unsupported_ds: bool) -> Record {
        let data = if unsupported_ds {
            RData::DNSSEC(DNSSECRData::DS(DS::new(4711, Algorithm::Unknown(200), DigestType::SHA256, vec![0x66; 32])))
        } else {
            marker_rdata(q.query_type, &q.name, &self.hier)
        };
        Record::from_rdata(q.name.clone(), 300, data)
    }

    /// returns false if the move cannot be applied (no such key / owner / published record)
    fn apply_move(&self, q: &Query, m: &mut Message, mv: &Move, dry: bool) -> bool {
        match mv {
            Move::ForgeUnsigned | Move::ForgeSignedBy(_) | Move::ForgeUnsupportedDs(_) => {
                let (unsupported, by) = match mv {
                    Move::ForgeUnsigned => (false, None),
                    Move::ForgeSignedBy(k) => (false, Some(*k)),
                    Move::ForgeUnsupportedDs(k) => (true, *k),
                    _ => unreachable!(),
                };
                if unsupported && q.query_type != RecordType::DS {
                    return false;
                }
                if matches!(q.query_type, RecordType::ANY | RecordType::RRSIG) {
                    return false;
                }
                let rec = self.forged(q, unsupported);
                let mut an = vec![rec.clone()];
                if let Some(choice) = by {
                    let tz = self.publishing_zone(&q.name, q.query_type);
                    let Some((key, inj)) = resolve_key(&self.hier, choice, tz) else { return false };
                    if !dry {
                        an.push(sign_with(&[rec], &key));
                        self.register(inj);
                    }
                }
                if !dry {
                    m.answers = an;
                    m.authorities.clear();
                    m.additionals.clear();
                    m.metadata.response_code = ResponseCode::NoError;
                }
                true
            }
            Move::StripAnswer => {
                m.answers.clear();
                true
            }
            Move::StripAuthority => {
                m.authorities.clear();
                true
            }
            Move::StripBoth => {
                m.answers.clear();
                m.authorities.clear();
                true
            }
            Move::Rcode(c) => {
                m.metadata.response_code = ResponseCode::from(0, *c);
                true
            }
            Move::InjectAlongside { what, owner, signed, authority } => {
                let h = &self.hier.h;
                // the zone this position is about: for a DS / DNSKEY query the queried name, else the
                // apex of the answering zone
                let zname = if matches!(q.query_type, RecordType::DS | RecordType::DNSKEY) { q.name.clone() } else { h.zones[self.publishing_zone(&q.name, q.query_type)].origin.clone() };
                let new_owner = match owner {
                    AlongOwner::Own => q.name.clone(),
                    AlongOwner::Stray => vsec::n("stray."),
                    AlongOwner::ParentApex => {
                        if zname.is_root() {
                            return false;
                        }
                        match h.deepest(&zname.base_name()) {
                            Some(z) => h.zones[z].origin.clone(),
                            None => return false,
                        }
                    }
                    AlongOwner::Sibling => match self.hier.sibling_name.clone().or_else(|| self.hier.insecure_name.clone()) {
                        Some(n) => n,
                        None => return false,
                    },
                };
                if dry {
                    return true;
                }
                // DS / DNSKEY material always belongs to the attacker key for `zname`
                let mut rec = Record::from_rdata(new_owner.clone(), 300, marker_rdata(*what, &zname, &self.hier));
                rec.name = new_owner.clone();
                let mut recs = vec![rec.clone()];
                if *signed {
                    let tz = self.publishing_zone(&new_owner, *what);
                    if let Some((key, inj)) = resolve_key(&self.hier, KeyChoice::AttackerSameZone, tz) {
                        recs.push(sign_with(&[rec], &key));
                        self.register(inj);
                    }
                }
                let sec = if *authority { &mut m.authorities } else { &mut m.answers };
                // in front of the RRSIGs of an equally owned / typed RRset, else at the end
                let pos = sec.iter().position(|r| r.record_type() == RecordType::RRSIG).unwrap_or(sec.len());
                for (i, r) in recs.into_iter().enumerate() {
                    sec.insert((pos + i).min(sec.len()), r);
                }
                true
            }
            Move::InjectGenuineDnskeySet { which } => {
                if q.query_type != RecordType::DNSKEY {
                    return false;
                }
                let h = &self.hier.h;
                let me = &q.name;
                let z = match which % 3 {
                    0 => h.zones.iter().find(|z| z.signed() && z.origin != *me && me.zone_of(&z.origin)),
                    1 => {
                        if me.is_root() {
                            None
                        } else {
                            h.deepest(&me.base_name()).map(|i| &h.zones[i]).filter(|z| z.signed())
                        }
                    }
                    _ => h.zones.iter().find(|z| z.signed() && z.origin != *me && !me.zone_of(&z.origin) && !z.origin.zone_of(me)),
                };
                let Some(z) = z else { return false };
                if !dry {
                    for r in z.published.iter().filter(|r| r.name == z.origin && (r.record_type() == RecordType::DNSKEY || is_rrsig_covering(r, &z.origin, RecordType::DNSKEY))) {
                        m.answers.push(r.clone());
                    }
                }
                true
            }
            Move::ReplayGenuine { parent, src, answer, alongside } => {
                let h = &self.hier.h;
                let Some(zq) = h.zone_for(&q.name, q.query_type) else { return false };
                let zs = if *parent {
                    let apex = &h.zones[zq].origin;
                    if apex.is_root() {
                        return false;
                    }
                    match h.deepest(&apex.base_name()) {
                        Some(z) => z,
                        None => return false,
                    }
                } else {
                    zq
                };
                let Some((so, st)) = self.reown_sources(zs).get(*src as usize).cloned() else { return false };
                if so == q.name && st == q.query_type {
                    return false; // that is the honest answer itself
                }
                if dry {
                    return true;
                }
                let recs: Vec<Record> = h.zones[zs].published.iter().filter(|r| r.name == so && (r.record_type() == st || is_rrsig_covering(r, &so, st))).cloned().collect();
                if !*alongside {
                    m.answers.clear();
                    m.authorities.clear();
                    m.additionals.clear();
                    m.metadata.response_code = ResponseCode::NoError;
                }
                if *answer {
                    m.answers.extend(recs);
                } else {
                    m.authorities.extend(recs);
                }
                true
            }
            Move::AugmentDnskeySet { key: which } => {
                if q.query_type != RecordType::DNSKEY {
                    return false;
                }
                let key = match which % 3 {
                    0 => attacker_key(KeyChoice::AttackerSameZone, &q.name),
                    w => {
                        let Some(tz) = self.hier.h.zone_index(&q.name) else { return false };
                        let choice = if w == 1 { KeyChoice::OwnedSiblingZoneKeyClaimingTarget } else { KeyChoice::OwnedChildZoneKeyClaimingTarget };
                        match resolve_key(&self.hier, choice, tz) {
                            Some((k, _)) => k,
                            None => return false,
                        }
                    }
                };
                let extra = sign::dnskey_record(&q.name, 300, key.dnskey());
                let mut set: Vec<Record> = m.answers.iter().filter(|r| r.name == q.name && r.record_type() == RecordType::DNSKEY).cloned().collect();
                if set.is_empty() && !dry {
                    return false;
                }
                if dry {
                    return true;
                }
                set.push(extra.clone());
                let sig = sign_with(&set, &key);
                let pos = m.answers.iter().position(|r| r.record_type() == RecordType::RRSIG).unwrap_or(m.answers.len());
                m.answers.insert(pos, extra);
                m.answers.push(sig);
                true
            }
            Move::Reowned { parent, src, target, answer } => {
                let Some((zs, (so, st), new_owner)) = self.reowned_parts(q, *parent, *src, *target) else { return false };
                if dry {
                    return true;
                }
                let mut recs: Vec<Record> = self.hier.h.zones[zs].published.iter().filter(|r| r.name == so && (r.record_type() == st || is_rrsig_covering(r, &so, st))).cloned().collect();
                for r in recs.iter_mut() {
                    r.name = new_owner.clone();
                }
                m.additionals.clear();
                m.metadata.response_code = ResponseCode::NoError;
                if *answer {
                    m.answers = recs;
                    m.authorities.clear();
                } else {
                    m.answers.clear();
                    m.authorities = recs;
                }
                true
            }
            Move::Reorder { sigs, perm } => {
                for sec in 0..2u8 {
                    let recs = section_mut(m, sec);
                    // first RRset (owner, type / type covered) with >= 2 members of the wanted kind
                    let keyof = |r: &Record| -> Option<(Name, RecordType)> {
                        match (&r.data, *sigs) {
                            (RData::DNSSEC(DNSSECRData::RRSIG(s)), true) => Some((r.name.clone(), s.input().type_covered)),
                            (RData::DNSSEC(DNSSECRData::RRSIG(_)), false) => None,
                            (_, false) => Some((r.name.clone(), r.record_type())),
                            (_, true) => None,
                        }
                    };
                    let mut target = None;
                    for r in recs.iter() {
                        if let Some(k) = keyof(r) {
                            if recs.iter().filter(|x| keyof(x).as_ref() == Some(&k)).count() >= 2 {
                                target = Some(k);
                                break;
                            }
                        }
                    }
                    let Some(k) = target else { continue };
                    let idxs: Vec<usize> = recs.iter().enumerate().filter(|(_, x)| keyof(x).as_ref() == Some(&k)).map(|(i, _)| i).collect();
                    let perms = permutations_of(idxs.len());
                    let Some(p) = perms.get(*perm as usize) else { return false };
                    if !dry {
                        let old: Vec<Record> = idxs.iter().map(|i| recs[*i].clone()).collect();
                        for (slot, from) in idxs.iter().zip(p.iter()) {
                            recs[*slot] = old[*from].clone();
                        }
                    }
                    return true;
                }
                false
            }
            Move::ReplayWildcard { with_authority } => {
                let Some(zi) = self.hier.h.zone_for(&q.name, q.query_type) else { return false };
                let z = &self.hier.h.zones[zi];
                // the closest published wildcard of the query type whose parent encloses the name
                let Some(star) = z
                    .published
                    .iter()
                    .filter(|r| r.record_type() == q.query_type && r.name.is_wildcard() && r.name.base_name().zone_of(&q.name) && r.name != q.name)
                    .map(|r| r.name.clone())
                    .max_by_key(|n| n.num_labels())
                else {
                    return false;
                };
                let mut recs: Vec<Record> = z.published.iter().filter(|r| r.name == star && (r.record_type() == q.query_type || is_rrsig_covering(r, &star, q.query_type))).cloned().collect();
                if !recs.iter().any(|r| r.record_type() == RecordType::RRSIG) {
                    return false;
                }
                for r in recs.iter_mut() {
                    r.name = q.name.clone();
                }
                if !dry {
                    m.answers = recs;
                    m.metadata.response_code = ResponseCode::NoError;
                    if !*with_authority {
                        m.authorities.clear();
                    }
                }
                true
            }
            Move::ForgedApexNsecWithGenuineSoa => {
                let Some(zi) = self.hier.h.zone_for(&q.name, q.query_type) else { return false };
                let z = &self.hier.h.zones[zi];
                if !z.signed() {
                    return false;
                }
                let apex = z.origin.clone();
                let mut recs: Vec<Record> = z.published.iter().filter(|r| r.name == apex && (r.record_type() == RecordType::SOA || is_rrsig_covering(r, &apex, RecordType::SOA))).cloned().collect();
                if recs.is_empty() {
                    return false;
                }
                recs.push(Record::from_rdata(
                    apex.clone(),
                    300,
                    RData::DNSSEC(DNSSECRData::NSEC(NSEC::new(apex.clone(), [RecordType::NS, RecordType::SOA, RecordType::RRSIG, RecordType::NSEC, RecordType::DNSKEY]))),
                ));
                if !dry {
                    m.answers.clear();
                    m.additionals.clear();
                    m.authorities = recs;
                    m.metadata.response_code = ResponseCode::NXDomain;
                }
                true
            }
            Move::Denial { rtype, owner, signed } => {
                let Some(o) = self.owner_of(*owner, q) else { return false };
                let recs: Vec<Record> = match signed {
                    Signedness::Genuine => {
                        // the published RRset of that owner/type with its published RRSIGs
                        let tz = self.publishing_zone(&o, *rtype);
                        let z = &self.hier.h.zones[tz];
                        let v: Vec<Record> = z.published.iter().filter(|r| r.name == o && (r.record_type() == *rtype || is_rrsig_covering(r, &o, *rtype))).cloned().collect();
                        if !v.iter().any(|r| r.record_type() == *rtype) || !v.iter().any(|r| r.record_type() == RecordType::RRSIG) {
                            return false;
                        }
                        v
                    }
                    Signedness::Unsigned => {
                        let o2 = if *rtype == RecordType::NSEC3 { match Name::from_ascii("0123456789abcdefghijklmnopqrstuv").unwrap().append_domain(&o) { Ok(x) => x, Err(_) => return false } } else { o.clone() };
                        vec![Record::from_rdata(o2.clone(), 300, marker_rdata(*rtype, &o2, &self.hier))]
                    }
                    Signedness::Attacker => {
                        let o2 = if *rtype == RecordType::NSEC3 { match Name::from_ascii("0123456789abcdefghijklmnopqrstuv").unwrap().append_domain(&o) { Ok(x) => x, Err(_) => return false } } else { o.clone() };
                        let rec = Record::from_rdata(o2.clone(), 300, marker_rdata(*rtype, &o2, &self.hier));
                        let tz = self.publishing_zone(&o2, *rtype);
                        let Some((key, inj)) = resolve_key(&self.hier, KeyChoice::AttackerSameZone, tz) else { return false };
                        if dry {
                            vec![rec]
                        } else {
                            self.register(inj);
                            let sig = sign_with(&[rec.clone()], &key);
                            vec![rec, sig]
                        }
                    }
                };
                if !dry {
                    m.answers.clear();
                    m.additionals.clear();
                    m.authorities = recs;
                    m.metadata.response_code = ResponseCode::NoError;
                }
                true
            }
        }
    }

    fn apply_rec(&self, m: &mut Message, sec: u8, idx: u16, kind: RecFault) -> bool {
        let idx = idx as usize;
        let Some(target) = section_mut(m, sec).get(idx).cloned() else { return false };
        // the RRset the record belongs to (for RRSIG records: the covered RRset)
        let (set_owner, set_type) = match &target.data {
            RData::DNSSEC(DNSSECRData::RRSIG(s)) => (target.name.clone(), s.input().type_covered),
            _ => (target.name.clone(), target.record_type()),
        };
        match kind {
            RecFault::Drop => {
                section_mut(m, sec).remove(idx);
            }
            RecFault::FlipBit => return true, // applied on the wire, see `apply`
            RecFault::MarkerRdata => {
                let new = match &target.data {
                    RData::DNSSEC(DNSSECRData::RRSIG(s)) => {
                        RData::DNSSEC(DNSSECRData::RRSIG(RRSIG::from_sig(s.input().clone(), vec![0x66; s.sig().len()])))
                    }
                    _ => marker_rdata(target.record_type(), &target.name, &self.hier),
                };
                section_mut(m, sec)[idx].data = new;
            }
            RecFault::ChangeOwner => {
                let new = if target.name.is_root() { vsec::n("zz.") } else { Name::from_ascii("zz").unwrap().append_domain(&target.name.base_name()).unwrap() };
                section_mut(m, sec)[idx].name = new;
            }
            RecFault::RaiseTtl => section_mut(m, sec)[idx].ttl = 86_400 * 365,
            RecFault::InjectForeignClass { forged } => {
                if target.record_type() == RecordType::RRSIG {
                    return false;
                }
                let mut extra = target.clone();
                extra.dns_class = hickory_proto::rr::DNSClass::CH;
                if forged {
                    extra.data = marker_rdata(target.record_type(), &target.name, &self.hier);
                }
                section_mut(m, sec).insert(idx + 1, extra);
            }
            RecFault::StripRrsigs => {
                let before = section_mut(m, sec).len();
                section_mut(m, sec).retain(|r| !is_rrsig_covering(r, &set_owner, set_type));
                if section_mut(m, sec).len() == before {
                    return false;
                }
            }
            RecFault::Resign(choice) => {
                if target.record_type() == RecordType::RRSIG {
                    return false; // addressed through a data record of the RRset
                }
                let tz = self.publishing_zone(&set_owner, set_type);
                let Some((key, inj)) = resolve_key(&self.hier, choice, tz) else { return false };
                let set: Vec<Record> = section_mut(m, sec).iter().filter(|r| r.name == set_owner && r.record_type() == set_type).cloned().collect();
                // only the first record of an RRset addresses the whole-set fault
                if section_mut(m, sec).iter().position(|r| r.name == set_owner && r.record_type() == set_type) != Some(idx) {
                    return false;
                }
                let sig = sign_with(&set, &key);
                self.register(inj);
                let s = section_mut(m, sec);
                s.retain(|r| !is_rrsig_covering(r, &set_owner, set_type));
                s.push(sig);
            }
        }
        true
    }
}

impl Tamper for Script {
    fn apply(&self, q: &Query, honest: Vec<u8>) -> Vec<u8> {
        let k = key_of(&q.name, q.query_type);
        let honest = self.hier.served(&k, honest);
        let mine: Vec<&Fault> = self.faults.iter().filter(|f| *f.q() == k).collect();
        let has_inj = self.injections.lock().unwrap().iter().any(|i| i.at == k);
        if mine.is_empty() && !has_inj && q.query_type != RecordType::DNSKEY {
            return honest;
        }
        let Ok(mut m) = Message::from_vec(&honest) else { return honest };
        let mut flips: Vec<(u8, u16)> = vec![];
        for f in &mine {
            let ok = match f {
                Fault::Resp { mv, .. } => self.apply_move(q, &mut m, mv, false),
                Fault::Rec { sec, idx, kind, .. } => {
                    if *kind == RecFault::FlipBit {
                        flips.push((*sec, *idx));
                    }
                    self.apply_rec(&mut m, *sec, *idx, *kind)
                }
            };
            if !ok {
                *self.inapplicable.lock().unwrap() = true;
            }
        }
        // DNSKEY injections registered by resign / forge faults (possibly by this very response)
        let inj: Vec<Injection> = self.injections.lock().unwrap().iter().filter(|i| i.at == k).cloned().collect();
        for i in inj {
            if let Some(zi) = i.genuine_set_of {
                // the owned zone's genuine DNSKEY RRset with its genuine RRSIGs rides along
                let z = &self.hier.h.zones[zi];
                for r in z.published.iter().filter(|r| r.name == z.origin && (r.record_type() == RecordType::DNSKEY || is_rrsig_covering(r, &z.origin, RecordType::DNSKEY))) {
                    if !m.answers.iter().any(|x| x.name == r.name && x.data == r.data) {
                        m.answers.push(r.clone());
                    }
                }
                continue;
            }
            let rec = sign::dnskey_record(&i.key.zone, 300, i.key.dnskey());
            if i.replace {
                let sig = sign_with(&[rec.clone()], &i.key);
                m.answers = vec![rec, sig];
                m.authorities.clear();
                m.additionals.clear();
                m.metadata.response_code = ResponseCode::NoError;
            } else if !m.answers.iter().any(|r| r.data == rec.data) {
                // in front of the RRSIGs, behind the honest keys
                let pos = m.answers.iter().position(|r| r.record_type() == RecordType::RRSIG).unwrap_or(m.answers.len());
                m.answers.insert(pos, rec);
            }
        }
        m.edns = None;
        if std::env::var("C07_REPLAY_TRACE").is_ok() {
            eprintln!("served for {} {}: rcode {}", q.name, q.query_type, m.metadata.response_code);
            for (s, v) in [("an", &m.answers), ("au", &m.authorities)] {
                for r in v.iter() {
                    eprintln!("   {s} {}", r.to_string().chars().take(110).collect::<String>());
                }
            }
        }
        let Ok(mut bytes) = m.to_vec() else { return honest };
        if !flips.is_empty() {
            if let Ok(w) = vref::wire::walk(&bytes) {
                for (sec, idx) in flips {
                    let s = match sec {
                        0 => &w.answers,
                        1 => &w.authorities,
                        _ => &w.additionals,
                    };
                    match s.get(idx as usize) {
                        Some(r) if r.rdata_end > r.rdata_start => {
                            // the middle byte of the RDATA, lowest bit
                            let p = r.rdata_start + (r.rdata_end - r.rdata_start) / 2;
                            bytes[p] ^= 1;
                        }
                        _ => *self.inapplicable.lock().unwrap() = true,
                    }
                }
            }
        }
        bytes
    }
}

// ------------------------------------------------------------------------------------------
// enumeration

/// All single faults at one upstream query whose honest answer is `honest`.
pub fn singles_at(script_probe: &Script, q: &Query, honest: &Message, thorough: bool) -> Vec<Fault> {
    let k = key_of(&q.name, q.query_type);
    let mut out = vec![];
    for (sec, recs) in [(0u8, &honest.answers), (1u8, &honest.authorities)] {
        for (idx, r) in recs.iter().enumerate() {
            let mut kinds = vec![RecFault::Drop, RecFault::FlipBit, RecFault::MarkerRdata, RecFault::ChangeOwner, RecFault::RaiseTtl];
            if r.record_type() != RecordType::RRSIG {
                kinds.push(RecFault::InjectForeignClass { forged: false });
                kinds.push(RecFault::InjectForeignClass { forged: true });
                let first = recs.iter().position(|x| x.name == r.name && x.record_type() == r.record_type()) == Some(idx);
                if first {
                    if recs.iter().any(|x| is_rrsig_covering(x, &r.name, r.record_type())) {
                        kinds.push(RecFault::StripRrsigs);
                    }
                    let tz = script_probe.publishing_zone(&r.name, r.record_type());
                    for c in KEY_CHOICES {
                        if resolve_key(&script_probe.hier, c, tz).is_some() {
                            kinds.push(RecFault::Resign(c));
                        }
                    }
                }
            }
            for kind in kinds {
                out.push(Fault::Rec { q: k.clone(), sec, idx: idx as u16, rt: r.record_type(), kind });
            }
        }
    }
    let mut moves = vec![Move::ReplayWildcard { with_authority: false }, Move::ReplayWildcard { with_authority: true }, Move::ForgedApexNsecWithGenuineSoa, Move::ForgeUnsigned, Move::ForgeUnsupportedDs(None), Move::StripAnswer, Move::StripAuthority, Move::StripBoth, Move::Rcode(0), Move::Rcode(2), Move::Rcode(3)];
    for c in KEY_CHOICES {
        moves.push(Move::ForgeSignedBy(c));
        moves.push(Move::ForgeUnsupportedDs(Some(c)));
    }
    for rtype in DENIAL_TYPES {
        for owner in OWNER_SELS {
            for signed in SIGNEDNESS {
                moves.push(Move::Denial { rtype, owner, signed });
            }
        }
    }
    // genuine signed RRsets re-owned. Quick: the NSEC/NSEC3 RRsets whose owner is a wildcard (the
    // ones a signature can be "reconstructed" for under another owner), the apex NSEC/NSEC3 /
    // the first NSEC3, and the SOA, into the authority section. Thorough: every NSEC/NSEC3 RRset
    // and one RRset of every other type, into the authority and into the answer section.
    for parent in [false, true] {
        let Some((zs, _, _)) = (0..64u16).find_map(|i| RE_TARGETS.into_iter().find_map(|t| script_probe.reowned_parts(q, parent, i, t))) else { continue };
        let sources = script_probe.reown_sources(zs);
        let apex = script_probe.hier.h.zones[zs].origin.clone();
        let mut seen_types: Vec<RecordType> = vec![];
        let mut first_nsec3 = true;
        for (i, (so, st)) in sources.iter().enumerate() {
            let is_nsec = matches!(st, RecordType::NSEC | RecordType::NSEC3);
            let pick = if is_nsec {
                let first3 = *st == RecordType::NSEC3 && std::mem::replace(&mut first_nsec3, false);
                thorough || so.is_wildcard() || *so == apex || first3
            } else {
                let first_of_type = !seen_types.contains(st);
                seen_types.push(*st);
                first_of_type && (thorough || *st == RecordType::SOA)
            };
            if !pick {
                continue;
            }
            let mut owners: Vec<Name> = vec![];
            for target in RE_TARGETS {
                let Some((_, _, no)) = script_probe.reowned_parts(q, parent, i as u16, target) else { continue };
                if owners.contains(&no) {
                    continue;
                }
                owners.push(no);
                for answer in [false, true] {
                    if answer && !thorough {
                        continue;
                    }
                    out.push(Fault::Resp { q: k.clone(), mv: Move::Reowned { parent, src: i as u16, target, answer } });
                }
            }
        }
    }
    // genuine RRsets of OTHER owners replayed with their own owner (the attacker owns a real,
    // correctly delegated zone: its genuine parent-signed DS RRset etc.). Quick: the RRsets of the
    // queried TYPE under other owners (e.g. the DS RRsets of the sibling delegations at a DS
    // position), into the answer section, instead of and next to the answer. Thorough: also into the
    // authority section.
    for parent in [false, true] {
        let h = &script_probe.hier.h;
        let Some(zq) = h.zone_for(&q.name, q.query_type) else { continue };
        let zs = if parent {
            if h.zones[zq].origin.is_root() {
                continue;
            }
            match h.deepest(&h.zones[zq].origin.base_name()) {
                Some(z) => z,
                None => continue,
            }
        } else {
            zq
        };
        if !h.zones[zs].signed() {
            continue;
        }
        let mut seen_types: Vec<RecordType> = vec![];
        for (i, (so, st)) in script_probe.reown_sources(zs).iter().enumerate() {
            if *so == q.name && *st == q.query_type {
                continue;
            }
            let same_type = *st == q.query_type;
            let first_of_type = !seen_types.contains(st);
            seen_types.push(*st);
            // (RRsets of OTHER types replayed under their own owner behave like the re-owned ones of
            // `Reowned`; only the queried type is enumerated, in both tiers)
            let _ = first_of_type;
            let pick = same_type;
            if !pick {
                continue;
            }
            for alongside in [false, true] {
                for answer in [true, false] {
                    if !answer && !thorough {
                        continue;
                    }
                    out.push(Fault::Resp { q: k.clone(), mv: Move::ReplayGenuine { parent, src: i as u16, answer, alongside } });
                }
            }
        }
    }
    // inject alongside. Quick: attacker DS / DNSKEY at the validator's query and at DS / DNSKEY
    // positions; thorough: DS / DNSKEY at every position, NS / A as well at DS / DNSKEY positions
    {
        let key_pos = matches!(q.query_type, RecordType::DS | RecordType::DNSKEY);
        let whats: Vec<RecordType> = if thorough && key_pos { vec![RecordType::DS, RecordType::DNSKEY, RecordType::NS, RecordType::A] } else if thorough || key_pos { vec![RecordType::DS, RecordType::DNSKEY] } else { vec![] };
        for what in whats {
            for owner in ALONG_OWNERS {
                for signed in [false, true] {
                    for authority in [false, true] {
                        let mv = Move::InjectAlongside { what, owner, signed, authority };
                        if script_probe.move_applicable(q, &mv) {
                            out.push(Fault::Resp { q: k.clone(), mv });
                        }
                    }
                }
            }
        }
        if q.query_type == RecordType::DNSKEY && honest.answers.iter().any(|r| r.record_type() == RecordType::DNSKEY) {
            for key in 0..3u8 {
                let mv = Move::AugmentDnskeySet { key };
                let mut probe = honest.clone();
                if script_probe.apply_move(q, &mut probe, &mv, true) {
                    out.push(Fault::Resp { q: k.clone(), mv });
                }
            }
            for which in 0..3u8 {
                let mv = Move::InjectGenuineDnskeySet { which };
                if script_probe.move_applicable(q, &mv) {
                    out.push(Fault::Resp { q: k.clone(), mv });
                }
            }
        }
    }
    for sigs in [false, true] {
        for perm in 0..5u8 {
            let mv = Move::Reorder { sigs, perm };
            let mut probe = honest.clone();
            if script_probe.apply_move(q, &mut probe, &mv, true) {
                out.push(Fault::Resp { q: k.clone(), mv });
            }
        }
    }
    for mv in moves {
        // skip no-ops: stripping an empty section, setting the rcode it already has
        let noop = match mv {
            Move::StripAnswer => honest.answers.is_empty(),
            Move::StripAuthority => honest.authorities.is_empty(),
            Move::StripBoth => honest.answers.is_empty() || honest.authorities.is_empty(),
            Move::Rcode(c) => honest.metadata.response_code.low() == c,
            _ => false,
        };
        if !noop && script_probe.move_applicable(q, &mv) {
            out.push(Fault::Resp { q: k.clone(), mv });
        }
    }
    out
}
