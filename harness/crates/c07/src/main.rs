//! C07 — validating resolver: Secure implies an unbroken chain to a trust anchor.
//!
//! E-FAULT over simulated hierarchies served by the real signing/server code behind a scripted
//! honest recursive upstream (vsec::hier). See hiers.rs (hierarchies + ground truth), faults.rs
//! (fault alphabet: record-level faults and response-level attacker moves), oracle.rs
//! (ground-truth oracle on what `DnssecDnsHandle` returns) and server.rs (the server clause:
//! Catalog + validating forwarder; rcode / AD seen by CD=0 / CD=1 clients).
//!
//! Phases: honest runs (vacuity: Secure / Insecure exactly as published, else exit 2) -> closure
//! of positions under all single faults -> pairs -> server clause. A pair (or a server case) that
//! contains a single fault which alone already violates the oracle is counted under that single's
//! key. Cases that use the key of an ancestor zone are executed and logged, never judged.

mod faults;
mod hiers;
mod oracle;
mod recursor;
mod server;

use std::collections::{BTreeMap, BTreeSet, HashMap};
use std::sync::{Arc, Mutex};

use hickory_proto::op::{Message, Query};
use hickory_proto::rr::{Name, RecordType};
use serde_json::{json, Value};
use vcore::{fnv64, Ctx, Local};
use vsec::upstream::{key_of, Key};

use faults::{Fault, Move, Script};
use hiers::{Hier, Status};
use oracle::{judge, run_case, Outcome};

struct Target {
    hier: Arc<Hier>,
    q: (Name, RecordType),
    honest_answer: Message,
    /// upstream queries observed so far (closure) with their honest answers
    positions: Vec<(Key, Message)>,
    singles: Vec<Fault>,
}

fn name_of(k: &Key) -> Name {
    Name::from_ascii(&k.0).unwrap()
}

fn posclass(t: &Target, k: &Key) -> String {
    if *k == key_of(&t.q.0, t.q.1) {
        "query".into()
    } else {
        RecordType::from(k.1).to_string()
    }
}

fn scene(t: &Target, faults: &[Fault]) -> String {
    let mut v: Vec<String> = faults
        .iter()
        .map(|f| {
            let pos = posclass(t, f.q());
            let mut class = f.class_tag();
            if let Fault::Resp { q, mv: Move::ReplayGenuine { parent, src, alongside, .. } } = f {
                let probe = Script::new(t.hier.clone(), vec![]);
                let query = Query::new(name_of(q), RecordType::from(q.1));
                if let Some(zq) = t.hier.h.zone_for(&query.name, query.query_type) {
                    let zs = if *parent { t.hier.h.deepest(&t.hier.h.zones[zq].origin.base_name()).unwrap_or(zq) } else { zq };
                    if let Some((_, st)) = probe.reown_sources(zs).get(*src as usize) {
                        let tc = if *st == query.query_type { "same-type" } else if matches!(st, RecordType::NSEC | RecordType::NSEC3) { "NSEC*" } else { "other-type" };
                        class = format!("replay-genuine-rrset-of-other-owner({tc},{})", if *alongside { "alongside" } else { "instead" });
                    }
                }
            }
            if let Fault::Resp { q, mv: Move::Reowned { parent, src, target, .. } } = f {
                // what kind of genuine RRset was re-owned
                let probe = Script::new(t.hier.clone(), vec![]);
                let query = Query::new(name_of(q), RecordType::from(q.1));
                if let Some((_, (so, st), _)) = probe.reowned_parts(&query, *parent, *src, *target) {
                    let answer = matches!(f, Fault::Resp { mv: Move::Reowned { answer: true, .. }, .. });
                    let key_type = matches!(st, RecordType::DS | RecordType::DNSKEY);
                    class = if answer {
                        // in the answer section only "key material or not" matters
                        format!("reowned-genuine-rrset({},answer)", if key_type { "DS/DNSKEY" } else { "non-key" })
                    } else if matches!(st, RecordType::NSEC | RecordType::NSEC3) {
                        format!("reowned-genuine-rrset(NSEC*,{},authority)", if so.is_wildcard() { "wildcard-owner" } else { "plain-owner" })
                    } else {
                        format!("reowned-genuine-rrset({},authority)", if key_type { "DS/DNSKEY" } else { "other" })
                    };
                }
            }
            // at an NS position (the validator's unvalidated zone-cut walk) every way of putting an
            // NS RRset for the asked name into the response is the same thing
            if pos == "NS" && (class.starts_with("forge-") || class.starts_with("inject") || class.starts_with("reowned-")) {
                "fake-ns-answer@NS".to_string()
            } else {
                format!("{class}@{pos}")
            }
        })
        .collect();
    v.sort();
    v.join(" + ")
}

/// the scene of a server-level finding: as `scene`, without the type of the edited record
fn server_scene(t: &Target, faults: &[Fault]) -> String {
    let s = scene(t, faults);
    let mut out = String::new();
    let mut depth = 0;
    let mut skip = false;
    for (i, ch) in s.char_indices() {
        // drop "(TYPE)" after drop-record / change-owner / change-rdata / strip-rrsigs
        if ch == '(' && (s[..i].ends_with("drop-record") || s[..i].ends_with("change-owner") || s[..i].ends_with("change-rdata") || s[..i].ends_with("strip-rrsigs") || s[..i].ends_with("reowned-genuine-rrset")) {
            skip = true;
            depth = 1;
            continue;
        }
        if skip {
            if ch == '(' {
                depth += 1;
            } else if ch == ')' {
                depth -= 1;
                if depth == 0 {
                    skip = false;
                }
            }
            continue;
        }
        out.push(ch);
    }
    out
}

fn case_json(t: &Target, faults: &[Fault], out: &Outcome) -> Value {
    json!({
        "hierarchy": t.hier.name,
        "query": {"name": t.q.0.to_ascii(), "type": u16::from(t.q.1)},
        "faults": faults.iter().map(|f| f.to_json()).collect::<Vec<_>>(),
        "observed": format!("{out:?}").chars().take(1500).collect::<String>(),
    })
}

/// Execute + judge one case; returns (log, finding clauses).
fn exec(t: &Target, faults: &[Fault], rt: &tokio::runtime::Runtime, l: &mut Local, attributed: Option<&HashMap<Fault, String>>) -> (Vec<Key>, Vec<String>) {
    let run = run_case(&t.hier, &t.q, faults, rt);
    l.eval();
    if run.inapplicable {
        l.outcome("fault-not-applicable-as-described");
    }
    let j = judge(&t.hier, &t.q, &t.honest_answer, &run.outcome);
    l.outcome(&j.class);
    for o in &j.obs {
        l.outcome(o);
    }
    // non-trivial: the fault changed what the validator saw in a response it consumed and the
    // outcome differs from the honest one, or is still accepted
    l.nontrivial(fnv64(format!("{}|{:?}|{:?}", t.hier.h.name, t.q, faults).as_bytes()));
    let mut clauses = vec![];
    if faults.iter().any(|f| f.uses_ancestor_key()) {
        // whoever holds the key of an ancestor zone controls the delegation anyway: executed and
        // logged, never judged
        if !j.findings.is_empty() {
            l.outcome("obs:ancestor-key-case-with-oracle-deviation(not-judged)");
        }
        return (run.log, clauses);
    }
    // a pair that contains a single fault which alone already violates the oracle is a
    // consequence of that single: it is counted under the single's key
    if let Some(map) = attributed {
        if !j.findings.is_empty() {
            if let Some(k) = faults.iter().find_map(|x| map.get(x)) {
                l.violation(k, "(pair containing this already violating single fault)", || case_json(t, faults, &run.outcome));
                return (run.log, clauses);
            }
        }
    }
    for f in &j.findings {
        // clauses that name the decisive observable themselves (panic location, an RRSIG whose
        // signer has no authority over the owner, an unauthenticated NSEC next to a Secure record
        // of the same owner) need no fault scene
        let sc = {
            let qk = key_of(&t.q.0, t.q.1);
            let payload = |x: &Fault| matches!(x, Fault::Resp { mv: Move::ForgeUnsigned | Move::ForgeSignedBy(_) | Move::ReplayWildcard { .. } | Move::Reorder { .. } | Move::AugmentDnskeySet { .. } | Move::StripAnswer | Move::StripAuthority | Move::StripBoth, .. });
            match faults {
                // general L2 x L2 pair: the move at the validator's own query only has to produce
                // the claimed (positive / negative) shape, the decisive move is the other one
                [a, b] if *a.q() == qk && *b.q() != qk && !payload(a) => format!("{} + other-move@query", scene(t, std::slice::from_ref(b))),
                _ => scene(t, faults),
            }
        };
        let key = if f.clause.starts_with("panic:") || f.clause.contains("signer-not-enclosing-owner") { f.clause.clone() } else { format!("{}|{}", f.clause, sc) };
        clauses.push(key.clone());
        if !l.has_violation_key(&key) {
            // determinism: a violating case must reproduce
            let again = run_case(&t.hier, &t.q, faults, rt);
            if again.outcome != run.outcome {
                l.violation("nondeterministic-case", "a violating case gave a different outcome when run twice", || case_json(t, faults, &run.outcome));
            }
        }
        l.violation(&key, &f.what, || case_json(t, faults, &run.outcome));
    }
    // a panic aborts the validation at a point that depends on hickory's HashMap iteration
    // order: the upstream queries seen up to there are not used for the position closure
    let log = if matches!(run.outcome, Outcome::Panic(..)) { vec![] } else { run.log };
    (log, clauses)
}

/// outcome class an honest run must have for a query in a zone of that published status
fn want_class(st: Status, positive: bool) -> &'static str {
    match (st, positive) {
        (Status::Secure, true) => "ok:secure",
        (Status::Secure, false) => "ok:negative-secure",
        (Status::Insecure, true) => "ok:insecure",
        (Status::Insecure, false) => "ok:negative-insecure",
        (Status::Bogus, true) => "ok:bogus",
        (Status::Bogus, false) => "error",
    }
}

fn load_honest(t: &Target, k: &Key, rt: &tokio::runtime::Runtime) -> Message {
    let q = Query::new(name_of(k), RecordType::from(k.1));
    let b = t.hier.served(k, rt.block_on(t.hier.h.honest(&q)));
    Message::from_vec(&b).expect("honest answer decodes")
}

fn main() {
    // a stack overflow / abort in the code under test must become a verdict, not a dead check
    vcore::supervise("C07");
    vcore::install_log_evaluation(); // logging is part of the environment: log arguments are evaluated as under a real subscriber
    let ctx = Ctx::from_args("C07", "fault_enumeration");
    let thorough = !ctx.quick();
    let rt = vsim::rt();

    if let Some((_key, case)) = ctx.replay_case() {
        let hier = Arc::new(hiers::build(case["hierarchy"].as_str().unwrap_or_else(|| vcore::machinery_exit("replay: no hierarchy"))));
        let q = (Name::from_ascii(case["query"]["name"].as_str().unwrap()).unwrap(), RecordType::from(case["query"]["type"].as_u64().unwrap() as u16));
        let faults: Vec<Fault> = case["faults"].as_array().unwrap().iter().map(|f| Fault::from_json(f).unwrap_or_else(|| vcore::machinery_exit("replay: bad fault"))).collect();
        let honest = run_case(&hier, &q, &[], &rt);
        let mut t = Target { hier, q, honest_answer: Message::query(), positions: vec![], singles: vec![] };
        let _ = honest;
        t.honest_answer = load_honest(&t, &key_of(&t.q.0, t.q.1), &rt);
        if case["recursor"].as_bool() == Some(true) {
            let run = recursor::run_recursor_case(&t.hier, &t.q, &faults, case["client_do"].as_bool().unwrap_or(true), &rt);
            let j = judge(&t.hier, &t.q, &t.honest_answer, &run.outcome);
            eprintln!("replayed recursor case: {} {:?}", j.class, format!("{:?}", run.outcome).chars().take(400).collect::<String>());
            ctx.with_local(|l| {
                for x in &j.findings {
                    let key = if x.clause.starts_with("panic:") { format!("{}|recursor", x.clause) } else { format!("{}|recursor:{}", x.clause, scene(&t, &faults)) };
                    l.violation(&key, &x.what, || case.clone());
                }
            });
            ctx.finish(false);
        }
        if case["server"].as_bool() == Some(true) {
            let c = server::Client { cd: case["client"]["cd"].as_bool().unwrap_or(false), dnssec_ok: case["client"]["do"].as_bool().unwrap_or(true), ad: case["client"]["ad"].as_bool().unwrap_or(false) };
            let out = server::run_server_case(&t.hier, &t.q, &faults, c, &rt);
            let (findings, class) = server::judge_server(&t.hier, &t.q, &t.honest_answer, c, &out);
            eprintln!("replayed server case: {class} {out:?}");
            ctx.with_local(|l| {
                for x in findings {
                    l.violation(&format!("{}|{}", x.clause, server_scene(&t, &faults)), &x.what, || case.clone());
                }
            });
            ctx.finish(false);
        }
        if std::env::var("C07_REPLAY_TRACE").is_ok() {
            let r = run_case(&t.hier, &t.q, &faults, &rt);
            eprintln!("upstream queries in order: {:?}", r.log);
            eprintln!("outcome: {:?}", r.outcome);
        }
        ctx.with_local(|l| {
            let (_, clauses) = exec(&t, &faults, &rt, l, None);
            eprintln!("replayed: clauses {clauses:?}");
        });
        ctx.finish(false);
    }

    ctx.set_rule(
        "hierarchies (real InMemoryZoneHandler zones signed by the real code, honest recursive upstream): see coverage.hierarchies; \
         queries per hierarchy: existing A, NODATA, NXDOMAIN, wildcard answer, explicit name below the wildcard's parent, DS, DNSKEY, NS \
         (+ one in the neighbouring zone, + CNAMEs into a secure and an insecure zone). DS RRset dimension: every set of 1..3 DS kinds \
         {matching supported, non-matching supported, unsupported algorithm, unsupported digest type} in EVERY served order (40 sequences) \
         honestly (4 queries each), two of them (quick) / all 14 compositions (thorough) under the full fault enumeration; ground truth: \
         a matching supported DS = signed zone, supported but none matching = nothing may validate, only unsupported = insecure. Positions = closure of the upstream queries \
         observed in the honest run and under every single fault. (L1) at every record of every position: drop, flip one RDATA bit, \
         replace RDATA, change owner, raise TTL, strip the RRset's RRSIGs, re-sign the RRset with {key of another secure zone that does \
         not enclose the owner (sibling / child), the REAL key of an owned child / sibling zone with the TARGET zone named as signer (that \
         zone's genuine signed DNSKEY RRset riding along in the target's DNSKEY answer), ancestor key [logged only], attacker key + injected DNSKEY, attacker zone atk., key of \
         an insecure zone, attacker key with the zone key's algorithm and key tag}; (L2) at every position: forge-unsigned, forge-signed-by \
         K, forge unsupported-algorithm DS, replay the zone's genuine wildcard RRset for the query name, strip answer/authority/both, \
         serve the records / the RRSIGs of an RRset in another order (all orders up to 3 records), \
         replay a GENUINE signed RRset of another owner (own owner kept; quick: the RRsets of the queried type, e.g. the sibling \
         delegations' DS RRsets at a DS position) instead of / next to the answer, augment the DNSKEY RRset with the REAL key of an owned \
         sibling / child zone, INJECT ALONGSIDE the intact response one attacker record {DS for the attacker key, attacker DNSKEY, NS, A} under {own owner, \
         stray owner, parent apex, sibling} x {unsigned, attacker-signed} x {answer, authority}, augment the DNSKEY RRset with the \
         attacker key + its signature over the whole set, \
         replace the response by a GENUINE signed RRset of the answering zone or its parent, re-owned (all records and RRSIGs, RDATA \
         and signatures untouched) to {query name, secure delegation point, existing signed name, next-closer name} [quick: wildcard-owned \
         and apex NSEC/NSEC3 and the SOA, authority section; thorough: every NSEC/NSEC3 RRset and one RRset of every other type, \
         authority and answer section], \
         rcode := 0/2/3, genuine SOA + forged unsigned apex NSEC, replace-by-denial(R) for R in {SOA,NS,A,NSEC,NSEC3,DS,DNSKEY} x owner \
         {qname, zone apex, parent apex, name in an insecure zone, name in a secure sibling} x {unsigned, genuine, attacker-signed}. All \
         singles; pairs = (forge/replay/strip move at the validator's query) x (every L2 move [thorough: and every L1 fault] at every other \
         position) [quick: for the positive-A query of every hierarchy and the DS / DNSKEY queries of two hierarchies; quick also asks only the positive, NXDOMAIN, DS, DNSKEY and neighbouring-zone queries in seven of the eleven hierarchies]. Server clause: Catalog + validating ForwardZoneHandler (real \
         Resolver) over the same upstream, honest + every single fault x client CD/DO/AD variants. Oracle: ground truth in the published \
         zones (oracle.rs, server.rs). distinct_nontrivial = distinct (hierarchy, query, fault script) executed on the validator.",
    );
    ctx.assume("ring signature primitives; the published zone contents and the DS/DNSKEY links computed from them (hiers.rs::status) are the ground truth");
    ctx.assume("an attacker may hold the keys of sibling / child / insecure zones and fresh keys, not of an ancestor of the target (ancestor-key cases are logged, not judged)");
    ctx.assume("faults that leave the outcome Secure with published data signed by the record's own zone are not violations");

    // ---- A/B: hierarchies, honest runs (vacuity guard)
    let mut targets: Vec<Target> = vec![];
    let mut hier_names = vec![];
    // DS RRset composition x served order: full fault enumeration for two (quick) / for every
    // composition in one order (thorough); every order of every composition honestly below
    let mut all_names: Vec<String> = hiers::names(thorough).into_iter().map(String::from).collect();
    if thorough {
        for seq in hiers::ds_mix_sequences() {
            let mut sorted: Vec<char> = seq.chars().collect();
            sorted.sort_by_key(|c| hiers::DS_KINDS.iter().position(|k| k == c));
            if sorted.iter().collect::<String>() == seq {
                all_names.push(format!("ds-mix:{seq}"));
            }
        }
    } else {
        all_names.extend(["ds-mix:MA".to_string(), "ds-mix:NMD".to_string()]);
    }
    for name in all_names.iter().map(|s| s.as_str()) {
        let hier = Arc::new(hiers::build(name));
        hier_names.push(name.to_string());
        for (qi, q) in hier.queries.clone().into_iter().enumerate() {
            // quick tier: the four-level hierarchy with the positive, NXDOMAIN, DS and DNSKEY queries
            // quick tier: the full query list for four hierarchies (and the ds-mix ones); positive,
            // NXDOMAIN, DS, DNSKEY and the neighbouring-zone queries for the others
            let full = ["all-signed", "signed-next-to-insecure", "apex-wildcards", "leaf-unsigned-nsec"].contains(&name) || name.starts_with("ds-mix:");
            if !thorough && !full && ![0usize, 2, 5, 6].contains(&qi) && qi < 8 {
                continue;
            }
            let honest = run_case(&hier, &q, &[], &rt);
            let mut t = Target { hier: hier.clone(), q: q.clone(), honest_answer: Message::query(), positions: vec![], singles: vec![] };
            t.honest_answer = load_honest(&t, &key_of(&q.0, q.1), &rt);
            let j = judge(&hier, &q, &t.honest_answer, &honest.outcome);
            let st = hier.status(&q.0, q.1);
            let positive = !t.honest_answer.answers.is_empty();
            let want = want_class(st, positive);
            if !(j.class == want || (st == Status::Bogus && j.class == "error")) || !j.findings.is_empty() {
                ctx.machinery_failure(&format!("honest run of {} {} {} is {} (findings {:?}), published status demands {}", name, q.0, q.1, j.class, j.findings, want));
                // an honest hierarchy judged wrongly in the unsound direction is a violation too
                ctx.with_local(|l| {
                    for f in &j.findings {
                        l.violation(&format!("{}|honest", f.clause), &f.what, || case_json(&t, &[], &honest.outcome));
                    }
                });
                continue;
            }
            ctx.with_local(|l| l.outcome(&format!("honest:{want}")));
            let mut seen = BTreeSet::new();
            for k in honest.log {
                if seen.insert(k.clone()) {
                    let m = load_honest(&t, &k, &rt);
                    t.positions.push((k, m));
                }
            }
            targets.push(t);
        }
    }
    // ---- B2: every DS RRset composition in EVERY served order, honest upstream (the order of the
    // records of an RRset is not protected by the signature: each order is an honest upstream)
    {
        let seqs = hiers::ds_mix_sequences();
        ctx.set("ds_rrset_sequences", json!(seqs.len()));
        let mut secure_ok = 0;
        for seq in &seqs {
            let hier = Arc::new(hiers::build(&format!("ds-mix:{seq}")));
            for q in hier.queries.clone() {
                let run = run_case(&hier, &q, &[], &rt);
                let mut t = Target { hier: hier.clone(), q: q.clone(), honest_answer: Message::query(), positions: vec![], singles: vec![] };
                t.honest_answer = load_honest(&t, &key_of(&q.0, q.1), &rt);
                let j = judge(&hier, &q, &t.honest_answer, &run.outcome);
                let st = hier.status(&q.0, q.1);
                let want = want_class(st, !t.honest_answer.answers.is_empty());
                ctx.with_local(|l| {
                    l.eval();
                    l.outcome(&format!("ds-order-honest:{}", j.class));
                    for f in &j.findings {
                        l.violation(&format!("{}|honest-upstream(ds-rrset-order)", f.clause), &f.what, || case_json(&t, &[], &run.outcome));
                    }
                    if j.findings.is_empty() && !(j.class == want || (st == Status::Bogus && (j.class == "error" || j.class == "ok:bogus"))) {
                        // not a soundness matter (e.g. Bogus where Secure is due): logged
                        l.outcome_sample("obs:ds-order-honest-outcome-differs-from-published-status", || json!(format!("{} {} {}: {} instead of {}", hier.name, q.0, q.1, j.class, want)));
                    } else if st == Status::Secure && j.findings.is_empty() {
                        secure_ok += 1;
                    }
                });
            }
        }
        if secure_ok == 0 {
            ctx.machinery_failure("vacuous: no DS RRset order validated as Secure");
        }
    }
    eprintln!("[C07] hierarchies + honest runs: {:.1}s", ctx.elapsed_s());
    ctx.set("hierarchies", json!(hier_names));
    ctx.set("targets", json!(targets.len()));

    let nondet = std::sync::atomic::AtomicBool::new(false);
    // ---- C: closure over single faults
    // single fault -> the (first, in key order) violation key it produces on its own
    let mut single_viol: HashMap<Fault, String> = HashMap::new();
    let mut done_positions: Vec<usize> = vec![0; targets.len()];
    let mut n_singles = 0u64;
    for round in 0..6 {
        // enumerate singles at the not yet expanded positions
        let mut work: Vec<(usize, Fault)> = vec![];
        for (ti, t) in targets.iter_mut().enumerate() {
            let probe = Script::new(t.hier.clone(), vec![]);
            let mut new = vec![];
            for (k, m) in &t.positions[done_positions[ti]..] {
                let q = Query::new(name_of(k), RecordType::from(k.1));
                new.extend(faults::singles_at(&probe, &q, m, thorough));
            }
            done_positions[ti] = t.positions.len();
            for f in &new {
                work.push((ti, f.clone()));
            }
            t.singles.extend(new);
        }
        if work.is_empty() {
            break;
        }
        eprintln!("[C07] round {round}: {} single faults enumerated at {:.1}s", work.len(), ctx.elapsed_s());
        n_singles += work.len() as u64;
        let new_keys: Mutex<Vec<(usize, Key)>> = Mutex::new(vec![]);
        let viol: Mutex<Vec<(Fault, String)>> = Mutex::new(vec![]);
        let tg = &targets;
        ctx.par_run_init(
            work.len() as u64,
            16,
            |_| vsim::rt(),
            |i, l, rt| {
                let (ti, f) = &work[i as usize];
                let t = &tg[*ti];
                let (log, clauses) = exec(t, std::slice::from_ref(f), rt, l, None);
                // determinism self-test on a fixed slice: same case, same outcome
                if i % 61 == 0 {
                    let a = run_case(&t.hier, &t.q, std::slice::from_ref(f), rt);
                    let b = run_case(&t.hier, &t.q, std::slice::from_ref(f), rt);
                    // what must be identical: the oracle's view (findings and the outcome class, with
                    // "error" and "only Bogus records" counted as the same rejection - hickory's
                    // HashMap iteration order decides which of the two a validation loop ends in)
                    let view = |r: &oracle::Run| {
                        let j = judge(&t.hier, &t.q, &t.honest_answer, &r.outcome);
                        let class = if j.class == "error" || j.class == "ok:bogus" || j.class == "ok:" { "rejected".to_string() } else { j.class.clone() };
                        (class, j.findings.iter().map(|x| x.clause.clone()).collect::<Vec<_>>())
                    };
                    let (va, vb) = (view(&a), view(&b));
                    if va.1 == vb.1 && va.0 != vb.0 {
                        // same (empty or equal) findings, different acceptable outcomes - e.g. the
                        // published truth accepted in one run and an error in the other: hickory's
                        // HashMap iteration order inside a validation loop; not a soundness matter
                        l.outcome_sample("obs:order-dependent-outcome-with-equal-findings", || json!(format!("{} {:?} {:?}: {} vs {}", t.hier.name, t.q, f, va.0, vb.0)));
                    }
                    if va.1 != vb.1 {
                        nondet.store(true, std::sync::atomic::Ordering::SeqCst);
                        eprintln!("nondeterministic outcome: {} {:?} {:?}", t.hier.h.name, t.q, f);
                    }
                    l.outcome("determinism-self-test-cases");
                }
                if std::env::var("C07_DEBUG_DET").is_ok() {
                    let again = run_case(&t.hier, &t.q, std::slice::from_ref(f), rt);
                    let a: BTreeSet<_> = log.iter().cloned().collect();
                    let b: BTreeSet<_> = again.log.iter().cloned().collect();
                    if a != b && !matches!(again.outcome, Outcome::Panic(..)) {
                        eprintln!("LOGDIFF {} {:?} {:?}\n   only-first {:?}\n   only-second {:?}", t.hier.h.name, t.q, f, a.difference(&b).collect::<Vec<_>>(), b.difference(&a).collect::<Vec<_>>());
                    }
                }
                for k in log {
                    if !t.positions.iter().any(|(p, _)| *p == k) {
                        new_keys.lock().unwrap().push((*ti, k));
                    }
                }
                if let Some(c) = clauses.into_iter().min() {
                    viol.lock().unwrap().push((f.clone(), c));
                }
            },
        );
        for (f, c) in viol.into_inner().unwrap() {
            let e = single_viol.entry(f).or_insert_with(|| c.clone());
            if c < *e {
                *e = c;
            }
        }
        let mut nk = new_keys.into_inner().unwrap();
        nk.sort();
        nk.dedup();
        ctx.set(&format!("closure_round_{round}_new_positions"), json!(nk.len()));
        for (ti, k) in nk {
            let m = load_honest(&targets[ti], &k, &rt);
            targets[ti].positions.push((k, m));
        }
    }
    ctx.set("single_faults", json!(n_singles));
    ctx.set("positions", json!(targets.iter().map(|t| t.positions.len()).sum::<usize>()));

    // ---- D: pairs = payload move at the validator's query x a fault at another position
    let mut pairs: Vec<(usize, Fault, Fault)> = vec![];
    let mut cut_targets = 0;
    for (ti, t) in targets.iter().enumerate() {
        let qk = key_of(&t.q.0, t.q.1);
        // quick tier: pairs for the positive A, DS and DNSKEY queries of every hierarchy
        let first_of_hier = t.hier.queries.iter().position(|q| *q == t.q).unwrap_or(0);
        let ds_mix = t.hier.name.starts_with("ds-mix:");
        // (ds-mix hierarchies: pairs for the positive A query; thorough: for six compositions)
        let ds_mix_pairs = first_of_hier == 0 && (!thorough || ["ds-mix:M", "ds-mix:MA", "ds-mix:MD", "ds-mix:MN", "ds-mix:MNA", "ds-mix:NAD"].contains(&t.hier.name.as_str()));
        if (ds_mix && !ds_mix_pairs) || (!ds_mix && !thorough && !(first_of_hier == 0 || ([5usize, 6].contains(&first_of_hier) && ["all-signed", "signed-next-to-insecure"].contains(&t.hier.name.as_str())))) {
            cut_targets += 1;
            continue;
        }
        // thorough: GENERAL L2 x L2 pairs (any response-level move at the validator's query x any
        // response-level move elsewhere) for two representative targets
        let general = thorough
            && [("all-signed", 0usize), ("signed-next-to-insecure", 2)].contains(&(t.hier.name.as_str(), first_of_hier));
        let firsts: Vec<&Fault> = t
            .singles
            .iter()
            .filter(|f| *f.q() == qk)
            // (additive moves - inject alongside, re-owned RRsets put into the answer section - are no
            // denial-shaped first moves; they take part in the general pairs as second moves)
            .filter(|f| (general && matches!(f, Fault::Resp { .. }) && !matches!(f, Fault::Resp { mv: Move::InjectAlongside { .. } | Move::ReplayGenuine { .. } | Move::Reowned { answer: true, .. }, .. })) || matches!(f, Fault::Resp { mv: Move::ForgeUnsigned | Move::ForgeSignedBy(_) | Move::ReplayWildcard { .. } | Move::Reorder { .. } | Move::AugmentDnskeySet { .. } | Move::StripAnswer | Move::StripAuthority | Move::StripBoth, .. }))
            .collect();
        for a in firsts {
            for b in t.singles.iter().filter(|f| *f.q() != qk) {
                let ok = match b {
                    Fault::Resp { mv: Move::Denial { signed, .. }, .. } => thorough || *signed != faults::Signedness::Attacker,
                    Fault::Resp { .. } => true,
                    Fault::Rec { .. } => thorough && !ds_mix,
                };
                // the general pairs are L2 x L2: a non-payload first move is not paired with L1 faults
                let payload = matches!(a, Fault::Resp { mv: Move::ForgeUnsigned | Move::ForgeSignedBy(_) | Move::ReplayWildcard { .. } | Move::Reorder { .. } | Move::AugmentDnskeySet { .. } | Move::StripAnswer | Move::StripAuthority | Move::StripBoth, .. });
                let ok = ok && (payload || matches!(b, Fault::Resp { .. }));
                if ok {
                    pairs.push((ti, a.clone(), b.clone()));
                }
            }
        }
    }
    eprintln!("[C07] singles done, {} pairs enumerated at {:.1}s", pairs.len(), ctx.elapsed_s());
    ctx.set("pair_faults", json!(pairs.len()));
    if !thorough {
        ctx.set("not_enumerated", json!(format!(
            "quick tier: pairs only for the positive-A, DS and DNSKEY queries ({} of {} targets skipped for pairs), second fault = L2 moves without attacker-signed denial records; no L1xL2 pairs, triples only along the chain for two hierarchies; inject-alongside only with DS / DNSKEY material at the query and at DS / DNSKEY positions",
            cut_targets,
            targets.len()
        )));
    } else {
        ctx.set("not_enumerated", json!("thorough tier: pairs are (forge/strip move at the validator's query) x (any single fault elsewhere); plus GENERAL L2xL2 pairs for two representative targets (all-signed www A, signed-next-to-insecure NXDOMAIN); triples only along the chain (forge-signed-by-attacker@query x attacker key in the DNSKEY RRset x attacker DS injected alongside)"));
    }
    let tg = &targets;
    let sv = &single_viol;
    ctx.par_run_init(
        pairs.len() as u64,
        16,
        |_| vsim::rt(),
        |i, l, rt| {
            let (ti, a, b) = &pairs[i as usize];
            exec(&tg[*ti], &[a.clone(), b.clone()], rt, l, Some(sv));
        },
    );

    // ---- D2: triples along the chain: forged data signed with the attacker key at the validator's
    // query x (attacker key put into / in place of the DNSKEY RRset) at a DNSKEY position x (attacker
    // DS injected alongside the intact DS response) at a DS position; for the positive-A targets of
    // the hierarchies that get DS/DNSKEY pairs (quick: two hierarchies, thorough: all non-ds-mix)
    let mut triples: Vec<(usize, [Fault; 3])> = vec![];
    for (ti, t) in targets.iter().enumerate() {
        let qi = t.hier.queries.iter().position(|q| *q == t.q).unwrap_or(99);
        let chosen = qi == 0 && !t.hier.name.starts_with("ds-mix:") && (thorough || ["all-signed", "signed-next-to-insecure"].contains(&t.hier.name.as_str()));
        if !chosen {
            continue;
        }
        let qk = key_of(&t.q.0, t.q.1);
        let firsts: Vec<&Fault> = t.singles.iter().filter(|f| *f.q() == qk && matches!(f, Fault::Resp { mv: Move::ForgeSignedBy(faults::KeyChoice::AttackerSameZone | faults::KeyChoice::OwnedSiblingZoneKeyClaimingTarget | faults::KeyChoice::OwnedChildZoneKeyClaimingTarget), .. })).collect();
        let keys: Vec<&Fault> = t
            .singles
            .iter()
            .filter(|f| *f.q() != qk && f.q().1 == u16::from(RecordType::DNSKEY) && matches!(f, Fault::Resp { mv: Move::AugmentDnskeySet { .. } | Move::ForgeSignedBy(faults::KeyChoice::AttackerSameZone), .. }))
            .collect();
        let dss: Vec<&Fault> = t
            .singles
            .iter()
            .filter(|f| *f.q() != qk && f.q().1 == u16::from(RecordType::DS) && matches!(f, Fault::Resp { mv: Move::InjectAlongside { what: RecordType::DS, .. } | Move::ReplayGenuine { answer: true, .. }, .. }))
            .collect();
        for a in &firsts {
            for b in &keys {
                for c in &dss {
                    triples.push((ti, [(*a).clone(), (*b).clone(), (*c).clone()]));
                }
            }
        }
    }
    ctx.set("triple_faults", json!(triples.len()));
    eprintln!("[C07] pairs done, {} triples at {:.1}s", triples.len(), ctx.elapsed_s());
    ctx.par_run_init(
        triples.len() as u64,
        16,
        |_| vsim::rt(),
        |i, l, rt| {
            let (ti, f) = &triples[i as usize];
            exec(&tg[*ti], &f[..], rt, l, Some(sv));
        },
    );

    // ---- E: the server clause (Catalog + validating forwarder), honest + every single fault
    let server_targets: Vec<usize> = targets
        .iter()
        .enumerate()
        .filter(|(_, t)| {
            let hn = t.hier.h.name.as_str();
            let qi = t.hier.queries.iter().position(|q| *q == t.q).unwrap_or(99);
            (hn == "signed-next-to-insecure" && [0usize, 1, 2, 8, 9, 10].contains(&qi)) || (thorough && (hn == "all-signed" || hn == "leaf-unsigned-nsec") && [0usize, 2].contains(&qi))
        })
        .map(|(i, _)| i)
        .collect();
    {
        // honest: AD exactly when asked for and everything is secure
        for ti in &server_targets {
            let t = &targets[*ti];
            for c in server::CLIENTS {
                let out = server::run_server_case(&t.hier, &t.q, &[], c, &rt);
                let (f, class) = server::judge_server(&t.hier, &t.q, &t.honest_answer, c, &out);
                ctx.with_local(|l| l.outcome(&format!("honest:{class}")));
                let st = t.hier.status(&t.q.0, t.q.1);
                let ad = matches!(out, server::ServerOutcome::Response { ad: true, .. });
                let servfail = matches!(out, server::ServerOutcome::Response { rcode: hickory_proto::op::ResponseCode::ServFail, .. });
                if servfail || matches!(out, server::ServerOutcome::NoResponse | server::ServerOutcome::Panic(..)) {
                    ctx.machinery_failure(&format!("server: honest {} {} {} gives {:?}", t.hier.h.name, t.q.0, t.q.1, out));
                }
                for x in f {
                    ctx.with_local(|l| l.violation(&format!("{}|honest", x.clause), &x.what, || json!({"server": true, "hierarchy": t.hier.name, "query": {"name": t.q.0.to_ascii(), "type": u16::from(t.q.1)}, "faults": [], "client": format!("{c:?}"), "observed": format!("{out:?}")})));
                }
                let _ = (st, ad);
            }
        }
    }
    let mut swork: Vec<(usize, usize, usize)> = vec![];
    for ti in &server_targets {
        for fi in 0..targets[*ti].singles.len() {
            for ci in 0..server::CLIENTS.len() {
                // thorough: all six client variants; quick: CD=0/DO=1 and CD=1/DO=1
                // thorough: all six client variants; quick: CD=0/DO=1 for every fault, CD=1/DO=1 for the
                // response-level moves at the client's own query
                if thorough || ci == 1 || (ci == 4 && matches!(&targets[*ti].singles[fi], Fault::Resp { q, .. } if *q == key_of(&targets[*ti].q.0, targets[*ti].q.1))) {
                    swork.push((*ti, fi, ci));
                }
            }
        }
    }
    ctx.set("server_cases", json!(swork.len()));
    eprintln!("[C07] pairs done, {} server cases at {:.1}s", swork.len(), ctx.elapsed_s());
    ctx.par_run_init(
        swork.len() as u64,
        8,
        |_| vsim::rt(),
        |i, l, rt| {
            let (ti, fi, ci) = swork[i as usize];
            let t = &tg[ti];
            let f = &t.singles[fi];
            if f.uses_ancestor_key() {
                return;
            }
            let c = server::CLIENTS[ci];
            let out = server::run_server_case(&t.hier, &t.q, std::slice::from_ref(f), c, rt);
            l.eval();
            let (findings, class) = server::judge_server(&t.hier, &t.q, &t.honest_answer, c, &out);
            l.outcome(&class);
            if findings.is_empty() {
                return;
            }
            let cj = || json!({"server": true, "hierarchy": t.hier.name, "query": {"name": t.q.0.to_ascii(), "type": u16::from(t.q.1)}, "faults": [f.to_json()], "client": {"cd": c.cd, "do": c.dnssec_ok, "ad": c.ad}, "observed": format!("{out:?}")});
            // a fault that already fools the validator (listed under its own key) is expected to
            // show at the server too: counted under that key
            if let Some(k) = sv.get(f) {
                l.violation(k, "(server-level consequence of this validator-level violation)", cj);
                return;
            }
            for x in findings {
                l.violation(&format!("{}|{}", x.clause, server_scene(t, std::slice::from_ref(f))), &x.what, cj);
            }
        },
    );

    if nondet.load(std::sync::atomic::Ordering::SeqCst) {
        ctx.machinery_failure("determinism self-test failed: a case gave two different outcomes");
    }
    // ---- F: the validating RECURSOR over its own hierarchy (in-zone name servers, real referrals
    // walked from the root): honest runs + every single fault at the positions it asks
    {
        let hier = Arc::new(hiers::build("recursor"));
        let mut rtargets: Vec<Target> = vec![];
        for q in hier.queries.clone() {
            let honest = recursor::run_recursor_case(&hier, &q, &[], true, &rt);
            let mut t = Target { hier: hier.clone(), q: q.clone(), honest_answer: Message::query(), positions: vec![], singles: vec![] };
            t.honest_answer = load_honest(&t, &key_of(&q.0, q.1), &rt);
            let j = judge(&hier, &q, &t.honest_answer, &honest.outcome);
            let st = hier.status(&q.0, q.1);
            let positive = !t.honest_answer.answers.is_empty();
            // (the recursor reports negative answers as errors)
            let mut ok = if positive { j.class == want_class(st, true) } else { j.class == "error" || j.class == want_class(st, false) };
            // a client that does not set DO gets the same verdicts (only the DNSSEC records are stripped)
            let mut j = j;
            let honest_plain = recursor::run_recursor_case(&hier, &q, &[], false, &rt);
            let jp = judge(&hier, &q, &t.honest_answer, &honest_plain.outcome);
            ok = ok && (jp.class == j.class || (!positive && jp.class == "error"));
            j.findings.extend(jp.findings);
            ctx.with_local(|l| l.outcome(&format!("recursor-honest:{}", j.class)));
            if !ok || !j.findings.is_empty() {
                ctx.machinery_failure(&format!("recursor: honest {} {} is {} (findings {:?})", q.0, q.1, j.class, j.findings));
                ctx.with_local(|l| {
                    for f in &j.findings {
                        l.violation(&format!("{}|recursor:honest", f.clause), &f.what, || case_json(&t, &[], &honest.outcome));
                    }
                });
                continue;
            }
            let mut seen = BTreeSet::new();
            let probe = Script::new(hier.clone(), vec![]);
            for k in honest.log {
                if seen.insert(k.clone()) {
                    let m = load_honest(&t, &k, &rt);
                    let query = Query::new(name_of(&k), RecordType::from(k.1));
                    t.singles.extend(faults::singles_at(&probe, &query, &m, thorough));
                    t.positions.push((k, m));
                }
            }
            rtargets.push(t);
        }
        let rwork: Vec<(usize, usize, bool)> = rtargets.iter().enumerate().flat_map(|(ti, t)| (0..t.singles.len()).flat_map(move |fi| if thorough { vec![(ti, fi, true), (ti, fi, false)] } else { vec![(ti, fi, true)] })).collect();
        ctx.set("recursor_cases", json!(rwork.len()));
        eprintln!("[C07] server cases done, {} recursor cases at {:.1}s", rwork.len(), ctx.elapsed_s());
        let rtg = &rtargets;
        ctx.par_run_init(
            rwork.len() as u64,
            8,
            |_| vsim::rt(),
            |i, l, rt| {
                let (ti, fi, client_do) = rwork[i as usize];
                let t = &rtg[ti];
                let f = &t.singles[fi];
                if f.uses_ancestor_key() {
                    return;
                }
                let run = recursor::run_recursor_case(&t.hier, &t.q, std::slice::from_ref(f), client_do, rt);
                l.eval();
                let j = judge(&t.hier, &t.q, &t.honest_answer, &run.outcome);
                l.outcome(&format!("recursor:{}", j.class));
                for x in &j.findings {
                    let key = if x.clause.starts_with("panic:") { format!("{}|recursor", x.clause) } else { format!("{}|recursor:{}", x.clause, scene(t, std::slice::from_ref(f))) };
                    l.violation(&key, &x.what, || {
                        let mut c = case_json(t, std::slice::from_ref(f), &run.outcome);
                        c["recursor"] = json!(true);
                        c["client_do"] = json!(client_do);
                        c
                    });
                }
            },
        );
    }

    // ---- vacuity: the enumeration must have produced every outcome class
    for c in ["error", "ok:secure", "ok:bogus", "server:servfail", "server:data+AD", "server:data:cd"] {
        if ctx.outcome_count(c) == 0 {
            ctx.machinery_failure(&format!("vacuous: outcome class {c} never observed"));
        }
    }
    let mut per_clause: BTreeMap<String, u64> = BTreeMap::new();
    for c in single_viol.values() {
        *per_clause.entry(c.split('|').next().unwrap_or("").to_string()).or_insert(0) += 1;
    }
    ctx.set("violating_single_faults_per_clause", json!(per_clause));
    ctx.with_local(|l| {
        for t in targets.iter().step_by(7) {
            l.sample(json!({"hierarchy": t.hier.name, "query": format!("{} {}", t.q.0, t.q.1), "positions": t.positions.iter().map(|p| format!("{} {}", p.0 .0, RecordType::from(p.0 .1))).collect::<Vec<_>>(), "single_faults": t.singles.len()}));
        }
    });
    ctx.finish(true);
}
